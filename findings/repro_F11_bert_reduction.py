"""F11 (C05): size reduction from BERT (SZX 7) to SZX 6 doubles the block cursor.
Run: cd <repo> && /venv/bin/python /verif/findings/repro_F11_bert_reduction.py
Exit 1 when the defect is present (bytes 1024..2047 are never sent)."""
import asyncio, sys, logging
import aiocoap
from aiocoap import Message, PUT, CHANGED, CONTINUE
from aiocoap.protocol import BlockwiseRequest


class Remote:
    maximum_block_size_exp = 7
    maximum_payload_size = 1124
    is_multicast = False
    hostinfo = "x"
    scheme = "coap+tcp"


class FakeProtocol:
    def __init__(self):
        self.loop = asyncio.get_event_loop()
        self.log = logging.getLogger("x")
        self.received = bytearray()
        self.offsets = []

    async def find_remote_and_interface(self, msg):
        return None

    def request(self, msg, handle_blockwise=False):
        b1 = msg.opt.block1
        size = 1024 if b1.size_exponent >= 6 else 2 ** (b1.size_exponent + 4)
        self.offsets.append((b1.block_number, b1.size_exponent, b1.block_number * size, len(msg.payload)))
        # conforming RFC 7959 server that prefers SZX 6
        ok = b1.block_number * size == len(self.received)
        if ok:
            self.received += msg.payload
        fut = self.loop.create_future()
        if not ok:
            resp = Message(code=aiocoap.numbers.codes.REQUEST_ENTITY_INCOMPLETE)
        else:
            resp = Message(code=CONTINUE if b1.more else CHANGED)
            resp.opt.block1 = (b1.block_number, b1.more, min(6, b1.size_exponent))
        resp.remote = msg.remote
        fut.set_result(resp)
        return type("R", (), {"response": fut, "observation": None})()


async def main():
    p = FakeProtocol()
    body = bytes(i % 251 for i in range(3000))
    req = Message(code=PUT, payload=body)
    req.remote = Remote()
    response = p.loop.create_future()
    try:
        await BlockwiseRequest._run(req, response, lambda: None, p, p.log)
    except Exception as e:
        print("transfer failed:", type(e).__name__, e)
    print("blocks sent (num, szx, offset, len):", p.offsets)
    if bytes(p.received) != body:
        print("DEFECT: server reassembled %d of %d bytes" % (len(p.received), len(body)))
        return 1
    print("ok: body reassembled intact")
    return 0

sys.exit(asyncio.run(main()))
