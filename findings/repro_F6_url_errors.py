"""F6 (C16): text that is not an acceptable CoAP URI must be rejected with the documented
URL errors (MalformedUrlError / IncompleteUrlError) and nothing else.
Run: cd <repo> && /venv/bin/python /verif/findings/repro_F6_url_errors.py ; exit 1 = defect present."""
import sys
from aiocoap import Message, GET, error
bad = 0
for uri in ["coap://[::1]:abc/", "coap://1..2.3/", "coap://[v1.x]/", "coap://1.1.1." + "1" * 4301 + "/"]:
    try:
        Message(code=GET, uri=uri)
        print("accepted", uri[:40])
    except (error.MalformedUrlError, error.IncompleteUrlError) as e:
        print("documented error", type(e).__name__, uri[:40])
    except Exception as e:
        print("DEFECT undocumented", type(e).__name__, str(e)[:60], uri[:40])
        bad = 1
sys.exit(bad)
