"""F12 (C08/C09): an observable resource that declines the observation and raises a
renderable error gets AttributeError from the finally block -> 5.00 instead of 4.04.
Run: cd <repo> && /venv/bin/python /verif/findings/repro_F12_declined_observation.py
Exit 1 when the defect is present."""
import asyncio, sys, logging
import aiocoap
from aiocoap import Message, GET, resource, interfaces, error
from aiocoap.pipe import Pipe, run_driving_pipe, error_to_message


class Declining(resource.Resource, interfaces.ObservableResource):
    async def add_observation(self, request, serverobservation):
        pass  # declines: never calls serverobservation.accept()

    async def render_get(self, request):
        raise error.NotFound()


async def main():
    log = logging.getLogger("x")
    req = Message(code=GET)
    req.opt.observe = 0
    req.direction = aiocoap.message.Direction.INCOMING
    pipe = Pipe(req, log)
    got = []
    pipe.on_event(lambda ev: (got.append(ev), True)[1])
    pr = error_to_message(pipe, log)
    res = Declining()
    run_driving_pipe(pr, res._render_to_pipe(pr), name="t")
    await asyncio.sleep(0.1)
    codes = [ev.message.code for ev in got if ev.message is not None]
    print("responses:", codes)
    if codes != [aiocoap.numbers.codes.NOT_FOUND]:
        print("DEFECT: expected a single 4.04")
        return 1
    print("ok")
    return 0

sys.exit(asyncio.run(main()))
