"""F1, F2 (C01) and F3 (C06).  Run: cd <repo> && /venv/bin/python /verif/findings/repro_F1_F2_F3.py ; exit 1 = some defect present."""
import sys, asyncio
from aiocoap import Message, error, PUT
from aiocoap.blockwise import Block1Spool
bad = 0
try:
    Message.decode(bytes.fromhex("40010000b1ff"))
    print("F1: accepted")
except error.UnparsableMessage:
    print("F1 ok: UnparsableMessage")
except Exception as e:
    print("F1 DEFECT:", type(e).__name__); bad = 1
m = Message.decode(bytes.fromhex("40010000e0ffff"))
m.direction = m.direction.OUTGOING
try:
    again = m.encode()
    print("F2 ok: option %d re-encodes" % list(m.opt.option_list())[0].number, again.hex())
except Exception as e:
    print("F2 DEFECT: option %d decodes but cannot be encoded: %s" % (list(m.opt.option_list())[0].number, type(e).__name__)); bad = 1

async def f3():
    global bad
    class R:
        blockwise_key = 1
    sp = Block1Spool()
    a = Message(code=PUT, payload=b"x" * 16); a.remote = R(); a.opt.block1 = (0, True, 0)
    c = Message(code=PUT, payload=b"x" * 16); c.remote = R(); c.opt.block1 = (2, True, 0)
    try:
        sp.feed_and_take(a)
    except error.RenderableError:
        pass
    try:
        sp.feed_and_take(c)
        print("F3: accepted a gap")
    except error.RenderableError as e:
        print("F3 ok:", type(e).__name__, e.to_message().code)
    except Exception as e:
        print("F3 DEFECT: gap in Block1 sequence ->", type(e).__name__, "(would be 5.00)"); bad = 1
asyncio.run(f3())
sys.exit(bad)
