#!/venv/bin/python
"""F14: Pipe._add_event logs an exception that arrives after the pipe has ended with
`self.log.error(..., exception=event.exception)`; logging.Logger.error() has no `exception` keyword, so the
call raises TypeError into whoever reported the error (e.g. the loop in TokenManager.dispatch_error that fails
all requests of a remote, or MessageManager._remove_exchange when a Reset arrives for a request that has already
completed -- the rest of that function, including _continue_backlog, is skipped).
Run: PYTHONPATH=/repo /venv/bin/python /verif/findings/repro_F14_pipe_late_exception.py   (exit 1 = defect present)"""
import logging, sys
from aiocoap.pipe import Pipe
from aiocoap import Message, GET, error

log = logging.getLogger("repro")
log.addHandler(logging.NullHandler())
p = Pipe(Message(code=GET), log)
seen = []
p.on_event(lambda ev: seen.append(ev) or False, is_interest=True)   # loses interest at the first event
p.add_response(Message(code=GET), is_last=True)                      # pipe has ended now
try:
    p.add_exception(error.NetworkError("late"))                      # must be logged and discarded
except TypeError as e:
    print("DEFECT: add_exception on an ended pipe raised", repr(e))
    sys.exit(1)
print("ok: late exception was logged and discarded")
