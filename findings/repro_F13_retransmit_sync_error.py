"""F13 (property C08, also C14): a transport error reported synchronously from
inside send() during a *retransmission* does not stop the retransmissions.

MessageManager._retransmit takes the exchange out of _active_exchanges, hands
the message to the transport and only then schedules the next retransmission
and puts the exchange back.  UDP sockets report ENETUNREACH & co from inside
sendmsg (udp6: error_received -> MessageManager.dispatch_error).  When that
happens during a retransmission of a confirmable notification, dispatch_error
ends the registration (cancellation callback runs), finds no exchange of the
remote to cancel and drops the remote's backlog entry; _retransmit then re-arms
the exchange: the notification of the already-ended registration keeps being
retransmitted, and the final time-out does `del self._backlogs[remote]` on an
entry that is gone (KeyError in the event loop).

Found while generalising coaplint clause C08.j (the same order is what seeded
patch C08-r4-1 plants in _send_initially).  Derived from
/verif/seeded/C08-r4-1/demo.py; the fake transport fails the first
retransmission of the observe=2 notification instead of its first transmission.

Run:  PYTHONPATH=/repo /venv/bin/python /verif/findings/repro_F13_retransmit_sync_error.py
exit 1: defect present; exit 0: absent.
"""
import asyncio
import logging
import sys

from aiocoap import Message, Context, resource
from aiocoap.numbers.types import CON, NON, ACK, RST
from aiocoap.numbers.codes import GET, EMPTY, CONTENT
from aiocoap.numbers.constants import TransportTuning
from aiocoap.tokenmanager import TokenManager
from aiocoap.messagemanager import MessageManager
from aiocoap.message import Direction

logging.disable(logging.CRITICAL)


class FakeRemote:
    is_multicast = False
    is_multicast_locally = False
    maximum_block_size_exp = 6
    maximum_payload_size = 1124
    scheme = "coap"
    hostinfo = "peer"
    hostinfo_local = "me"
    uri_base = "coap://peer"
    uri_base_local = "coap://me"

    def __init__(self, name):
        self.name = name

    def __eq__(self, other):
        return isinstance(other, FakeRemote) and other.name == self.name

    def __hash__(self):
        return hash(self.name)

    def __repr__(self):
        return "<FakeRemote %s>" % self.name

    def as_response_address(self):
        return self

    @property
    def blockwise_key(self):
        return self.name


class FakeInterface:
    """Records what is put on the wire.  When `fail_next` is set, the next
    *retransmission* of a notification reports an error for the destination
    synchronously, the way MessageInterfaceUDP6.send / error_received do."""

    def __init__(self):
        self.sent = []
        self.fail_next = False
        self.mman = None

    def send(self, message):
        self.sent.append(
            dict(
                mtype=message.mtype,
                mid=message.mid,
                token=message.token,
                observe=message.opt.observe,
                payload=message.payload,
            )
        )
        if self.fail_next and message.opt.observe is not None and any(s["mid"] == message.mid for s in self.sent[:-1]):
            self.fail_next = False
            self.mman.dispatch_error(OSError(101, "Network is unreachable"), message.remote)

    async def shutdown(self):
        pass

    async def recognize_remote(self, remote):
        return isinstance(remote, FakeRemote)

    async def determine_remote(self, message):
        return None


class FastTuning(TransportTuning):
    # only to keep the demo short; the defaults would retransmit after 2-3s
    ACK_TIMEOUT = 0.05
    ACK_RANDOM_FACTOR = 1.0


class Counter(resource.ObservableResource):
    def __init__(self):
        super().__init__()
        self.value = 0
        self.counts = []

    def update_observation_count(self, newcount):
        self.counts.append(newcount)

    def bump(self):
        self.value += 1
        self.updated_state()

    async def render_get(self, request):
        return Message(
            code=CONTENT, payload=b"%d" % self.value, transport_tuning=FastTuning()
        )


def incoming(remote, mtype, mid, token=b"", code=EMPTY, **opts):
    m = Message(code=code, _mtype=mtype, _mid=mid, _token=token, **opts)
    m.remote = remote
    m.direction = Direction.INCOMING
    return m


async def settle():
    for _ in range(20):
        await asyncio.sleep(0)


async def main():
    asyncio.get_running_loop().set_exception_handler(lambda loop, context: None)

    res = Counter()
    site = resource.Site()
    site.add_resource(["c"], res)
    ctx = Context(serversite=site)
    tman = TokenManager(ctx)
    mman = MessageManager(tman)
    mint = FakeInterface()
    mint.mman = mman
    mman.message_interface = mint
    tman.token_interface = mman
    ctx.request_interfaces.append(tman)

    peer = FakeRemote("peer")
    token = b"\xaa"

    mman.dispatch_message(
        incoming(peer, CON, 100, token, GET, observe=0, uri_path=("c",))
    )
    await settle()
    assert res.counts == [1], res.counts

    # a notification that goes through fine
    res.bump()
    await settle()
    (n1,) = [s for s in mint.sent if s["observe"] == 1]
    assert n1["mtype"] is CON
    mman.dispatch_message(incoming(peer, ACK, n1["mid"]))
    await settle()

    # the next one is sent fine; its first retransmission (after 0.05 s) hits a
    # transport error right when it is handed to the transport
    mint.fail_next = True
    res.bump()
    await asyncio.sleep(0.08)
    await settle()
    if mint.fail_next:
        print("INCONCLUSIVE: no retransmission of the notification was attempted")
        sys.exit(2)

    problems = []
    if res.counts != [1, 0]:
        problems.append("observation count history %r, expected [1, 0]" % res.counts)
    sent_when_ended = len(mint.sent)

    # give retransmission timers ample time
    await asyncio.sleep(0.5)
    late = mint.sent[sent_when_ended:]
    if late:
        problems.append(
            "%d message(s) sent for the registration after it had ended: %r"
            % (len(late), late)
        )
    if res.counts not in ([1, 0],):
        problems.append("cancellation callback ran %d times" % (len(res.counts) - 1))

    # further changes must not produce anything either
    res.bump()
    await settle()
    if len(mint.sent) != sent_when_ended + len(late):
        problems.append("notification sent for a later change")

    await ctx.shutdown()
    await settle()

    if problems:
        print("FAIL:")
        for p in problems:
            print("  ", p)
        sys.exit(1)
    print("OK: registration ended cleanly on the transport error during a retransmission")


asyncio.run(main())
