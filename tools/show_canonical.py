#!/venv/bin/python
"""Print the canonical form (helpers expanded, pure temporaries propagated) of a function as the rules see it.
usage: show_canonical.py [--repo DIR] tokenmanager.TokenManager.process_response ..."""
import ast, os, sys
sys.path.insert(0, os.path.dirname(os.path.dirname(os.path.abspath(__file__))))
a = sys.argv[1:]
if a and a[0] == "--repo":
    os.environ["COAPLINT_REPO"] = a[1]; a = a[2:]
from coaplint.model import Program
prog = Program()
for r in prog.inlined:
    print("#", r)
for f in a:
    print(ast.unparse(prog.func(f).node)); print()
