#!/venv/bin/python
"""Evaluate independently written behaviour-PRESERVING refactorings: apply each patch to a fresh worktree of /repo
HEAD, check that the author's demo prints the same digest with and without it, and run every quick check with
COAPLINT_REPO pointing at the patched worktree.  Every check must still exit 0: an exit 1 is a false alarm, an exit 2
a refusal to analyse code on which the property holds.

usage: eval_refactorings.py [--src DIR] [--only C03/2 ...] [--jobs N] [--out FILE]
"""
import json, os, subprocess, sys, tempfile
from concurrent.futures import ThreadPoolExecutor

VERIF = os.path.dirname(os.path.dirname(os.path.abspath(__file__)))
PY = "/venv/bin/python"
PROPS = ["C%02d" % i for i in range(1, 21)]
NETNS = ["unshare", "-n", "sh", "-c"]


def sh(cmd, cwd=None, env=None, timeout=900):
    try:
        r = subprocess.run(cmd, cwd=cwd, env=env, capture_output=True, text=True, timeout=timeout)
        return r.returncode, r.stdout + r.stderr
    except subprocess.TimeoutExpired:
        return 124, "timeout"


def digest(wt, demo):
    rc, out = sh(NETNS + ["ip link set lo up; exec %s %s" % (PY, demo)], cwd=wt, env=dict(os.environ, PYTHONPATH=wt), timeout=600)
    lines = [l for l in out.splitlines() if "conda" not in l and l.strip()]
    return rc, (lines[-1][:200] if lines else "")


def evaluate(args):
    src, pid, k = args
    d = os.path.join(src, pid, k)
    res = {"id": "%s/%s" % (pid, k), "property": pid}
    patch, demo = os.path.join(d, "patch.diff"), os.path.join(d, "demo.py")
    if not os.path.exists(patch):
        res["status"] = "incomplete"
        return res
    try:
        res["meta"] = json.load(open(os.path.join(d, "meta.json")))
    except Exception:
        res["meta"] = {}
    wt = tempfile.mkdtemp(prefix="rv-%s-%s-" % (pid, k), dir="/tmp")
    os.rmdir(wt)
    rc, out = sh(["git", "-C", "/repo", "worktree", "add", "-q", "--detach", wt, "HEAD"])
    if rc != 0:
        res["status"] = "worktree failed"
        return res
    try:
        if os.path.exists(demo):
            res["digest_clean"] = digest(wt, demo)
        rc, out = sh(["git", "-C", wt, "apply", patch])
        if rc != 0:
            res["status"] = "patch does not apply: " + out[-200:]
            return res
        if os.path.exists(demo):
            res["digest_patched"] = digest(wt, demo)
            res["same_digest"] = res["digest_clean"] == res["digest_patched"] and res["digest_clean"][0] == 0
        checks = {}
        env = dict(os.environ, COAPLINT_REPO=wt, COAPLINT_EVIDENCE_DIR=os.path.join(wt, ".evidence"))
        for p in PROPS:
            rc, out = sh([os.path.join(VERIF, "check"), p], env=env, timeout=300)
            if rc != 0:
                lines = [l for l in out.splitlines() if l.startswith(("VIOLATION", "ANALYSIS-ERROR", "  "))]
                checks[p] = {"exit": rc, "lines": [l[:400] for l in lines[:8]]}
        res["checks_nonzero"] = checks
        res["status"] = "evaluated"
    finally:
        sh(["git", "-C", "/repo", "worktree", "remove", "--force", wt])
    return res


def main():
    a = sys.argv[1:]
    src, only, jobs, out = "/tmp/ref/out", [], 8, None
    i = 0
    while i < len(a):
        if a[i] == "--src": src = a[i + 1]; i += 2
        elif a[i] == "--jobs": jobs = int(a[i + 1]); i += 2
        elif a[i] == "--out": out = a[i + 1]; i += 2
        elif a[i] == "--only":
            i += 1
            while i < len(a) and not a[i].startswith("--"):
                only.append(a[i]); i += 1
        else: i += 1
    todo = []
    for pid in sorted(os.listdir(src)):
        if not (pid.startswith("C") and os.path.isdir(os.path.join(src, pid))):
            continue
        for k in sorted(os.listdir(os.path.join(src, pid))):
            if os.path.isdir(os.path.join(src, pid, k)) and (not only or pid in only or "%s/%s" % (pid, k) in only):
                todo.append((src, pid, k))
    with ThreadPoolExecutor(max_workers=jobs) as ex:
        results = list(ex.map(evaluate, todo))
    for r in results:
        nz = r.get("checks_nonzero", {})
        print("%-8s %-10s same_digest=%s false_alarms=%s refused=%s" % (r["id"], r.get("status"), r.get("same_digest"),
              sorted(p for p, v in nz.items() if v["exit"] == 1), sorted(p for p, v in nz.items() if v["exit"] == 2)))
    if out:
        json.dump(results, open(out, "w"), indent=1)


if __name__ == "__main__":
    main()
