#!/venv/bin/python
"""Render the catch matrix of /verif/seeded/*/meta.json as a markdown table (stdout)."""
import glob, json, os
VERIF = os.path.dirname(os.path.dirname(os.path.abspath(__file__)))


def verdict(d):
    if not isinstance(d, dict):
        return str(d)
    parts = []
    if d.get("caught_by"):
        parts.append("violation in " + ", ".join(d["caught_by"]))
    if d.get("analysis_error_in"):
        parts.append("exit 2 in " + ", ".join(d["analysis_error_in"]))
    return "; ".join(parts) or "**missed**"


print("| id | change (file: what) | needs | all checks at first evaluation | all checks at the last full refresh (rounds 1-4: after pass 4; later rounds: not refreshed) | own property's check now |")
print("|---|---|---|---|---|---|")
for d in sorted(glob.glob(os.path.join(VERIF, "seeded", "*"))):
    m = json.load(open(os.path.join(d, "meta.json")))
    s = (m.get("summary") or "").replace("|", "/").replace("\n", " ")
    n = (m.get("needs") or "").replace("|", "/").replace("\n", " ")
    print("| %s | %s | %s | %s | %s | %s |" % (os.path.basename(d), s[:170] + ("…" if len(s) > 170 else ""), n[:120] + ("…" if len(n) > 120 else ""), verdict(m.get("checks_when_first_evaluated")), verdict(m.get("checks_now")) if m.get("checks_now") else "-", (m.get("own_check_now") or {}).get("verdict", "-")))
