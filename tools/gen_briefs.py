#!/venv/bin/python
"""Generate the per-module briefs of a hardening pass from the current measurements.

usage: gen_briefs.py <ordinal-word> <minutes> <mut_quick-output> <ref_quick-output> [--jobs N]

Reads the output of `tools/mut_quick.py` (own-property run over all seeded patches) and of
`tools/ref_quick.py` (all refactorings x all checks), and writes tools/briefs/<ordinal>_cNN.txt
for every module that has something to do (a missed/refused seeded patch of its own property,
or a false alarm/refusal of its own check on a refactoring).  The fixed part of the text is
taken from tools/briefs/eighth_c02.txt (the last hand-written template)."""
import json, os, re, sys

VERIF = os.path.dirname(os.path.dirname(os.path.abspath(__file__)))


def parse_mut(path):
    """-> {prop: [(sid, status_text)]} for patches not caught by their own check"""
    out, cur = {}, None
    for l in open(path):
        m = re.match(r"(C\d\d-\S+)\s+(ok|MISSED)\s+caught_by=(\[.*?\]) refused=(\[.*?\])", l)
        if m:
            cur = None
            if m.group(2) == "MISSED":
                sid = m.group(1)
                cur = [sid, "refused (exit 2) by your check" if sid.split("-")[0] in m.group(4) else "not reported by your check", []]
                out.setdefault(sid.split("-")[0], []).append(cur)
        elif cur is not None and l.startswith("      "):
            cur[2].append(l.strip()[:400])
    return out


def parse_ref(path):
    """-> {prop: [(rid, kind, detail)]} for refactorings on which prop's check fails"""
    out, cur = {}, None
    for l in open(path):
        m = re.match(r"(C\d\d-\S+) false_alarms=(\[.*?\]) refused=(\[.*?\])", l)
        if m:
            cur = (m.group(1), eval(m.group(2)), eval(m.group(3)), {})
            for p in cur[1]:
                out.setdefault(p, []).append([cur[0], "exit 1", cur[3]])
            for p in cur[2]:
                out.setdefault(p, []).append([cur[0], "exit 2", cur[3]])
        elif cur is not None and l.startswith("      "):
            mm = re.match(r"\s+(C\d\d)\s+(.*)", l)
            if mm:
                cur[3].setdefault(mm.group(1), []).append(mm.group(2).strip()[:400])
    return out


def main():
    ordinal, minutes, mq, rq = sys.argv[1:5]
    jobs = int(sys.argv[sys.argv.index("--jobs") + 1]) if "--jobs" in sys.argv else 4
    tmpl = open(os.path.join(VERIF, "tools", "briefs", "eighth_c02.txt")).read()
    head = tmpl[: tmpl.index("THIS IS AN EIGHTH")]
    tail = tmpl[tmpl.index("## What to do"):]
    muts, refs = parse_mut(mq), parse_ref(rq)
    nref = len([d for d in os.listdir(os.path.join(VERIF, "refactorings"))])
    nmut = len([d for d in os.listdir(os.path.join(VERIF, "seeded"))])
    written = []
    for i in range(1, 21):
        P, p = "C%02d" % i, "c%02d" % i
        if P not in muts and P not in refs:
            continue
        t = head.replace("c02", p).replace("C02", P)
        t += ("THIS IS THE %s PASS, with a HARD TIME LIMIT: you have %s minutes of wall-clock time; check `date` now and then, stop editing "
              "%d minutes before the end, leave the module in a consistent state (all Done-when commands clean) and report.  Earlier passes reworked "
              "every rule module so that clauses are decided semantically (most with their own abstract evaluators in rules/_kit_cNN.py -- read your "
              "module's kit first).  The corpora now hold %d behaviour-preserving refactorings (/verif/refactorings) and %d confirmed property-breaking "
              "patches (/verif/seeded, rounds r1-r6).  Round r6 is new: its patches break the property THROUGH ITS DEPENDENCIES AND ITS TIMING -- a constant, "
              "an exception's base class, __eq__/__hash__/__repr__ of a key object, a property, a default, an enum predicate, a utility, a sibling class, or "
              "a suspension point (await / call_soon / task) moved between a check and the act it protects -- while the central functions stay textually "
              "untouched.  The machine is shared with up to 19 other agents: use --jobs %d at most and prefer targeted runs (`--only <ids>`) while "
              "iterating.  DO NOT run the full sweeps (`tools/ref_quick.py --props CNN` over all refactorings, `tools/mut_quick.py --props CNN` over all patches): "
              "they take far too long on the shared machine and the caller runs them after the pass.  Instead, for the false-alarm side run "
              "`tools/ref_quick.py --props CNN --only <ids>` on the refactorings whose patch.diff touches a file your changed/new clauses read "
              "(`grep -l <file> /verif/refactorings/*/patch.diff`), at most ~40 ids, plus all refactorings of your own property; for the detection "
              "side `tools/mut_quick.py --only CNN`.  Run `./check CNN --tier thorough --jobs %d` exactly once, at the end.\n" % (ordinal.upper(), minutes, 8, nref, nmut, jobs, jobs)).replace("CNN", P)
        if P in refs:
            t += ("PRIORITY 1 -- FALSE ALARMS / REFUSALS of YOUR check (%s) on behaviour-preserving refactorings (every check MUST exit 0 on them; "
                  "read the refactoring's meta.json and patch.diff):\n" % P)
            for rid, kind, det in refs[P]:
                t += "  - /verif/refactorings/%s : %s: %s\n" % (rid, kind, " | ".join(det.get(P, [])[:3]))
            t += ("Fix the clause(s) implemented in your module by generalising the mechanism (not the sample): decide the same necessary condition "
                  "semantically, ask which further spellings of the same fact exist and cover the class.  If the failing clause is implemented in another "
                  "module (imported), say so in the report and leave it.\n")
        if P in muts:
            t += "PRIORITY 2 -- seeded patches of your property that YOUR check does not report as a VIOLATION:\n"
            for sid, status, det in muts[P]:
                meta = json.load(open(os.path.join(VERIF, "seeded", sid, "meta.json")))
                t += "  - /verif/seeded/%s : %s  NEEDS: %s   [now: %s%s]\n" % (
                    sid, (meta.get("summary") or "").replace("\n", " "), (meta.get("needs") or "").replace("\n", " ")[:400], status,
                    ((": " + " | ".join(det[:2])) if det else "") + (("; reported by OTHER checks: %s -- if the violated necessary condition is the same one, reuse that module's clause as a shared clause of your property by importing it, the way earlier passes did (C02.i, C03.e, C13.h ...)" % ", ".join(o for o in (meta.get("checks_when_first_evaluated") or {}).get("caught_by", []) if o != sid.split("-")[0])) if [o for o in (meta.get("checks_when_first_evaluated") or {}).get("caught_by", []) if o != sid.split("-")[0]] else ""))
            t += ("For each: (1) read patch, meta and demo and state which NECESSARY CONDITION of the property the change violates, in terms of the code as "
                  "it is today; (2) decide honestly whether that condition can be decided by static analysis of the source with a SOUND, GENERAL rule (one "
                  "that a maintainer's behaviour-preserving edit cannot trip and that is not a frozen copy of today's text): if yes, add or extend a clause "
                  "(new clause id = next free letter) that decides it for every spelling you can think of, with self-test seeds, and never a rule that "
                  "matches the change itself, its helper names or its text.  Dependency-style breakages are usually caught soundly by making the DEPENDENCY "
                  "an anchored part of the clause: evaluate the predicate/property/__eq__/__hash__/constructor/exception hierarchy the mechanism relies on "
                  "in your module's evaluator over a small finite domain against a reference written from the RFC or from the property text (e.g. 'is_request "
                  "is true exactly for classes 0 with detail != 0', 'equal keys hash equally: __hash__ is a function of the projection __eq__ compares', "
                  "'except X at site S still catches every class raised in its closure'), or by an all-writers/all-readers invariant over the piece of state; "
                  "timing-style breakages by an atomicity obligation: no suspension point (await, yield, call_soon/create_task deferral) on any path between "
                  "the check and the act it protects, or between a state change and the marker other tasks test; (3) if it can NOT be decided soundly in the "
                  "time you have, do NOT add a brittle proxy: leave it undetected -- or refused (exit 2), the designed fail-closed outcome when a mechanism "
                  "your evaluator interprets is replaced by one it cannot interpret -- and say so precisely in your final report (one paragraph per patch: "
                  "the violated condition and what would be needed); (4) a refusal must become a VIOLATION only when the code is in fact wrong and the "
                  "evaluator can be taught the shape soundly.\n")
        t += ("Everything else must stay as it is: all other refactorings silent, the seeded patches of your property that are reported today still "
              "reported, thorough self-test and tools/refactor_variants.py clean.\n\n")
        tl = tail.replace("c02", p).replace("C02", P).replace("--jobs 6", "--jobs %d" % jobs).replace("rob8", "rob9")
        tl = re.sub(r"all \d+ refactorings", "all %d refactorings" % nref, tl)
        tl = re.sub(r"each of the now \d+ independently", "each of the independently", tl)
        tl = re.sub(r"all \d+ patches", "all %d patches" % nmut, tl)
        tl = tl.replace("(rounds r1..r5)", "(rounds r1..r6)").replace("every r1-r4 patch `ok` (r5 patches: as many as can be decided soundly)",
                                                                     "every patch that is `ok` today still `ok` (the listed ones: as many as can be decided soundly)")
        t += tl
        fn = os.path.join(VERIF, "tools", "briefs", "%s_%s.txt" % (ordinal, p))
        open(fn, "w").write(t)
        written.append(fn)
    print("\n".join(written))


if __name__ == "__main__":
    main()
