#!/venv/bin/python
"""Print, per property, the anchors (functions/classes of /repo/aiocoap) its check resolved on its last run on /repo,
from /verif/evidence/Cnn.json (coverage.anchors_resolved)."""
import json, os
VERIF = os.path.dirname(os.path.dirname(os.path.abspath(__file__)))
tot = 0
for i in range(1, 21):
    pid = "C%02d" % i
    ev = json.load(open(os.path.join(VERIF, "evidence", pid + ".json")))
    a = [x[len("aiocoap."):] if x.startswith("aiocoap.") else x for x in ev["coverage"].get("anchors_resolved", [])]
    tot += len(a)
    print("**%s** (%d) — %s.\n" % (pid, len(a), ", ".join("`%s`" % x for x in a)))
print("%d anchors in total." % tot)
