#!/venv/bin/python
"""Run tools/ref_quick.py over the whole corpus and write /verif/refactorings/RESULTS.md
(one line per refactoring: what it does, and which checks -- if any -- still alarm or refuse)."""
import json, os, subprocess, sys
VERIF = os.path.dirname(os.path.dirname(os.path.abspath(__file__)))
out = "/tmp/ref_results.json"
jobs = sys.argv[sys.argv.index("--jobs") + 1] if "--jobs" in sys.argv else "14"
if "--reuse" not in sys.argv:
    subprocess.run([os.path.join(VERIF, "tools/ref_quick.py"), "--jobs", jobs, "--out", out], stdout=subprocess.DEVNULL)
res = json.load(open(out))
lines = ["# Independent behaviour-preserving refactorings: current result of every check", "",
         "Each refactoring leaves behaviour unchanged (demo digest identical with and without the patch); every check must exit 0 on it.",
         "Rounds: `Cnn-k` = round 1 (written before any reaction), `Cnn-r2-k` = round 2 (after pass 1), `Cnn-r3-k` = round 3 (after passes 2-3).", "",
         "| id | what is refactored | false alarms (exit 1) | refusals (exit 2) |", "|---|---|---|---|"]
nfa = nref = 0
for rid in sorted(res):
    try:
        meta = json.load(open(os.path.join(VERIF, "refactorings", rid, "meta.json")))
    except Exception:
        meta = {}
    summ = " ".join(str(meta.get("summary", "")).split())[:230]
    fa = sorted(p for p, v in res[rid].items() if v["exit"] == 1)
    rf = sorted(p for p, v in res[rid].items() if v["exit"] not in (0, 1))
    nfa += len(fa); nref += len(rf)
    lines.append("| %s | %s | %s | %s |" % (rid, summ.replace("|", "/"), ", ".join(fa) or "-", ", ".join(rf) or "-"))
lines += ["", "Total over %d refactorings x 20 checks: %d false alarms, %d refusals." % (len(res), nfa, nref)]
open(os.path.join(VERIF, "refactorings", "RESULTS.md"), "w").write("\n".join(lines) + "\n")
print(lines[-1])
