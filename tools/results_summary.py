#!/venv/bin/python
"""Print the numbers of DESIGN.md section 5.6 as markdown: per check (from /verif/evidence/Cnn.json) clauses,
obligations, self-test seeds; per mutation round (from /verif/seeded/*/meta.json `checks_now`, written by
tools/refresh_seeded_meta.py) how many patches are reported by their own property's check, by another
check only, refused, or by none."""
import glob, json, os, re
VERIF = os.path.dirname(os.path.dirname(os.path.abspath(__file__)))

print("| check | clauses | obligations (quick tier, all discharged) | self-test seeds (thorough tier) | anchors resolved | wall (quick) |")
print("|---|---|---|---|---|---|")
tot_o = tot_s = 0
for f in sorted(glob.glob(os.path.join(VERIF, "evidence", "C??.json"))):
    e = json.load(open(f))
    c = e.get("coverage", e)
    cl = c.get("clauses") or e.get("clauses") or []
    ncl = len(cl) if isinstance(cl, (list, dict)) else cl
    ob = e.get("obligations", c.get("obligations"))
    st = c.get("selftest") or e.get("selftest") or {}
    ns = st.get("seeds", st.get("total")) if isinstance(st, dict) else None
    if ns is None:
        try:
            src = open(os.path.join(VERIF, "coaplint", "rules", "c%s.py" % os.path.basename(f)[1:3])).read()
            ns = len(re.findall(r"^\s*R\.seed\(", src, flags=re.M))
        except OSError:
            ns = "?"
    an = c.get("anchors_resolved") or e.get("anchors_resolved") or []
    tot_o += ob or 0
    tot_s += ns if isinstance(ns, int) else 0
    print("| %s | %s | %s | %s | %s | %.1f s |" % (os.path.basename(f)[:3], ncl, ob, ns, len(an), e.get("wall_s", c.get("wall_s", 0)) or 0))
print("| all | | %d | %d | | |" % (tot_o, tot_s))
print()
import sys
# own-property verdicts: output of `tools/mut_quick.py` (all patches, own check only), given as argv[1]
rounds = {}
for l in open(sys.argv[1]) if len(sys.argv) > 1 else []:
    m = re.match(r"(C\d\d-\S+)\s+(ok|MISSED)\s+caught_by=(\[.*?\]) refused=(\[.*?\])", l)
    if not m:
        continue
    sid = m.group(1)
    r = int(re.search(r"-r(\d)-", sid).group(1)) if "-r" in sid else 1
    k = "own" if m.group(2) == "ok" else "refused" if sid.split("-")[0] in m.group(4) else "none"
    rounds.setdefault(r, {"own": [], "refused": [], "none": []})[k].append(sid)
print("| round | patches | reported (exit 1) by the check of their own property | refused (exit 2) by it | not reported by it |")
print("|---|---|---|---|---|")
for r in sorted(rounds):
    v = rounds[r]
    n = sum(len(x) for x in v.values())
    print("| %s | %d | %d | %s | %s |" % (r, n, len(v["own"]), ", ".join(v["refused"]) or "0", ", ".join(v["none"]) or "0"))
