#!/venv/bin/python
"""Fast detection run over /verif/seeded/*: copy /repo/aiocoap, apply the
property-breaking patch, run the quick check of the patch's own property (or
--props ...) against the copy.  Expected: exit 1 (VIOLATION).  Exit 0 = missed,
exit 2 = the machinery refused (analysis error) -- both count as not caught.
usage: mut_quick.py [--only C02 C03-r2-1 ...] [--props C02 ...|all] [--jobs N] [-v]"""
import json, os, shutil, subprocess, sys, tempfile
from concurrent.futures import ThreadPoolExecutor
VERIF = os.path.dirname(os.path.dirname(os.path.abspath(__file__)))
SRC = os.path.join(VERIF, "seeded")
PROPS = ["C%02d" % i for i in range(1, 21)]

def one(args):
    sid, props = args
    d = tempfile.mkdtemp(prefix="mq-%s-" % sid)
    try:
        shutil.copytree("/repo/aiocoap", os.path.join(d, "aiocoap"), ignore=shutil.ignore_patterns("__pycache__"))
        r = subprocess.run(["patch", "-p1", "-s", "-i", os.path.join(SRC, sid, "patch.diff")], cwd=d, capture_output=True, text=True)
        if r.returncode != 0:
            return sid, {"_patch": (3, [r.stdout[-300:]])}
        env = dict(os.environ, COAPLINT_REPO=d, COAPLINT_EVIDENCE_DIR=os.path.join(d, ".evidence"))
        res = {}
        for p in props:
            r = subprocess.run([os.path.join(VERIF, "check"), p], env=env, capture_output=True, text=True)
            res[p] = (r.returncode, [l[:300] for l in r.stdout.splitlines() if l.startswith(("  ", "ANALYSIS-ERROR"))][:6])
        return sid, res
    finally:
        shutil.rmtree(d, ignore_errors=True)

def main():
    a = sys.argv[1:]
    if any(x.startswith('-') and x not in ('--only','--props','--jobs','--out','-v') for x in a):
        sys.exit(__doc__ + '\n(unknown option)')
    only, props, jobs, verbose = [], [], 14, False
    cur = None
    i = 0
    while i < len(a):
        if a[i] == "--only": cur = only
        elif a[i] == "--props": cur = props
        elif a[i] == "--jobs": jobs = int(a[i+1]); i += 1; cur = None
        elif a[i] == "-v": verbose = True
        elif cur is not None: cur.append(a[i])
        i += 1
    sids = sorted(s for s in os.listdir(SRC) if os.path.isdir(os.path.join(SRC, s)) and (not only or s in only or s.split("-")[0] in only))
    todo = []
    for s in sids:
        own = s.split("-")[0]
        ps = PROPS if props == ["all"] else (props or [own])
        todo.append((s, ps))
    with ThreadPoolExecutor(max_workers=jobs) as ex:
        results = list(ex.map(one, todo))
    missed = 0
    for sid, res in results:
        own = sid.split("-")[0]
        caught = sorted(p for p, v in res.items() if v[0] == 1)
        refused = sorted(p for p, v in res.items() if v[0] not in (0, 1))
        ok = own in caught if own in res else bool(caught)
        if not ok: missed += 1
        print("%-10s %s caught_by=%s refused=%s" % (sid, "ok    " if ok else "MISSED", caught, refused))
        if verbose or not ok:
            for p, v in sorted(res.items()):
                for l in v[1][:3]:
                    print("      %s %s" % (p, l))
    print("not caught by the own property's check: %d of %d" % (missed, len(results)))

main()
