#!/venv/bin/python
"""Fast false-alarm run over /verif/refactorings/*: copy /repo/aiocoap, apply the
behaviour-preserving patch, run every quick check against the copy.  Any exit
status other than 0 is a false alarm (1) or a refusal (2) of the machinery.
usage: ref_quick.py [--only C02-1 ...] [--props C02 C03] [--jobs N] [--out FILE] [-v]"""
import json, os, shutil, subprocess, sys, tempfile
from concurrent.futures import ThreadPoolExecutor
VERIF = os.path.dirname(os.path.dirname(os.path.abspath(__file__)))
SRC = os.path.join(VERIF, "refactorings")
PROPS = ["C%02d" % i for i in range(1, 21)]

def one(args):
    rid, props = args
    d = tempfile.mkdtemp(prefix="rq-%s-" % rid)
    try:
        shutil.copytree("/repo/aiocoap", os.path.join(d, "aiocoap"), ignore=shutil.ignore_patterns("__pycache__"))
        r = subprocess.run(["patch", "-p1", "-s", "-i", os.path.join(SRC, rid, "patch.diff")], cwd=d, capture_output=True, text=True)
        if r.returncode != 0:
            return rid, {"_patch": {"exit": 3, "lines": [r.stdout[-300:]]}}
        env = dict(os.environ, COAPLINT_REPO=d, COAPLINT_EVIDENCE_DIR=os.path.join(d, ".evidence"))
        res = {}
        for p in props:
            r = subprocess.run([os.path.join(VERIF, "check"), p], env=env, capture_output=True, text=True)
            if r.returncode != 0:
                res[p] = {"exit": r.returncode, "lines": [l[:400] for l in r.stdout.splitlines() if l.startswith(("  ", "ANALYSIS-ERROR"))][:12]}
        return rid, res
    finally:
        shutil.rmtree(d, ignore_errors=True)

def main():
    a = sys.argv[1:]
    if any(x.startswith('-') and x not in ('--only','--props','--jobs','--out','-v') for x in a):
        sys.exit(__doc__ + '\n(unknown option)')
    only, props, jobs, out, verbose = [], [], 14, None, False
    i = 0
    cur = None
    while i < len(a):
        if a[i] == "--only": cur = only
        elif a[i] == "--props": cur = props
        elif a[i] == "--jobs": jobs = int(a[i+1]); i += 1; cur = None
        elif a[i] == "--out": out = a[i+1]; i += 1; cur = None
        elif a[i] == "-v": verbose = True
        elif cur is not None: cur.append(a[i])
        i += 1
    rids = sorted(r for r in os.listdir(SRC) if os.path.isdir(os.path.join(SRC, r)) and (not only or r in only or r.split("-")[0] in only))
    with ThreadPoolExecutor(max_workers=jobs) as ex:
        results = list(ex.map(one, [(r, props or PROPS) for r in rids]))
    nfa = nref = 0
    for rid, res in results:
        fa = sorted(p for p, v in res.items() if v["exit"] == 1)
        rf = sorted(p for p, v in res.items() if v["exit"] not in (0, 1))
        nfa += len(fa); nref += len(rf)
        print("%-7s false_alarms=%s refused=%s" % (rid, fa, rf))
        if verbose:
            for p, v in sorted(res.items()):
                for l in v["lines"]:
                    print("      %s %s" % (p, l))
    print("total false alarms: %d refusals: %d over %d refactorings" % (nfa, nref, len(results)))
    if out:
        json.dump(dict(results), open(out, "w"), indent=1)

main()
