#!/venv/bin/python
"""Evaluate independently written property-breaking patches.

For every <src>/<Cnn>/<k>/{patch.diff, demo.py|test_demo.py, meta.json}:
  1. scratch worktree of /repo HEAD: the demo must pass (exit 0) without the patch,
  2. apply the patch: the demo must fail (exit != 0),
  3. the baseline test suite must still have all stable passes (optional: --tests),
  4. run every quick check with COAPLINT_REPO pointing at the patched worktree and
     record which properties report a violation (exit 1) or an analysis error (exit 2).
The worktree is removed afterwards.  Results: JSON on stdout / --out FILE.

usage: eval_mutants.py [--src DIR] [--only C03/2 ...] [--tests] [--jobs N] [--out FILE]
"""

import json
import os
import subprocess
import sys
import tempfile
import xml.etree.ElementTree as ET
from concurrent.futures import ThreadPoolExecutor

VERIF = os.path.dirname(os.path.dirname(os.path.abspath(__file__)))
PY = "/venv/bin/python"
PROPS = ["C%02d" % i for i in range(1, 21)]


def sh(cmd, cwd=None, env=None, timeout=1800):
    try:
        r = subprocess.run(cmd, cwd=cwd, env=env, capture_output=True, text=True, timeout=timeout)
        return r.returncode, r.stdout + r.stderr
    except subprocess.TimeoutExpired as e:
        return 124, "timeout"


def stable_passes():
    with open("/root/.vp/BASELINE.json") as f:
        return json.load(f)["stable_pass"]


NETNS = ["unshare", "-n", "sh", "-c"]  # private network namespace: parallel runs do not collide on port 5683


def run_demo(wt, demo):
    env = dict(os.environ, PYTHONPATH=wt)
    if os.path.basename(demo).startswith("test_"):
        return sh(NETNS + ["ip link set lo up; exec %s -m pytest -q -p no:cacheprovider --timeout=120 %s" % (PY, demo)], cwd=wt, env=env, timeout=300)
    return sh(NETNS + ["ip link set lo up; exec %s %s" % (PY, demo)], cwd=wt, env=env, timeout=300)


def evaluate(args):
    src, pid, k, do_tests = args
    d = os.path.join(src, pid, k)
    res = {"id": "%s/%s" % (pid, k), "property": pid}
    patch = os.path.join(d, "patch.diff")
    demo = None
    for cand in ("demo.py", "test_demo.py"):
        if os.path.exists(os.path.join(d, cand)):
            demo = os.path.join(d, cand)
    if not os.path.exists(patch) or demo is None:
        res["status"] = "incomplete"
        return res
    try:
        with open(os.path.join(d, "meta.json")) as f:
            res["meta"] = json.load(f)
    except Exception:
        res["meta"] = {}
    wt = tempfile.mkdtemp(prefix="mv-%s-%s-" % (pid, k), dir="/tmp")
    os.rmdir(wt)
    rc, out = sh(["git", "-C", "/repo", "worktree", "add", "-q", "--detach", wt, "HEAD"])
    if rc != 0:
        res["status"] = "worktree failed: " + out[-200:]
        return res
    try:
        rc0, out0 = run_demo(wt, demo)
        res["demo_clean_exit"] = rc0
        rc, out = sh(["git", "-C", wt, "apply", patch])
        if rc != 0:
            res["status"] = "patch does not apply: " + out[-300:]
            return res
        rc1, out1 = run_demo(wt, demo)
        res["demo_patched_exit"] = rc1
        res["demo_patched_tail"] = out1[-400:]
        rcc, outc = sh([PY, "-m", "compileall", "-q", "aiocoap"], cwd=wt)
        res["compiles"] = rcc == 0
        if do_tests:
            junit = os.path.join(wt, "junit.xml")
            sh(NETNS + ["ip link set lo up; exec %s -m pytest -q -p no:cacheprovider --timeout=900 --continue-on-collection-errors --junitxml=%s" % (PY, junit)], cwd=wt, timeout=1500)
            passed = set()
            try:
                for tc in ET.parse(junit).iter("testcase"):
                    if not any(ch.tag in ("failure", "error", "skipped") for ch in tc):
                        passed.add(tc.get("classname") + "::" + tc.get("name"))
                res["tests_missing"] = [s for s in stable_passes() if s not in passed]
            except Exception as e:
                res["tests_missing"] = ["<no junit: %s>" % e]
        checks = {}
        env = dict(os.environ, COAPLINT_REPO=wt, COAPLINT_EVIDENCE_DIR=os.path.join(wt, ".evidence"))
        for p in PROPS:
            rc, out = sh([os.path.join(VERIF, "check"), p], env=env, timeout=300)
            lines = [l for l in out.splitlines() if l.startswith(("VIOLATION", "ANALYSIS-ERROR", "  "))]
            if rc != 0:
                checks[p] = {"exit": rc, "lines": [l[:300] for l in lines[:6]]}
        res["checks_nonzero"] = checks
        res["caught_by"] = sorted(p for p, v in checks.items() if v["exit"] == 1)
        res["analysis_error_in"] = sorted(p for p, v in checks.items() if v["exit"] == 2)
        valid = rc0 == 0 and rc1 != 0 and res["compiles"] and (not do_tests or not res.get("tests_missing"))
        res["status"] = "valid" if valid else "invalid"
    finally:
        sh(["git", "-C", "/repo", "worktree", "remove", "--force", wt])
    return res


def main():
    a = sys.argv[1:]
    src = "/tmp/mut/out"
    only = []
    do_tests = False
    jobs = 6
    out = None
    i = 0
    while i < len(a):
        if a[i] == "--src":
            src = a[i + 1]; i += 2
        elif a[i] == "--tests":
            do_tests = True; i += 1
        elif a[i] == "--jobs":
            jobs = int(a[i + 1]); i += 2
        elif a[i] == "--out":
            out = a[i + 1]; i += 2
        elif a[i] == "--only":
            i += 1
            while i < len(a) and not a[i].startswith("--"):
                only.append(a[i]); i += 1
        else:
            i += 1
    todo = []
    for pid in sorted(os.listdir(src)):
        if not os.path.isdir(os.path.join(src, pid)) or not pid.startswith("C"):
            continue
        for k in sorted(os.listdir(os.path.join(src, pid))):
            if only and "%s/%s" % (pid, k) not in only and pid not in only:
                continue
            if os.path.isdir(os.path.join(src, pid, k)):
                todo.append((src, pid, k, do_tests))
    with ThreadPoolExecutor(max_workers=jobs) as ex:
        results = list(ex.map(evaluate, todo))
    for r in results:
        print("%-8s %-8s demo clean=%s patched=%s tests_missing=%s caught_by=%s errors_in=%s" % (
            r["id"], r.get("status"), r.get("demo_clean_exit"), r.get("demo_patched_exit"), r.get("tests_missing"), r.get("caught_by"), r.get("analysis_error_in")))
    if out:
        with open(out, "w") as f:
            json.dump(results, f, indent=1)


if __name__ == "__main__":
    main()
