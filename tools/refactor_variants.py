#!/venv/bin/python
"""False-alarm harness: produce behaviour-preserving variants of /repo/aiocoap
(reformatting through ast.unparse, renaming of function-local variables,
flipping comparison operands, swapping if/else arms with a negated test,
`x += k` -> `x = x + k`) in a scratch directory and run the quick checks on
them.  Every check must give the same verdict as on the original tree.

usage: refactor_variants.py [--src DIR] [--keep] [C01 C02 ...]
"""

import ast
import os
import shutil
import subprocess
import sys
import tempfile

VERIF = os.path.dirname(os.path.dirname(os.path.abspath(__file__)))


class RenameLocals(ast.NodeTransformer):
    """Rename locals (not parameters, not names declared global/nonlocal, not
    names captured by nested functions) to <name>_rv."""

    def _locals(self, fn):
        params = {a.arg for a in fn.args.posonlyargs + fn.args.args + fn.args.kwonlyargs}
        if fn.args.vararg:
            params.add(fn.args.vararg.arg)
        if fn.args.kwarg:
            params.add(fn.args.kwarg.arg)
        assigned = set()
        banned = set(params)
        nested_used = set()

        def walk(n, top):
            for c in ast.iter_child_nodes(n):
                if isinstance(c, (ast.FunctionDef, ast.AsyncFunctionDef, ast.Lambda, ast.ClassDef)):
                    if hasattr(c, "name"):
                        banned.add(c.name)
                    for x in ast.walk(c):
                        if isinstance(x, ast.Name):
                            nested_used.add(x.id)
                    continue
                if isinstance(c, (ast.ListComp, ast.SetComp, ast.DictComp, ast.GeneratorExp)):
                    for x in ast.walk(c):
                        if isinstance(x, ast.Name):
                            nested_used.add(x.id)
                    continue
                if isinstance(c, (ast.Global, ast.Nonlocal)):
                    banned.update(c.names)
                if isinstance(c, ast.Name) and isinstance(c.ctx, ast.Store):
                    assigned.add(c.id)
                if isinstance(c, ast.ExceptHandler) and c.name:
                    banned.add(c.name)
                if isinstance(c, (ast.Import, ast.ImportFrom)):
                    for a in c.names:
                        banned.add((a.asname or a.name).split(".")[0])
                if isinstance(c, ast.MatchAs) and c.name:
                    banned.add(c.name)
                walk(c, False)

        walk(fn, True)
        return {n for n in assigned if n not in banned and n not in nested_used and not n.startswith("__")}

    def visit_FunctionDef(self, node):
        names = self._locals(node)

        class R(ast.NodeTransformer):
            def visit_Name(s, n):
                if n.id in names:
                    return ast.copy_location(ast.Name(id=n.id + "_rv", ctx=n.ctx), n)
                return n

            def visit_FunctionDef(s, n):
                return n

            visit_AsyncFunctionDef = visit_FunctionDef
            visit_Lambda = visit_FunctionDef
            visit_ClassDef = visit_FunctionDef
            visit_ListComp = visit_FunctionDef
            visit_SetComp = visit_FunctionDef
            visit_DictComp = visit_FunctionDef
            visit_GeneratorExp = visit_FunctionDef

        node.body = [R().visit(st) for st in node.body]
        # nested functions handled independently
        for st in ast.walk(node):
            pass
        self.generic_visit(node)
        return node

    visit_AsyncFunctionDef = visit_FunctionDef


class FlipCompare(ast.NodeTransformer):
    FLIP = {ast.Lt: ast.Gt, ast.Gt: ast.Lt, ast.LtE: ast.GtE, ast.GtE: ast.LtE, ast.Eq: ast.Eq, ast.NotEq: ast.NotEq}

    def visit_Compare(self, node):
        self.generic_visit(node)
        if len(node.ops) == 1 and type(node.ops[0]) in self.FLIP and not isinstance(node.comparators[0], ast.Constant):
            # only pure operands (names, attributes, constants, len() calls)
            def pure(e):
                return all(isinstance(x, (ast.Name, ast.Attribute, ast.Constant, ast.Load, ast.BinOp, ast.operator, ast.UnaryOp, ast.unaryop)) or (isinstance(x, ast.Call) and isinstance(x.func, ast.Name) and x.func.id == "len") for x in ast.walk(e))
            if pure(node.left) and pure(node.comparators[0]):
                return ast.copy_location(ast.Compare(left=node.comparators[0], ops=[self.FLIP[type(node.ops[0])]()], comparators=[node.left]), node)
        return node


class SwapIfElse(ast.NodeTransformer):
    def visit_If(self, node):
        self.generic_visit(node)
        if node.orelse and not (len(node.orelse) == 1 and isinstance(node.orelse[0], ast.If)):
            test = node.test
            if isinstance(test, ast.UnaryOp) and isinstance(test.op, ast.Not):
                nt = test.operand
            else:
                nt = ast.UnaryOp(op=ast.Not(), operand=test)
            return ast.copy_location(ast.If(test=nt, body=node.orelse, orelse=node.body), node)
        return node


class ExpandAug(ast.NodeTransformer):
    def visit_AugAssign(self, node):
        if isinstance(node.target, ast.Name) and isinstance(node.op, (ast.Add, ast.Mult, ast.Sub)):
            return ast.copy_location(ast.Assign(targets=[ast.Name(id=node.target.id, ctx=ast.Store())], value=ast.BinOp(left=ast.Name(id=node.target.id, ctx=ast.Load()), op=node.op, right=node.value)), node)
        return node


class AddLogging(ast.NodeTransformer):
    """Insert a harmless logging statement at the start of every method that has self.log available (heuristic: uses self.log already)."""

    def visit_FunctionDef(self, node):
        self.generic_visit(node)
        uses = any(isinstance(n, ast.Attribute) and n.attr == "log" and isinstance(n.value, ast.Name) and n.value.id == "self" for n in ast.walk(node))
        if uses and node.args.args and node.args.args[0].arg == "self":
            stmt = ast.parse("self.log.debug('entering %s')" % node.name).body[0]
            i = 1 if (node.body and isinstance(node.body[0], ast.Expr) and isinstance(node.body[0].value, ast.Constant)) else 0
            node.body.insert(i, stmt)
        return node

    visit_AsyncFunctionDef = visit_FunctionDef


class StripLogging(ast.NodeTransformer):
    """Remove every `self.log.<level>(...)` / `log.<level>(...)` expression statement."""

    def visit_Expr(self, node):
        v = node.value
        if isinstance(v, ast.Call) and isinstance(v.func, ast.Attribute) and v.func.attr in ("debug", "info", "warning", "error") and isinstance(v.func.value, (ast.Attribute, ast.Name)):
            base = v.func.value
            name = base.attr if isinstance(base, ast.Attribute) else base.id
            if name in ("log", "_log", "logger", "_alglog") or name.endswith("_log") or name.endswith("__log"):
                return ast.copy_location(ast.Pass(), node)
        return node


class ChainCompare(ast.NodeTransformer):
    """`x >= A and x < B`  ->  `A <= x < B` for a Name x."""

    def visit_BoolOp(self, node):
        self.generic_visit(node)
        if isinstance(node.op, ast.And) and len(node.values) == 2:
            a, b = node.values
            if all(isinstance(c, ast.Compare) and len(c.ops) == 1 and isinstance(c.left, ast.Name) for c in (a, b)) and a.left.id == b.left.id:
                if isinstance(a.ops[0], (ast.GtE, ast.Gt)) and isinstance(b.ops[0], (ast.Lt, ast.LtE)) and all(isinstance(c.comparators[0], ast.Constant) for c in (a, b)):
                    lo = ast.LtE() if isinstance(a.ops[0], ast.GtE) else ast.Lt()
                    return ast.copy_location(ast.Compare(left=a.comparators[0], ops=[lo, b.ops[0]], comparators=[a.left, b.comparators[0]]), node)
        return node


class DeMorgan(ast.NodeTransformer):
    """`not (a and b)` -> `not a or not b`; `not (a or b)` -> `not a and not b`."""

    def visit_UnaryOp(self, node):
        self.generic_visit(node)
        if isinstance(node.op, ast.Not) and isinstance(node.operand, ast.BoolOp):
            op = ast.Or() if isinstance(node.operand.op, ast.And) else ast.And()
            return ast.copy_location(ast.BoolOp(op=op, values=[ast.UnaryOp(op=ast.Not(), operand=v) for v in node.operand.values]), node)
        return node


VARIANTS = {
    "unparse": [],
    "rename-locals": [RenameLocals],
    "flip-compare": [FlipCompare],
    "swap-if-else": [SwapIfElse],
    "expand-augassign": [ExpandAug],
    "add-logging": [AddLogging],
    "strip-logging": [StripLogging],
    "chain-compare": [ChainCompare],
    "de-morgan": [DeMorgan],
    "all": [RenameLocals, FlipCompare, SwapIfElse, ExpandAug, AddLogging, ChainCompare, DeMorgan],
}


def make_variant(src, dst, transformers):
    for dirpath, dirnames, filenames in os.walk(os.path.join(src, "aiocoap")):
        dirnames[:] = [d for d in dirnames if d != "__pycache__"]
        rel = os.path.relpath(dirpath, src)
        os.makedirs(os.path.join(dst, rel), exist_ok=True)
        for fn in filenames:
            if not fn.endswith(".py"):
                continue
            with open(os.path.join(dirpath, fn), encoding="utf-8") as f:
                text = f.read()
            tree = ast.parse(text)
            for t in transformers:
                tree = t().visit(tree)
            ast.fix_missing_locations(tree)
            out = ast.unparse(tree)
            compile(out, fn, "exec")
            with open(os.path.join(dst, rel, fn), "w", encoding="utf-8") as f:
                f.write(out + "\n")


def main():
    args = sys.argv[1:]
    src = "/repo"
    keep = False
    if "--src" in args:
        i = args.index("--src")
        src = args[i + 1]
        del args[i:i + 2]
    if "--keep" in args:
        keep = True
        args.remove("--keep")
    only = None
    if "--variant" in args:
        i = args.index("--variant")
        only = args[i + 1]
        del args[i:i + 2]
    props = args or ["C%02d" % i for i in range(1, 21) if os.path.exists(os.path.join(VERIF, "coaplint/rules/c%02d.py" % i))]
    base = {}
    env = dict(os.environ, COAPLINT_REPO=src)
    for p in props:
        r = subprocess.run([os.path.join(VERIF, "check"), p], capture_output=True, text=True, env=env)
        base[p] = (r.returncode, sorted(l for l in r.stdout.splitlines() if l.startswith("VIOLATION")))
    bad = 0
    for name, ts in VARIANTS.items():
        if only and name != only:
            continue
        d = tempfile.mkdtemp(prefix="coaplint-variant-")
        try:
            make_variant(src, d, ts)
            env = dict(os.environ, COAPLINT_REPO=d)
            for p in props:
                r = subprocess.run([os.path.join(VERIF, "check"), p], capture_output=True, text=True, env=env)
                same = r.returncode == base[p][0]
                if not same:
                    bad += 1
                    print("DIFF variant=%s property=%s exit %d (original %d)" % (name, p, r.returncode, base[p][0]))
                    for l in r.stdout.splitlines():
                        if "conda" not in l:
                            print("    " + l[:400])
                else:
                    print("same variant=%s property=%s exit %d" % (name, p, r.returncode))
            if keep:
                print("kept", d)
        finally:
            if not keep:
                shutil.rmtree(d, ignore_errors=True)
    print("differences: %d" % bad)
    return 1 if bad else 0


if __name__ == "__main__":
    sys.exit(main())
