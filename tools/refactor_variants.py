#!/venv/bin/python
"""False-alarm harness: produce behaviour-preserving variants of /repo/aiocoap
(reformatting through ast.unparse, renaming of function-local variables,
flipping comparison operands, swapping if/else arms with a negated test,
`x += k` -> `x = x + k`) in a scratch directory and run the quick checks on
them.  Every check must give the same verdict as on the original tree.

usage: refactor_variants.py [--src DIR] [--keep] [C01 C02 ...]
"""

import ast
import os
import shutil
import subprocess
import sys
import tempfile

VERIF = os.path.dirname(os.path.dirname(os.path.abspath(__file__)))


class RenameLocals(ast.NodeTransformer):
    """Rename locals (not parameters, not names declared global/nonlocal, not
    names captured by nested functions) to <name>_rv."""

    def _locals(self, fn):
        params = {a.arg for a in fn.args.posonlyargs + fn.args.args + fn.args.kwonlyargs}
        if fn.args.vararg:
            params.add(fn.args.vararg.arg)
        if fn.args.kwarg:
            params.add(fn.args.kwarg.arg)
        assigned = set()
        banned = set(params)
        nested_used = set()

        def walk(n, top):
            for c in ast.iter_child_nodes(n):
                if isinstance(c, (ast.FunctionDef, ast.AsyncFunctionDef, ast.Lambda, ast.ClassDef)):
                    if hasattr(c, "name"):
                        banned.add(c.name)
                    for x in ast.walk(c):
                        if isinstance(x, ast.Name):
                            nested_used.add(x.id)
                    continue
                if isinstance(c, (ast.ListComp, ast.SetComp, ast.DictComp, ast.GeneratorExp)):
                    for x in ast.walk(c):
                        if isinstance(x, ast.Name):
                            nested_used.add(x.id)
                    continue
                if isinstance(c, (ast.Global, ast.Nonlocal)):
                    banned.update(c.names)
                if isinstance(c, ast.Name) and isinstance(c.ctx, ast.Store):
                    assigned.add(c.id)
                if isinstance(c, ast.ExceptHandler) and c.name:
                    banned.add(c.name)
                if isinstance(c, (ast.Import, ast.ImportFrom)):
                    for a in c.names:
                        banned.add((a.asname or a.name).split(".")[0])
                if isinstance(c, ast.MatchAs) and c.name:
                    banned.add(c.name)
                walk(c, False)

        walk(fn, True)
        return {n for n in assigned if n not in banned and n not in nested_used and not n.startswith("__")}

    def visit_FunctionDef(self, node):
        names = self._locals(node)

        class R(ast.NodeTransformer):
            def visit_Name(s, n):
                if n.id in names:
                    return ast.copy_location(ast.Name(id=n.id + "_rv", ctx=n.ctx), n)
                return n

            def visit_FunctionDef(s, n):
                return n

            visit_AsyncFunctionDef = visit_FunctionDef
            visit_Lambda = visit_FunctionDef
            visit_ClassDef = visit_FunctionDef
            visit_ListComp = visit_FunctionDef
            visit_SetComp = visit_FunctionDef
            visit_DictComp = visit_FunctionDef
            visit_GeneratorExp = visit_FunctionDef

        node.body = [R().visit(st) for st in node.body]
        # nested functions handled independently
        for st in ast.walk(node):
            pass
        self.generic_visit(node)
        return node

    visit_AsyncFunctionDef = visit_FunctionDef


class FlipCompare(ast.NodeTransformer):
    FLIP = {ast.Lt: ast.Gt, ast.Gt: ast.Lt, ast.LtE: ast.GtE, ast.GtE: ast.LtE, ast.Eq: ast.Eq, ast.NotEq: ast.NotEq}

    def visit_Compare(self, node):
        self.generic_visit(node)
        if len(node.ops) == 1 and type(node.ops[0]) in self.FLIP and not isinstance(node.comparators[0], ast.Constant):
            # only pure operands (names, attributes, constants, len() calls)
            def pure(e):
                return all(isinstance(x, (ast.Name, ast.Attribute, ast.Constant, ast.Load, ast.BinOp, ast.operator, ast.UnaryOp, ast.unaryop)) or (isinstance(x, ast.Call) and isinstance(x.func, ast.Name) and x.func.id == "len") for x in ast.walk(e))
            if pure(node.left) and pure(node.comparators[0]):
                return ast.copy_location(ast.Compare(left=node.comparators[0], ops=[self.FLIP[type(node.ops[0])]()], comparators=[node.left]), node)
        return node


class SwapIfElse(ast.NodeTransformer):
    def visit_If(self, node):
        self.generic_visit(node)
        if node.orelse and not (len(node.orelse) == 1 and isinstance(node.orelse[0], ast.If)):
            test = node.test
            if isinstance(test, ast.UnaryOp) and isinstance(test.op, ast.Not):
                nt = test.operand
            else:
                nt = ast.UnaryOp(op=ast.Not(), operand=test)
            return ast.copy_location(ast.If(test=nt, body=node.orelse, orelse=node.body), node)
        return node


class ExpandAug(ast.NodeTransformer):
    def visit_AugAssign(self, node):
        if isinstance(node.target, ast.Name) and isinstance(node.op, (ast.Add, ast.Mult, ast.Sub)):
            return ast.copy_location(ast.Assign(targets=[ast.Name(id=node.target.id, ctx=ast.Store())], value=ast.BinOp(left=ast.Name(id=node.target.id, ctx=ast.Load()), op=node.op, right=node.value)), node)
        return node


class AddLogging(ast.NodeTransformer):
    """Insert a harmless logging statement at the start of every method that has self.log available (heuristic: uses self.log already)."""

    def visit_FunctionDef(self, node):
        self.generic_visit(node)
        uses = any(isinstance(n, ast.Attribute) and n.attr == "log" and isinstance(n.value, ast.Name) and n.value.id == "self" for n in ast.walk(node))
        if uses and node.args.args and node.args.args[0].arg == "self":
            stmt = ast.parse("self.log.debug('entering %s')" % node.name).body[0]
            i = 1 if (node.body and isinstance(node.body[0], ast.Expr) and isinstance(node.body[0].value, ast.Constant)) else 0
            node.body.insert(i, stmt)
        return node

    visit_AsyncFunctionDef = visit_FunctionDef


class StripLogging(ast.NodeTransformer):
    """Remove every `self.log.<level>(...)` / `log.<level>(...)` expression statement."""

    def visit_Expr(self, node):
        v = node.value
        if isinstance(v, ast.Call) and isinstance(v.func, ast.Attribute) and v.func.attr in ("debug", "info", "warning", "error") and isinstance(v.func.value, (ast.Attribute, ast.Name)):
            base = v.func.value
            name = base.attr if isinstance(base, ast.Attribute) else base.id
            if name in ("log", "_log", "logger", "_alglog") or name.endswith("_log") or name.endswith("__log"):
                return ast.copy_location(ast.Pass(), node)
        return node


class ChainCompare(ast.NodeTransformer):
    """`x >= A and x < B`  ->  `A <= x < B` for a Name x."""

    def visit_BoolOp(self, node):
        self.generic_visit(node)
        if isinstance(node.op, ast.And) and len(node.values) == 2:
            a, b = node.values
            if all(isinstance(c, ast.Compare) and len(c.ops) == 1 and isinstance(c.left, ast.Name) for c in (a, b)) and a.left.id == b.left.id:
                if isinstance(a.ops[0], (ast.GtE, ast.Gt)) and isinstance(b.ops[0], (ast.Lt, ast.LtE)) and all(isinstance(c.comparators[0], ast.Constant) for c in (a, b)):
                    lo = ast.LtE() if isinstance(a.ops[0], ast.GtE) else ast.Lt()
                    return ast.copy_location(ast.Compare(left=a.comparators[0], ops=[lo, b.ops[0]], comparators=[a.left, b.comparators[0]]), node)
        return node


class DeMorgan(ast.NodeTransformer):
    """`not (a and b)` -> `not a or not b`; `not (a or b)` -> `not a and not b`."""

    def visit_UnaryOp(self, node):
        self.generic_visit(node)
        if isinstance(node.op, ast.Not) and isinstance(node.operand, ast.BoolOp):
            op = ast.Or() if isinstance(node.operand.op, ast.And) else ast.And()
            return ast.copy_location(ast.BoolOp(op=op, values=[ast.UnaryOp(op=ast.Not(), operand=v) for v in node.operand.values]), node)
        return node


class InToOr(ast.NodeTransformer):
    """`x in (A, B)` -> `x == A or x == B`;  `x not in (A, B)` -> `x != A and x != B`
    (pure Name/Attribute subject, tuple of Names/Attributes/Constants)."""

    def visit_Compare(self, node):
        self.generic_visit(node)
        if len(node.ops) == 1 and isinstance(node.ops[0], (ast.In, ast.NotIn)) and isinstance(node.comparators[0], ast.Tuple):
            elts = node.comparators[0].elts
            subj = node.left
            def pure(e):
                return all(isinstance(x, (ast.Name, ast.Attribute, ast.Load)) for x in ast.walk(e))
            if 2 <= len(elts) <= 4 and pure(subj) and all(isinstance(e, (ast.Name, ast.Attribute)) and pure(e) for e in elts):
                pos = isinstance(node.ops[0], ast.In)
                parts = [ast.Compare(left=subj, ops=[ast.Eq() if pos else ast.NotEq()], comparators=[e]) for e in elts]
                return ast.copy_location(ast.BoolOp(op=ast.Or() if pos else ast.And(), values=parts), node)
        return node


class PopToDel(ast.NodeTransformer):
    """statement `d.pop(k)` (result unused, no default) -> `del d[k]`"""

    def visit_Expr(self, node):
        v = node.value
        if isinstance(v, ast.Call) and isinstance(v.func, ast.Attribute) and v.func.attr == "pop" and len(v.args) == 1 and not v.keywords:
            recv = v.func.value
            # only receivers that are attributes of self (dict-like state tables); lists use pop(index) too, which `del` also covers
            if isinstance(recv, ast.Attribute) and isinstance(recv.value, ast.Name) and recv.value.id == "self" and not isinstance(v.args[0], ast.Constant):
                return ast.copy_location(ast.Delete(targets=[ast.Subscript(value=recv, slice=v.args[0], ctx=ast.Del())]), node)
        return node


class DelToPop(ast.NodeTransformer):
    """`del self.d[k]` -> `self.d.pop(k)`"""

    def visit_Delete(self, node):
        if len(node.targets) == 1 and isinstance(node.targets[0], ast.Subscript):
            t = node.targets[0]
            if isinstance(t.value, ast.Attribute) and isinstance(t.value.value, ast.Name) and t.value.value.id == "self" and not isinstance(t.slice, (ast.Slice, ast.Constant)):
                call = ast.Call(func=ast.Attribute(value=t.value, attr="pop", ctx=ast.Load()), args=[t.slice], keywords=[])
                return ast.copy_location(ast.Expr(value=call), node)
        return node


class GuardClause(ast.NodeTransformer):
    """A function whose last statement is `if c: A else: B` (A, B not ending the same way) becomes
    `if not c: B; return` + A  -- only in functions that return nothing."""

    def visit_FunctionDef(self, node):
        self.generic_visit(node)
        if not node.body or not isinstance(node.body[-1], ast.If):
            return node
        if any(isinstance(n, ast.Return) and n.value is not None for n in ast.walk(node)) or any(isinstance(n, (ast.Yield, ast.YieldFrom)) for n in ast.walk(node)):
            return node
        last = node.body[-1]
        if not last.orelse or (len(last.orelse) == 1 and isinstance(last.orelse[0], ast.If)):
            return node
        test = last.test
        nt = test.operand if isinstance(test, ast.UnaryOp) and isinstance(test.op, ast.Not) else ast.UnaryOp(op=ast.Not(), operand=test)
        guard = ast.If(test=nt, body=list(last.orelse) + [ast.Return(value=None)], orelse=[])
        node.body = node.body[:-1] + [ast.copy_location(guard, last)] + list(last.body)
        return node

    visit_AsyncFunctionDef = visit_FunctionDef


class HoistAttr(ast.NodeTransformer):
    """Introduce a temporary for an attribute chain `p.a[.b]` on a parameter p that is read at least
    twice and never stored to (nor is p re-bound) in the function: `a_of_p = p.a` at the top."""

    def visit_FunctionDef(self, node):
        self.generic_visit(node)
        params = [a.arg for a in node.args.args if a.arg not in ("self", "cls")]
        if not params:
            return node
        own = []
        todo = list(node.body)
        while todo:
            n = todo.pop()
            own.append(n)
            if isinstance(n, (ast.FunctionDef, ast.AsyncFunctionDef, ast.Lambda, ast.ClassDef, ast.ListComp, ast.SetComp, ast.DictComp, ast.GeneratorExp)):
                continue
            todo.extend(ast.iter_child_nodes(n))
        nested_names = set()
        for n in ast.walk(node):
            if isinstance(n, (ast.Lambda, ast.ListComp, ast.SetComp, ast.DictComp, ast.GeneratorExp)) or (isinstance(n, (ast.FunctionDef, ast.AsyncFunctionDef)) and n is not node):
                for x in ast.walk(n):
                    if isinstance(x, ast.Name):
                        nested_names.add(x.id)
        stored = {n.id for n in own if isinstance(n, ast.Name) and isinstance(n.ctx, (ast.Store, ast.Del))}
        stored_attr = {ast.unparse(n) for n in own if isinstance(n, ast.Attribute) and isinstance(n.ctx, (ast.Store, ast.Del))}
        has_await = any(isinstance(n, (ast.Await, ast.Yield, ast.YieldFrom)) for n in own)
        if has_await:
            return node
        counts = {}
        for n in own:
            if isinstance(n, ast.Attribute) and isinstance(n.ctx, ast.Load) and isinstance(n.value, ast.Name) and n.value.id in params:
                counts[ast.unparse(n)] = counts.get(ast.unparse(n), 0) + 1
        used = {n.id for n in ast.walk(node) if isinstance(n, ast.Name)}
        pre = []
        for chain_, c in sorted(counts.items()):
            p, a = chain_.split(".")
            if c < 2 or p in stored or p in nested_names or any(s == chain_ or s.startswith(chain_ + ".") for s in stored_attr):
                continue
            if a in ("mtype", "mid", "remote", "token", "payload", "opt"):  # fields the library assigns on the object elsewhere while the function runs
                continue
            tmp = "%s_of_%s" % (a.strip("_"), p)
            if tmp in used:
                continue

            class R(ast.NodeTransformer):
                def visit_Attribute(s, n):
                    if isinstance(n.ctx, ast.Load) and isinstance(n.value, ast.Name) and n.value.id == p and n.attr == a:
                        return ast.copy_location(ast.Name(id=tmp, ctx=ast.Load()), n)
                    return s.generic_visit(n)

                def visit_Lambda(s, n):
                    return n

                visit_FunctionDef = visit_Lambda
                visit_AsyncFunctionDef = visit_Lambda
                visit_ListComp = visit_Lambda
                visit_SetComp = visit_Lambda
                visit_DictComp = visit_Lambda
                visit_GeneratorExp = visit_Lambda

            node.body = [R().visit(st) for st in node.body]
            pre.append(ast.Assign(targets=[ast.Name(id=tmp, ctx=ast.Store())], value=ast.Attribute(value=ast.Name(id=p, ctx=ast.Load()), attr=a, ctx=ast.Load())))
        if pre:
            i = 1 if (node.body and isinstance(node.body[0], ast.Expr) and isinstance(node.body[0].value, ast.Constant)) else 0
            node.body[i:i] = pre
        return node

    visit_AsyncFunctionDef = visit_FunctionDef


class ExtractHelper(ast.NodeTransformer):
    """Extract the arm of an `if` (>= 2 statements, no return/break/continue/await/yield, assigning no
    local that is read afterwards) of a method into a new private method taking the locals it reads."""

    counter = 0  # package-wide, so that helper names are unique

    def visit_ClassDef(self, cls):
        self.generic_visit(cls)
        new_methods = []
        for fn in list(cls.body):
            if not isinstance(fn, ast.FunctionDef) or not fn.args.args or fn.args.args[0].arg != "self" or fn.decorator_list:
                continue
            if any(isinstance(n, (ast.Yield, ast.YieldFrom, ast.Nonlocal, ast.Global)) for n in ast.walk(fn)):
                continue
            local_names = {a.arg for a in fn.args.args + fn.args.kwonlyargs}
            if fn.args.vararg: local_names.add(fn.args.vararg.arg)
            if fn.args.kwarg: local_names.add(fn.args.kwarg.arg)
            for n in ast.walk(fn):
                if isinstance(n, ast.Name) and isinstance(n.ctx, ast.Store):
                    local_names.add(n.id)
                elif isinstance(n, ast.ExceptHandler) and n.name:
                    local_names.add(n.name)
            done = False
            for ifst in [n for n in ast.walk(fn) if isinstance(n, ast.If)]:
                if done:
                    break
                for arm_name in ("body", "orelse"):
                    arm = getattr(ifst, arm_name)
                    if len(arm) < 2 or (arm_name == "orelse" and len(arm) == 1):
                        continue
                    bad = False
                    stored = set()
                    loaded = []
                    for st in arm:
                        for n in ast.walk(st):
                            if isinstance(n, (ast.Return, ast.Break, ast.Continue, ast.Await, ast.Yield, ast.YieldFrom, ast.FunctionDef, ast.AsyncFunctionDef, ast.Lambda, ast.Try, ast.With, ast.Raise, ast.ListComp, ast.GeneratorExp, ast.SetComp, ast.DictComp)):
                                bad = True
                            if isinstance(n, ast.Name):
                                if isinstance(n.ctx, ast.Store):
                                    stored.add(n.id)
                                else:
                                    loaded.append(n.id)
                    if bad:
                        continue
                    # locals stored in the arm must not be used outside it
                    arm_ids = {id(n) for st in arm for n in ast.walk(st)}
                    used_outside = {n.id for n in ast.walk(fn) if isinstance(n, ast.Name) and id(n) not in arm_ids}
                    if stored & used_outside:
                        continue
                    # reads of a name stored in the arm before its store would need it as parameter: keep simple
                    ps = []
                    for nme in loaded:
                        if nme in local_names and nme != "self" and nme not in stored and nme not in ps:
                            ps.append(nme)
                    ExtractHelper.counter += 1
                    hname = "_rv_helper_%d" % ExtractHelper.counter
                    helper = ast.FunctionDef(name=hname, args=ast.arguments(posonlyargs=[], args=[ast.arg(arg="self")] + [ast.arg(arg=x) for x in ps], kwonlyargs=[], kw_defaults=[], defaults=[]), body=list(arm), decorator_list=[], type_params=[])
                    call = ast.Expr(value=ast.Call(func=ast.Attribute(value=ast.Name(id="self", ctx=ast.Load()), attr=hname, ctx=ast.Load()), args=[ast.Name(id=x, ctx=ast.Load()) for x in ps], keywords=[]))
                    setattr(ifst, arm_name, [ast.copy_location(call, arm[0])])
                    new_methods.append(ast.copy_location(helper, fn))
                    done = True
                    break
        cls.body.extend(new_methods)
        return cls


class NameConditions(ast.NodeTransformer):
    """`if <pure comparison / boolean expression>:` -> `cond_N = <expr>` + `if cond_N:` (not for elif arms,
    not inside loops' own tests)."""

    counter = 0

    @staticmethod
    def _pure(e):
        for x in ast.walk(e):
            if isinstance(x, (ast.Name, ast.Attribute, ast.Constant, ast.Compare, ast.BoolOp, ast.UnaryOp, ast.Tuple, ast.Load, ast.boolop, ast.cmpop, ast.unaryop)):
                if isinstance(x, ast.Compare) and any(isinstance(o, (ast.In, ast.NotIn)) for o in x.ops) and not all(isinstance(c, ast.Tuple) for c in x.comparators):
                    return False
                continue
            return False
        return isinstance(e, (ast.Compare, ast.BoolOp))

    def _block(self, body):
        out = []
        for st in body:
            if isinstance(st, ast.If) and self._pure(st.test):
                NameConditions.counter += 1
                nm = "cond_%d" % NameConditions.counter
                out.append(ast.copy_location(ast.Assign(targets=[ast.Name(id=nm, ctx=ast.Store())], value=st.test), st))
                st.test = ast.copy_location(ast.Name(id=nm, ctx=ast.Load()), st.test)
            out.append(st)
        return out

    def generic_visit(self, node):
        super().generic_visit(node)
        for field in ("body", "orelse", "finalbody"):
            lst = getattr(node, field, None)
            if isinstance(lst, list) and lst and isinstance(lst[0], ast.stmt):
                if field == "orelse" and isinstance(node, ast.If) and len(lst) == 1 and isinstance(lst[0], ast.If):
                    continue  # elif
                if isinstance(node, (ast.Module, ast.ClassDef)):
                    continue
                setattr(node, field, self._block(lst))
        return node


VARIANTS = {
    "unparse": [],
    "rename-locals": [RenameLocals],
    "flip-compare": [FlipCompare],
    "swap-if-else": [SwapIfElse],
    "expand-augassign": [ExpandAug],
    "add-logging": [AddLogging],
    "strip-logging": [StripLogging],
    "chain-compare": [ChainCompare],
    "de-morgan": [DeMorgan],
    "in-to-or": [InToOr],
    "pop-to-del": [PopToDel],
    "del-to-pop": [DelToPop],
    "guard-clause": [GuardClause],
    "hoist-attr": [HoistAttr],
    "extract-helper": [ExtractHelper],
    "name-conditions": [NameConditions],
    "all": [RenameLocals, FlipCompare, SwapIfElse, ExpandAug, AddLogging, ChainCompare, DeMorgan],
}


def make_variant(src, dst, transformers):
    for dirpath, dirnames, filenames in os.walk(os.path.join(src, "aiocoap")):
        dirnames[:] = [d for d in dirnames if d != "__pycache__"]
        rel = os.path.relpath(dirpath, src)
        os.makedirs(os.path.join(dst, rel), exist_ok=True)
        for fn in filenames:
            if not fn.endswith(".py"):
                continue
            with open(os.path.join(dirpath, fn), encoding="utf-8") as f:
                text = f.read()
            tree = ast.parse(text)
            for t in transformers:
                tree = t().visit(tree)
            ast.fix_missing_locations(tree)
            out = ast.unparse(tree)
            compile(out, fn, "exec")
            with open(os.path.join(dst, rel, fn), "w", encoding="utf-8") as f:
                f.write(out + "\n")


def main():
    args = sys.argv[1:]
    src = "/repo"
    keep = False
    if "--src" in args:
        i = args.index("--src")
        src = args[i + 1]
        del args[i:i + 2]
    if "--keep" in args:
        keep = True
        args.remove("--keep")
    only = None
    if "--variant" in args:
        i = args.index("--variant")
        only = args[i + 1]
        del args[i:i + 2]
    props = args or ["C%02d" % i for i in range(1, 21) if os.path.exists(os.path.join(VERIF, "coaplint/rules/c%02d.py" % i))]
    base = {}
    env = dict(os.environ, COAPLINT_REPO=src)
    for p in props:
        r = subprocess.run([os.path.join(VERIF, "check"), p], capture_output=True, text=True, env=env)
        base[p] = (r.returncode, sorted(l for l in r.stdout.splitlines() if l.startswith("VIOLATION")))
    bad = 0
    for name, ts in VARIANTS.items():
        if only and name != only:
            continue
        d = tempfile.mkdtemp(prefix="coaplint-variant-")
        try:
            make_variant(src, d, ts)
            env = dict(os.environ, COAPLINT_REPO=d)
            for p in props:
                r = subprocess.run([os.path.join(VERIF, "check"), p], capture_output=True, text=True, env=env)
                same = r.returncode == base[p][0]
                if not same:
                    bad += 1
                    print("DIFF variant=%s property=%s exit %d (original %d)" % (name, p, r.returncode, base[p][0]))
                    for l in r.stdout.splitlines():
                        if "conda" not in l:
                            print("    " + l[:400])
                else:
                    print("same variant=%s property=%s exit %d" % (name, p, r.returncode))
            if keep:
                print("kept", d)
        finally:
            if not keep:
                shutil.rmtree(d, ignore_errors=True)
    print("differences: %d" % bad)
    return 1 if bad else 0


if __name__ == "__main__":
    sys.exit(main())
