#!/venv/bin/python
"""Print the as-built clause index (property -> clause id -> what it decides, tier, number of self-test seeds)
as markdown, straight from the rule modules."""
import importlib, os, sys
sys.path.insert(0, os.path.dirname(os.path.dirname(os.path.abspath(__file__))))
print("| clause | tier | seeds | what is decided |")
print("|---|---|---|---|")
tot_c = tot_s = 0
for i in range(1, 21):
    pid = "C%02d" % i
    mod = importlib.import_module("coaplint.rules.c%02d" % i)
    R = mod.R
    seeds = {}
    for s in R.seeds:
        seeds[s.clause] = seeds.get(s.clause, 0) + 1
    for tier, lst in (("quick", R.clauses), ("thorough", R.thorough_clauses)):
        for cid, desc, _fn in lst:
            print("| %s | %s | %d | %s |" % (cid, tier, seeds.get(cid, 0), " ".join(desc.split()).replace("|", "/")))
            tot_c += 1
    tot_s += len(R.seeds)
print()
print("%d clauses, %d self-test seeds." % (tot_c, tot_s))
