#!/venv/bin/python
"""Re-evaluate every /verif/seeded/<id>/patch.diff against all 20 quick checks (copy of /repo/aiocoap + patch,
no tests, no demo) and rewrite `checks_now` in each meta.json.  usage: refresh_seeded_meta.py [--jobs N] [--match SUBSTRING]"""
import json, os, shutil, subprocess, sys, tempfile
from concurrent.futures import ThreadPoolExecutor
VERIF = os.path.dirname(os.path.dirname(os.path.abspath(__file__)))
SRC = os.path.join(VERIF, "seeded")
PROPS = ["C%02d" % i for i in range(1, 21)]

def one(sid):
    d = tempfile.mkdtemp(prefix="rs-%s-" % sid)
    try:
        shutil.copytree("/repo/aiocoap", os.path.join(d, "aiocoap"), ignore=shutil.ignore_patterns("__pycache__"))
        r = subprocess.run(["patch", "-p1", "-s", "-i", os.path.join(SRC, sid, "patch.diff")], cwd=d, capture_output=True, text=True)
        if r.returncode != 0:
            return sid, None
        env = dict(os.environ, COAPLINT_REPO=d, COAPLINT_EVIDENCE_DIR=os.path.join(d, ".evidence"))
        caught, refused, first = [], [], []
        for p in PROPS:
            r = subprocess.run([os.path.join(VERIF, "check"), p], env=env, capture_output=True, text=True)
            if r.returncode == 1:
                caught.append(p)
                if p == sid.split("-")[0] or not first:
                    lines = [l for l in r.stdout.splitlines() if l.startswith("  ")]
                    if lines and (p == sid.split("-")[0] or not first):
                        first = [l.replace(d + "/", "")[:400] for l in lines[:2]]
            elif r.returncode != 0:
                refused.append(p)
        return sid, {"caught_by": caught, "analysis_error_in": refused, "first_report": first}
    finally:
        shutil.rmtree(d, ignore_errors=True)

def main():
    jobs = int(sys.argv[sys.argv.index("--jobs") + 1]) if "--jobs" in sys.argv else 14
    only = sys.argv[sys.argv.index("--match") + 1] if "--match" in sys.argv else ""   # e.g. --match -r6-
    sids = sorted(s for s in os.listdir(SRC) if os.path.isdir(os.path.join(SRC, s)) and only in s)
    with ThreadPoolExecutor(max_workers=jobs) as ex:
        results = list(ex.map(one, sids))
    own = 0
    for sid, res in results:
        if res is None:
            print(sid, "patch failed"); continue
        mp = os.path.join(SRC, sid, "meta.json")
        meta = json.load(open(mp))
        meta["checks_now"] = res
        json.dump(meta, open(mp, "w"), indent=1)
        ok = sid.split("-")[0] in res["caught_by"]
        own += ok
        print("%-10s caught_by=%s refused=%s%s" % (sid, res["caught_by"], res["analysis_error_in"], "" if ok else "   <-- not caught by its own property"))
    print("caught by own property: %d of %d" % (own, len(results)))
main()
