#!/venv/bin/python
"""Regenerate coaplint/baseline_functions.txt: the qualified names (names only) of
every function of /repo/aiocoap on the tree the rule instances were confirmed on.
Functions outside this table are treated as helpers and macro-expanded into their
callers before the rules run (coaplint/inline.py)."""
import os, sys
sys.path.insert(0, os.path.dirname(os.path.dirname(os.path.abspath(__file__))))
os.environ["COAPLINT_NO_INLINE"] = "1"
from coaplint.model import Program
prog = Program(sys.argv[1] if len(sys.argv) > 1 else "/repo")
names = sorted({q.split("#")[0] for q in prog.funcs})
out = os.path.join(os.path.dirname(os.path.dirname(os.path.abspath(__file__))), "coaplint", "baseline_functions.txt")
with open(out, "w") as f:
    f.write("# qualified names of the functions of the confirmed tree (tools/gen_baseline_functions.py)\n")
    for n in names:
        f.write(n + "\n")
print(len(names), "functions")
