"""E1 + E3: call resolution and exception-escape analysis.

escapes(fi, shape) = set of Esc records for exception classes that can leave
function fi, computed bottom-up over resolved callees with handler filtering
through the static class hierarchy and one level of call-site specialisation
on argument shape.
"""

import ast

from .model import AnalysisError, walk_no_nested, stmt_text, BUILTIN_EXC, FuncInfo
from .pat import chain, match, find, dump
from .cfg import cfg_of
from . import norm


class Esc:
    __slots__ = ("cls", "func", "line", "text", "via")

    def __init__(self, cls, func, line, text, via=()):
        self.cls = cls
        self.func = func
        self.line = line
        self.text = text
        self.via = via

    def key(self):
        return (self.cls, self.func, self.text)

    def __hash__(self):
        return hash(self.key())

    def __eq__(self, o):
        return self.key() == o.key()

    def with_via(self, f):
        if len(self.via) >= 8 or f in self.via:
            return self
        return Esc(self.cls, self.func, self.line, self.text, (f,) + self.via)

    def __repr__(self):
        return "%s @ %s:%s `%s`%s" % (self.cls, self.func, self.line, self.text, (" via " + " > ".join(self.via)) if self.via else "")


# external callables that raise (qualified dotted text as written after import resolution)
EXT_RAISES = {
    "struct.unpack": ["struct.error"],
    "struct.unpack_from": ["struct.error"],
    "ipaddress.ip_address": ["ValueError"],
    "ipaddress.IPv6Address": ["ValueError"],
    "ipaddress.IPv4Address": ["ValueError"],
    "urllib.parse.urlparse": ["ValueError"],
    "urllib.parse.urlsplit": ["ValueError"],
    "urllib.parse.unquote_to_bytes": [],
    "urllib.parse.unquote": [],
    "json.load": ["json.JSONDecodeError", "OSError"],
    "json.loads": ["json.JSONDecodeError"],
    "binascii.unhexlify": ["binascii.Error"],
    "bytes.fromhex": ["ValueError"],
    "os.stat": ["OSError"],
    "os.replace": ["OSError"],
    "os.unlink": ["OSError"],
    "os.rename": ["OSError"],
}

# method names on untyped receivers that are builtin-container/str/bytes methods: effect-free
BUILTIN_METHODS = {
    "split", "rsplit", "startswith", "endswith", "items", "keys", "values", "append", "setdefault",
    "get", "join", "strip", "lstrip", "rstrip", "lower", "upper", "format", "count", "find", "replace",
    "extend", "add", "discard", "update", "copy", "hex", "to_bytes", "bit_length", "translate", "title",
    "isdigit", "partition", "rpartition", "sort", "insert", "clear", "popitem", "issubset", "union",
    "from_iterable", "from_bytes", "zfill", "ljust", "rjust", "isalnum", "isascii", "casefold", "index",
    "__contains__", "pop", "remove", "encode", "decode", "cancel", "done", "result", "set_result",
    "set_exception", "add_done_callback", "call_later", "call_soon", "call_at", "time", "create_task", "create_future",
    "debug", "info", "warning", "error", "exception", "critical", "log", "warn",
}

STRISH_METHODS = {"split", "rsplit", "strip", "lstrip", "rstrip", "partition", "rpartition", "decode", "lower", "upper", "replace", "unquote", "group", "groups"}


class Resolver:
    def __init__(self, prog, hints=None):
        self.prog = prog
        self.hints = hints or {}  # (func short, expr text) -> [class qn]
        self._attr_types = {}
        self._method_index = None
        self.by_unique_name = []
        self._lambda_funcs = {}
        self.cur_self = None  # receiver class context (set by EscapeAnalysis)
        self._infer_stack = set()

    # ---- class of `self` for a function (methods and functions nested in methods)
    def self_class(self, fi):
        if self.cur_self is not None and self.cur_self in self.prog.classes:
            # receiver-sensitive context, valid when fi is a method of an ancestor
            f = fi
            while f is not None and f.cls is None:
                f = f.parent
            if f is not None and f.cls.qn in self.prog.mro(self.cur_self):
                return self.prog.classes[self.cur_self]
        f = fi
        while f is not None:
            if f.cls is not None:
                return f.cls
            f = f.parent
        return None

    def method_index(self):
        if self._method_index is None:
            idx = {}
            for c in self.prog.classes.values():
                for name, m in c.methods.items():
                    idx.setdefault(name, []).append((c, m))
            self._method_index = idx
        return self._method_index

    def class_of_name(self, fi, dotted):
        """Resolve dotted text to a class qn in the package, or None."""
        if dotted is None:
            return None
        q = self.prog.resolve_in_module(fi.module, dotted)
        if q in self.prog.classes:
            return q
        # nested classes referenced through self / enclosing class
        sc = self.self_class(fi)
        if sc is not None:
            parts = dotted.split(".")
            if parts[0] in ("self", "cls") and len(parts) == 2:
                for k in self.prog.mro(sc.qn):
                    if k + "." + parts[1] in self.prog.classes:
                        return k + "." + parts[1]
                    ci = self.prog.classes.get(k)
                    if ci and parts[1] in ci.attrs:
                        tgt = chain(ci.attrs[parts[1]])
                        if tgt:
                            if k + "." + tgt in self.prog.classes:
                                return k + "." + tgt
                            q2 = self.prog.resolve_in_module(ci.module, tgt)
                            if q2 in self.prog.classes:
                                return q2
            if len(parts) == 1 and sc.qn + "." + parts[0] in self.prog.classes:
                return sc.qn + "." + parts[0]
        return None

    def attr_types(self, clsqn, attr):
        key = (clsqn, attr)
        if key in self._attr_types:
            return self._attr_types[key]
        self._attr_types[key] = set()
        out = set()
        for k in self.prog.mro(clsqn):
            ci = self.prog.classes.get(k)
            if ci is None:
                continue
            if attr in ci.annotations:
                t = self._ann_class(ci, ci.annotations[attr])
                if t:
                    out |= set(t)
            for m in ci.methods.values():
                for n in walk_no_nested(m.node):
                    if isinstance(n, (ast.Assign, ast.AnnAssign)):
                        tgts = n.targets if isinstance(n, ast.Assign) else [n.target]
                        for t in tgts:
                            if isinstance(t, ast.Attribute) and t.attr == attr and chain(t.value) == "self":
                                if isinstance(n, ast.AnnAssign):
                                    tt = self._ann_class(ci, n.annotation)
                                    if tt:
                                        out |= set(tt)
                                if n.value is not None:
                                    out |= self.infer(m, n.value, depth=1)
        self._attr_types[key] = out
        return out

    def _ann_class(self, ci, ann):
        if isinstance(ann, ast.Constant) and isinstance(ann.value, str):
            txt = ann.value
        else:
            if isinstance(ann, ast.Subscript):
                return None
            txt = chain(ann)
        if not txt:
            return None
        q = self.prog.resolve_in_module(ci.module, txt)
        if q in self.prog.classes:
            return [q]
        return None

    def infer(self, fi, e, depth=0):
        """Set of package class qns the expression may evaluate to."""
        if depth > 4:
            return set()
        key = (fi.qn, id(e))
        if key in self._infer_stack or len(self._infer_stack) > 40:
            return set()
        self._infer_stack.add(key)
        try:
            return self._infer(fi, e, depth)
        finally:
            self._infer_stack.discard(key)

    def _infer(self, fi, e, depth=0):
        txt = chain(e) or ""
        hk = (fi.short, txt)
        if hk in self.hints:
            return set(self.hints[hk])
        if isinstance(e, ast.Name):
            if e.id in ("self",):
                sc = self.self_class(fi)
                return {sc.qn} if sc else set()
            # parameter annotation
            f = fi
            while f is not None:
                a = f.node.args
                for arg in a.posonlyargs + a.args + a.kwonlyargs:
                    if arg.arg == e.id and arg.annotation is not None:
                        t = self._ann_txt(f, arg.annotation)
                        if t:
                            return {t}
                # local assignments
                out = set()
                for n in walk_no_nested(f.node):
                    if isinstance(n, ast.Assign) and any(isinstance(t, ast.Name) and t.id == e.id for t in n.targets):
                        if isinstance(n.value, ast.Call) and (f.short, "=" + (chain(n.value.func) or "?")) in self.hints:
                            # declared dynamic dispatch: a local bound from that call
                            out |= set(self.hints[(f.short, "=" + chain(n.value.func))])
                            continue
                        out |= self.infer(f, n.value, depth + 1)
                    elif isinstance(n, ast.AnnAssign) and isinstance(n.target, ast.Name) and n.target.id == e.id:
                        t = self._ann_txt(f, n.annotation)
                        if t:
                            out.add(t)
                if out:
                    return out
                f = f.parent
            return set()
        if isinstance(e, ast.Call):
            c = self.class_of_name(fi, chain(e.func))
            if c:
                return {c}
            if match("type(self)", e.func) is not None or match("self.__class__", e.func) is not None:
                sc = self.self_class(fi)
                return {sc.qn} if sc else set()
            # function with return annotation
            for callee, _sc in self.resolve_callees(fi, e)[0]:
                r = getattr(callee.node, "returns", None)
                if r is not None:
                    t = self._ann_txt(callee, r)
                    if t:
                        return {t}
            return set()
        if isinstance(e, ast.Attribute):
            base = self.infer(fi, e.value, depth + 1)
            out = set()
            for b in base:
                out |= self.attr_types(b, e.attr)
            return out
        if isinstance(e, ast.Subscript):
            # container element types: values stored with self.f[k] = v
            if isinstance(e.value, ast.Attribute) and chain(e.value.value) == "self":
                sc = self.self_class(fi)
                if sc:
                    out = set()
                    for k in self.prog.mro(sc.qn):
                        ci = self.prog.classes.get(k)
                        if not ci:
                            continue
                        for m in ci.methods.values():
                            for n in walk_no_nested(m.node):
                                if isinstance(n, ast.Assign):
                                    for t in n.targets:
                                        if isinstance(t, ast.Subscript) and dump(t.value) == dump(e.value):
                                            out |= self.infer(m, n.value, depth + 1)
                    return out
            return set()
        if isinstance(e, ast.IfExp):
            return self.infer(fi, e.body, depth + 1) | self.infer(fi, e.orelse, depth + 1)
        return set()

    def _ann_txt(self, fi, ann):
        if isinstance(ann, ast.Constant) and isinstance(ann.value, str):
            txt = ann.value
        else:
            txt = chain(ann)
        if not txt:
            return None
        return self.class_of_name(fi, txt)

    def ctor_funcs(self, clsqn):
        out = []
        for name in ("__new__", "__init__"):
            m = self.prog.lookup_method(clsqn, name)
            if m is not None:
                out.append((m, clsqn))
        return out

    def _methods_for(self, t, attr):
        """(method, receiver class) for a receiver statically typed t:
        t's own resolution plus overrides in subclasses."""
        out = []
        m = self.prog.lookup_method(t, attr)
        if m:
            out.append((m, t))
        for sub in self.prog.subclasses(t):
            if sub == t:
                continue
            ci = self.prog.classes[sub]
            if attr in ci.methods:
                out.append((ci.methods[attr], sub))
        return out

    def resolve_callees(self, fi, call):
        """-> (list of (FuncInfo, receiver class qn or None), kind) where kind in
        'resolved' | 'class' | 'external:<name>' | 'builtin-method' | 'unresolved'"""
        f = call.func
        prog = self.prog
        if isinstance(f, ast.Name):
            # nested / local function
            g = fi
            while g is not None:
                q = g.qn + ".<locals>." + f.id
                if q in prog.funcs:
                    return [(prog.funcs[q], self.cur_self)], "resolved"
                g = g.parent
            c = self.class_of_name(fi, f.id)
            if c:
                return self.ctor_funcs(c), "class"
            q = prog.resolve_in_module(fi.module, f.id)
            if q in prog.funcs:
                return [(prog.funcs[q], None)], "resolved"
            return [], "external:" + q
        if isinstance(f, ast.Attribute):
            # super().m(...)
            if isinstance(f.value, ast.Call) and chain(f.value.func) == "super":
                sc = self.self_class(fi)
                if sc:
                    mro = prog.mro(sc.qn)[1:]
                    f0 = fi
                    while f0 is not None and f0.cls is None:
                        f0 = f0.parent
                    if f0 is not None and f0.cls.qn in mro:
                        mro = mro[mro.index(f0.cls.qn) + 1:]
                    elif f0 is not None and f0.cls.qn == sc.qn:
                        pass
                    for k in mro:
                        ci = prog.classes.get(k)
                        if ci and f.attr in ci.methods:
                            return [(ci.methods[f.attr], sc.qn)], "resolved"
                return [], "external:super." + f.attr
            dotted = chain(f)
            if dotted:
                head = dotted.split(".")[0]
                if head not in ("self", "cls"):
                    c = self.class_of_name(fi, dotted)
                    if c:
                        return self.ctor_funcs(c), "class"
                    q = prog.resolve_in_module(fi.module, dotted)
                    if q in prog.funcs:
                        return [(prog.funcs[q], None)], "resolved"
                    # Class.method(...) explicit
                    base = self.class_of_name(fi, chain(f.value))
                    if base:
                        m = prog.lookup_method(base, f.attr)
                        if m:
                            return [(m, base)], "resolved"
                    if head in fi.module.imports and not self._is_local(fi, head):
                        tgt = fi.module.imports[head]
                        if not tgt.startswith("aiocoap") and not tgt.startswith("."):
                            return [], "external:" + ".".join([tgt] + dotted.split(".")[1:])
                else:
                    c = self.class_of_name(fi, dotted)
                    if c:
                        return self.ctor_funcs(c), "class"
            # typed receiver
            types = self.infer(fi, f.value)
            if types:
                out = []
                for t in sorted(types):
                    for pair in self._methods_for(t, f.attr):
                        if pair not in out:
                            out.append(pair)
                if out:
                    return out, "resolved"
            # unique-name fallback
            cands = self.method_index().get(f.attr, [])
            if len(cands) == 1 and f.attr not in BUILTIN_METHODS:
                self.by_unique_name.append((fi.short, f.attr))
                return [(cands[0][1], cands[0][0].qn)], "resolved"
            if f.attr in BUILTIN_METHODS:
                return [], "builtin-method"
            return [], "unresolved"
        if isinstance(f, ast.Call) and (match("type(self)", f) is not None):
            sc = self.self_class(fi)
            if sc is not None:
                return self.ctor_funcs(sc.qn), "class"
        return [], "unresolved"

    def _is_local(self, fi, name):
        f = fi
        while f is not None:
            a = f.node.args
            if any(x.arg == name for x in a.posonlyargs + a.args + a.kwonlyargs):
                return True
            f = f.parent
        return False

    def property_setter(self, clsqn, attr):
        """FuncInfo of the setter when <cls>.attr is a property (decorator or
        property(...) form), else None."""
        for k in self.prog.mro(clsqn):
            ci = self.prog.classes.get(k)
            if ci is None:
                continue
            # decorator form
            for fqn, fn in self.prog.funcs.items():
                if fn.cls is ci and fn.name == attr and any(ast.unparse(d).endswith(".setter") for d in fn.node.decorator_list):
                    return fn
            if attr in ci.attrs:
                v = ci.attrs[attr]
                if isinstance(v, ast.Call) and chain(v.func) == "property":
                    args = list(v.args)
                    fset = args[1] if len(args) > 1 else next((kw.value for kw in v.keywords if kw.arg == "fset"), None)
                    if fset is None:
                        return None
                    if isinstance(fset, ast.Lambda):
                        key = id(fset)
                        if key not in self._lambda_funcs:
                            lf = FuncInfo("%s.<lambda:%s.setter>" % (ci.qn, attr), fset, ci.module, ci, None)
                            lf.name = "<lambda>"
                            self._lambda_funcs[key] = lf
                        return self._lambda_funcs[key]
                    if isinstance(fset, ast.Name) and fset.id in ci.methods:
                        return ci.methods[fset.id]
                return None
            if attr in ci.methods:
                return None
        return None


# ---------------------------------------------------------------------------


def _const_of(e):
    if isinstance(e, ast.Constant):
        return ("const", e.value)
    if isinstance(e, (ast.Tuple, ast.List)) and not e.elts:
        return ("const", ())
    if isinstance(e, ast.Dict) and not e.keys:
        return ("const", {})
    return None


class EscapeAnalysis:
    def __init__(self, prog, hints=None, ext_raises=None, unresolved_ok=None):
        self.prog = prog
        self.res = Resolver(prog, hints)
        self.memo = {}
        self.inprogress = set()
        self.unresolved = []  # (func short, call text)
        self.resolved_edges = 0
        self.external_calls = {}
        self.ext = dict(EXT_RAISES)
        if ext_raises:
            self.ext.update(ext_raises)
        self.lemmas_used = []
        self.implicit_sites = []
        self.dead_nodes = set()  # id(ast node) of sites a rule has proven infeasible

    # ---- shapes -------------------------------------------------------
    def shape_for(self, caller, call, callee, extra_first=0):
        """Map callee parameters to tags from the call site."""
        a = callee.node.args
        pnames = [x.arg for x in a.posonlyargs + a.args]
        is_method = callee.cls is not None and not any(ast.unparse(d) == "staticmethod" for d in getattr(callee.node, "decorator_list", []))
        skip = 1 if (is_method or isinstance(callee.node, ast.Lambda) and pnames[:1] == ["self"]) else 0
        # explicit Base.method(self, ...) passes self positionally
        if skip and isinstance(call.func, ast.Attribute) and self.res.class_of_name(caller, chain(call.func.value) or "") and callee.name not in ("__init__", "__new__"):
            skip = 0
        pos = pnames[skip:]
        tags = {}
        star = any(isinstance(x, ast.Starred) for x in call.args)
        # `**{"k": v}`, `**dict(k=v)` or `**local` bound once to such a display pass known keyword names:
        # possible key sets are enumerated (conditional keys `"a" if c else "b"` give alternatives)
        dkeys = set()  # names that MAY be passed through ** displays
        dstar = False
        for k in call.keywords:
            if k.arg is not None:
                continue
            ks = self._display_keys(caller, k.value)
            if ks is None:
                dstar = True
            else:
                dkeys |= ks
        if not star:
            for p, arg in zip(pos, call.args):
                tags[p] = self._tag(caller, arg)
        for k in call.keywords:
            if k.arg is not None:
                tags[k.arg] = self._tag(caller, k.value)
        defaults = {}
        allp = a.posonlyargs + a.args
        for p, d in zip(reversed(allp), reversed(a.defaults)):
            defaults[p.arg] = d
        for p, d in zip(a.kwonlyargs, a.kw_defaults):
            if d is not None:
                defaults[p.arg] = d
        for k_ in dkeys:
            # a declared parameter passed through a ** display is present, not defaulted
            if k_ in pos or k_ in [x.arg for x in a.kwonlyargs]:
                tags.setdefault(k_, ("present",))
        if not star and not dstar:
            for p in pos + [x.arg for x in a.kwonlyargs]:
                if p not in tags:
                    if p in defaults:
                        c = _const_of(defaults[p])
                        tags[p] = c if c else ("present",)
            if a.kwarg:
                declared = set(pnames) | {x.arg for x in a.kwonlyargs}
                explicit = frozenset(k.arg for k in call.keywords if k.arg is not None and k.arg not in declared)
                if dkeys:
                    # may-keys: membership can be refuted (name not among them) but not affirmed
                    tags["**" + a.kwarg.arg] = ("maykeys", explicit | frozenset(x for x in dkeys if x not in declared))
                else:
                    tags["**" + a.kwarg.arg] = ("keys", explicit)
        return frozenset(tags.items())

    def _display_keys(self, caller, v, depth=0):
        """keyword names a `**v` argument can contribute, or None when unknown"""
        if depth > 3:
            return None
        if isinstance(v, ast.Dict):
            out = set()
            for k_ in v.keys:
                if k_ is None:
                    return None
                alts = self._str_alternatives(k_)
                if alts is None:
                    return None
                out |= alts
            return out
        if isinstance(v, ast.Call) and chain(v.func) == "dict" and not v.args:
            if any(kw.arg is None for kw in v.keywords):
                return None
            return {kw.arg for kw in v.keywords}
        if isinstance(v, ast.Name) and not isinstance(caller.node, ast.Lambda):
            from .rulekit import writes_to_name
            ws = writes_to_name(caller.node, v.id)
            if len(ws) == 1 and isinstance(ws[0], ast.Assign) and len(ws[0].targets) == 1 and isinstance(ws[0].targets[0], ast.Name):
                # no later item stores / updates on it
                for n_ in walk_no_nested(caller.node):
                    if isinstance(n_, ast.Subscript) and isinstance(n_.ctx, (ast.Store, ast.Del)) and isinstance(n_.value, ast.Name) and n_.value.id == v.id:
                        alts = self._str_alternatives(n_.slice)
                        if alts is None:
                            return None
                    if isinstance(n_, ast.Call) and isinstance(n_.func, ast.Attribute) and isinstance(n_.func.value, ast.Name) and n_.func.value.id == v.id and n_.func.attr in ("update", "setdefault", "pop", "clear", "popitem"):
                        return None
                base = self._display_keys(caller, ws[0].value, depth + 1)
                if base is None:
                    return None
                for n_ in walk_no_nested(caller.node):
                    if isinstance(n_, ast.Subscript) and isinstance(n_.ctx, ast.Store) and isinstance(n_.value, ast.Name) and n_.value.id == v.id:
                        base |= self._str_alternatives(n_.slice) or set()
                return base
        return None

    def _str_alternatives(self, e):
        if isinstance(e, ast.Constant) and isinstance(e.value, str):
            return {e.value}
        if isinstance(e, ast.IfExp):
            a_, b_ = self._str_alternatives(e.body), self._str_alternatives(e.orelse)
            if a_ is None or b_ is None:
                return None
            return a_ | b_
        return None

    def _tag(self, caller, arg):
        c = _const_of(arg)
        if c:
            return c
        if isinstance(arg, ast.Call):
            fn = chain(arg.func) or ""
            if fn == "self.type":
                return ("selftype",)
            sc = self.res.self_class(caller)
            if sc is not None:
                v, _ = self.prog.class_attr(sc.qn, "type")
                if v is not None and chain(v) == fn:
                    return ("selftype",)
        return ("present",)

    def decide(self, test, shape):
        """Three-valued evaluation of a test under a shape: True/False/None."""
        sh = dict(shape or ())
        def val(e):
            if isinstance(e, ast.Attribute) and chain(e) in (getattr(self, "_alias", None) or {}):
                e = ast.Name(id=self._alias[chain(e)], ctx=ast.Load())
            if isinstance(e, ast.Name) and e.id in sh and sh[e.id][0] == "const" and e.id not in (getattr(self, "_rebound", None) or ()):
                return True, sh[e.id][1]
            if isinstance(e, ast.Constant):
                return True, e.value
            return False, None
        if isinstance(test, ast.BoolOp):
            vals = [self.decide(v, shape) for v in test.values]
            if isinstance(test.op, ast.And):
                if any(v is False for v in vals):
                    return False
                return True if all(v is True for v in vals) else None
            if any(v is True for v in vals):
                return True
            return False if all(v is False for v in vals) else None
        if isinstance(test, ast.UnaryOp) and isinstance(test.op, ast.Not):
            v = self.decide(test.operand, shape)
            return None if v is None else (not v)
        if isinstance(test, ast.Name):
            k, v = val(test)
            if k:
                return bool(v)
            return None
        if isinstance(test, ast.Compare) and len(test.ops) == 1:
            op = test.ops[0]
            l, r = test.left, test.comparators[0]
            kl, vl = val(l)
            kr, vr = val(r)
            if kl and kr:
                if isinstance(op, ast.Is):
                    return vl is vr if (vl is None or vr is None or isinstance(vl, bool)) else (vl == vr)
                if isinstance(op, ast.IsNot):
                    return not (vl is vr if (vl is None or vr is None or isinstance(vl, bool)) else (vl == vr))
                if isinstance(op, ast.Eq):
                    return vl == vr
                if isinstance(op, ast.NotEq):
                    return vl != vr
            # x is None with x 'present' non-const stays unknown
            if isinstance(op, (ast.In, ast.NotIn)) and isinstance(l, ast.Constant) and isinstance(r, ast.Name):
                t = sh.get("**" + r.id)
                if t and t[0] == "keys":
                    res = l.value in t[1]
                    return res if isinstance(op, ast.In) else not res
                if t and t[0] == "maykeys" and l.value not in t[1]:
                    return isinstance(op, ast.NotIn)
        if isinstance(test, ast.Call) and isinstance(test.func, ast.Attribute) and chain(test.func.value) == "self" and not test.args and not test.keywords:
            facts = dict(sh.get("@selffacts", ("facts", frozenset()))[1])
            if test.func.attr in facts:
                return facts[test.func.attr]
        if isinstance(test, ast.Call) and chain(test.func) == "isinstance" and len(test.args) == 2:
            a0 = test.args[0]
            if isinstance(a0, ast.Name) and sh.get(a0.id, (None,))[0] == "selftype" and chain(test.args[1]) == "self.type":
                return True
        return None

    # ---- main ---------------------------------------------------------
    def escapes(self, fi, shape=None, selfcls=None):
        key = (fi.qn, shape, selfcls)
        if key in self.memo:
            return self.memo[key]
        if key in self.inprogress:
            return frozenset()
        self.inprogress.add(key)
        saved = (self.res.cur_self, getattr(self, "_alias", None), getattr(self, "_rebound", None))
        self.res.cur_self = selfcls
        self._alias = self._self_attr_alias(fi)
        # parameters the callee re-binds: their call-site tag says nothing about later tests
        # (collected while the live statements are traversed in order: a store in an arm that the call shape
        # proves dead does not count -- `if mtype is not None: _mtype = mtype` with mtype=None)
        self._rebound = set()
        try:
            body = fi.node.body if not isinstance(fi.node, ast.Lambda) else [ast.Expr(value=fi.node.body)]
            if isinstance(fi.node, ast.Lambda):
                ast.copy_location(body[0], fi.node.body)
            res = frozenset(self._block(fi, body, shape, caught=None))
        finally:
            self.inprogress.discard(key)
            self.res.cur_self, self._alias, self._rebound = saved
        self.memo[key] = res
        return res

    def _self_attr_alias(self, fi):
        """self.X -> parameter name when the function's only store to self.X
        is `self.X = <param>`."""
        if isinstance(fi.node, ast.Lambda):
            return {}
        a = fi.node.args
        pn = {x.arg for x in a.posonlyargs + a.args + a.kwonlyargs}
        stores = {}
        for n in walk_no_nested(fi.node):
            if isinstance(n, ast.Assign):
                for t in n.targets:
                    if isinstance(t, ast.Attribute) and chain(t.value) == "self":
                        stores.setdefault(t.attr, []).append(n.value)
            elif isinstance(n, (ast.AugAssign, ast.AnnAssign)) and isinstance(n.target, ast.Attribute) and chain(n.target.value) == "self":
                stores.setdefault(n.target.attr, []).append(None)
        out = {}
        for attr, vals in stores.items():
            if len(vals) == 1 and isinstance(vals[0], ast.Name) and vals[0].id in pn:
                from .rulekit import writes_to_name
                if not writes_to_name(fi.node, vals[0].id):
                    out["self." + attr] = vals[0].id
        return out

    def _block(self, fi, stmts, shape, caught):
        out = set()
        for st in stmts:
            out |= self._stmt(fi, st, shape, caught)
            if self._ends_flow(st, shape):
                break  # what follows in this block is unreachable under this call shape
        return out

    def _ends_flow(self, st, shape):
        """Does control never fall through statement st (under the call shape)?  Guard clauses
        (`if ok: ...; return` followed by `raise`) and nested if/else are the same program."""
        if isinstance(st, (ast.Return, ast.Raise, ast.Continue, ast.Break)):
            return True
        if isinstance(st, (ast.Assign, ast.Expr, ast.AnnAssign)) and getattr(st, "value", None) is not None:
            # `kwargs.pop("k")` / `kwargs["k"]` on the ** dictionary when the call passes no such keyword:
            # the statement raises KeyError, nothing after it in this block runs
            sh = dict(shape or ())
            for x in self._certain(st.value, shape):
                kd = None
                if isinstance(x, ast.Call) and isinstance(x.func, ast.Attribute) and x.func.attr == "pop" and len(x.args) == 1 and not x.keywords and isinstance(x.func.value, ast.Name):
                    kd = (x.func.value.id, x.args[0])
                elif isinstance(x, ast.Subscript) and isinstance(x.ctx, ast.Load) and isinstance(x.value, ast.Name):
                    kd = (x.value.id, x.slice)
                if kd and isinstance(kd[1], ast.Constant) and isinstance(kd[1].value, str):
                    t = sh.get("**" + kd[0])
                    if t and t[0] in ("keys", "maykeys") and kd[1].value not in t[1]:
                        return True
        if isinstance(st, ast.If):
            d = self.decide(st.test, shape)
            body_ends = bool(st.body) and self._block_ends(st.body, shape)
            else_ends = bool(st.orelse) and self._block_ends(st.orelse, shape)
            if d is True:
                return body_ends
            if d is False:
                return else_ends
            return body_ends and else_ends
        return False

    def _block_ends(self, stmts, shape):
        return any(self._ends_flow(x, shape) for x in stmts)

    def _catches(self, fi, handler, esc):
        if handler.type is None:
            return True
        types = handler.type.elts if isinstance(handler.type, ast.Tuple) else [handler.type]
        for t in types:
            txt = chain(t)
            if txt is None:
                continue
            q = self.prog.resolve_in_module(fi.module, txt)
            if q not in self.prog.classes and q not in BUILTIN_EXC:
                # external exception class: match by trailing name
                last = q.split(".")[-1]
                if last in BUILTIN_EXC:
                    q = last
            if esc.cls == q or self.prog.is_subclass(esc.cls, q):
                return True
            if q.split(".")[-1] == esc.cls.split(".")[-1] and q not in self.prog.classes and esc.cls not in self.prog.classes:
                return True
        return False

    def _note_stores(self, st):
        rb = getattr(self, "_rebound", None)
        if rb is None:
            return
        heads = []
        if isinstance(st, ast.Assign):
            heads = list(st.targets)
        elif isinstance(st, (ast.AugAssign, ast.AnnAssign)):
            heads = [st.target]
        elif isinstance(st, (ast.For, ast.AsyncFor)):
            heads = [st.target]
        elif isinstance(st, (ast.With, ast.AsyncWith)):
            heads = [it.optional_vars for it in st.items if it.optional_vars is not None]
        elif isinstance(st, ast.Delete):
            heads = list(st.targets)
        for h in heads:
            for n_ in ast.walk(h):
                if isinstance(n_, ast.Name) and isinstance(n_.ctx, (ast.Store, ast.Del)):
                    rb.add(n_.id)
        if isinstance(st, (ast.Expr, ast.Assign, ast.Return, ast.If, ast.While, ast.Assert)):
            tgt = getattr(st, "value", None) or getattr(st, "test", None)
            if tgt is not None:
                for n_ in walk_no_nested(tgt):
                    if isinstance(n_, ast.NamedExpr) and isinstance(n_.target, ast.Name):
                        rb.add(n_.target.id)

    def _stmt(self, fi, st, shape, caught):
        out = set()
        self._note_stores(st)
        if isinstance(st, (ast.FunctionDef, ast.AsyncFunctionDef, ast.ClassDef, ast.Pass, ast.Break, ast.Continue, ast.Global, ast.Nonlocal, ast.Import, ast.ImportFrom)):
            return out
        if isinstance(st, ast.Try):
            body = self._block(fi, st.body, shape, caught)
            remaining = set()
            per_handler = [set() for _ in st.handlers]
            for e in body:
                for i, h in enumerate(st.handlers):
                    if self._catches(fi, h, e):
                        per_handler[i].add(e)
                        break
                else:
                    remaining.add(e)
            out |= remaining
            for h, got in zip(st.handlers, per_handler):
                out |= self._block(fi, h.body, shape, caught=(h.name, got, h))
            if not self._block_ends(st.body, shape):
                # the else arm runs only when the body completes normally
                out |= self._block(fi, st.orelse, shape, caught)
            out |= self._block(fi, st.finalbody, shape, caught)
            return out
        if isinstance(st, ast.If):
            d = self.decide(st.test, shape)
            out |= self._expr(fi, st.test, shape, st)
            if d is not False:
                out |= self._block(fi, st.body, shape, caught)
            if d is not True:
                out |= self._block(fi, st.orelse, shape, caught)
            return out
        if isinstance(st, ast.While):
            out |= self._expr(fi, st.test, shape, st)
            out |= self._block(fi, st.body, shape, caught)
            out |= self._block(fi, st.orelse, shape, caught)
            return out
        if isinstance(st, (ast.For, ast.AsyncFor)):
            out |= self._expr(fi, st.iter, shape, st)
            out |= self._block(fi, st.body, shape, caught)
            out |= self._block(fi, st.orelse, shape, caught)
            return out
        if isinstance(st, (ast.With, ast.AsyncWith)):
            for it in st.items:
                out |= self._expr(fi, it.context_expr, shape, st)
            out |= self._block(fi, st.body, shape, caught)
            return out
        if isinstance(st, ast.Match):
            out |= self._expr(fi, st.subject, shape, st)
            for c in st.cases:
                out |= self._block(fi, c.body, shape, caught)
            return out
        if isinstance(st, ast.Raise):
            if st.exc is None:
                if caught is not None:
                    return set(caught[1]) | ({Esc("?reraise-of-unknown", fi.short, st.lineno, "raise")} if not caught[1] and caught[2].type is None else set())
                return {Esc("?bare-raise", fi.short, st.lineno, "raise")}
            out |= self._expr(fi, st.exc, shape, st, skip_ctor_of_raise=True)
            if isinstance(st.exc, ast.Name) and caught is not None and caught[0] == st.exc.id:
                return out | set(caught[1])
            cls = self._exc_class(fi, st.exc)
            out.add(Esc(cls, fi.short, st.lineno, stmt_text(st, 100)))
            return out
        if isinstance(st, ast.Assert):
            return self._expr(fi, st.test, shape, st)
        # simple statements: look at all expressions
        out |= self._expr(fi, st, shape, st)
        # property setters on typed receivers
        if isinstance(st, (ast.Assign, ast.AugAssign, ast.AnnAssign)):
            tgts = st.targets if isinstance(st, ast.Assign) else [st.target]
            for t in tgts:
                for tt in (t.elts if isinstance(t, (ast.Tuple, ast.List)) else [t]):
                    if isinstance(tt, ast.Attribute):
                        out |= self._setter(fi, tt, st, shape)
            # tuple-unpacking of a split result
            if isinstance(st, ast.Assign) and isinstance(st.targets[0], (ast.Tuple, ast.List)) and isinstance(st.value, ast.Call) and isinstance(st.value.func, ast.Attribute) and st.value.func.attr in ("split", "rsplit"):
                self.implicit_sites.append((fi.short, stmt_text(st, 80)))
                out.add(Esc("ValueError", fi.short, st.lineno, stmt_text(st, 100)))
        return out

    def _setter(self, fi, target, st, shape):
        out = set()
        types = self.res.infer(fi, target.value)
        for t in sorted(types):
            cands = [t] + [s for s in self.prog.subclasses(t) if s != t]
            seen = set()
            for c in cands:
                fs = self.res.property_setter(c, target.attr)
                if fs is not None and fs.qn not in seen:
                    seen.add(fs.qn)
                    # shape: the value parameter
                    a = fs.node.args
                    pn = [x.arg for x in a.args]
                    tag = self._tag(fi, st.value) if isinstance(st, ast.Assign) else ("present",)
                    sh = frozenset({(pn[1], tag)}) if len(pn) > 1 else None
                    self.resolved_edges += 1
                    out |= {e.with_via(fi.short) for e in self.escapes(fs, sh, c)}
        return out

    def _exc_class(self, fi, e):
        if isinstance(e, ast.Call):
            e = e.func
        txt = chain(e)
        if txt is None:
            return "?dynamic"
        c = self.res.class_of_name(fi, txt)
        if c:
            return c
        q = self.prog.resolve_in_module(fi.module, txt)
        if q in BUILTIN_EXC:
            return q
        last = q.split(".")[-1]
        if last in BUILTIN_EXC:
            return last
        # local variable holding an exception instance
        if isinstance(e, ast.Name):
            for n in walk_no_nested(fi.node):
                if isinstance(n, ast.Assign) and any(isinstance(t, ast.Name) and t.id == e.id for t in n.targets) and isinstance(n.value, ast.Call):
                    return self._exc_class(fi, n.value)
        return "?" + q

    def _expr(self, fi, root, shape, st, skip_ctor_of_raise=False):
        """Escapes from all calls / implicit raisers in an expression or simple
        statement (nested function bodies are separate functions)."""
        out = set()
        for n in self._live(root, shape):
            if isinstance(n, ast.Call):
                out |= self._call(fi, n, shape, st)
            elif isinstance(n, ast.Subscript) and isinstance(n.ctx, ast.Load):
                out |= self._subscript(fi, n, st)
            elif isinstance(n, ast.Attribute) and n.attr == "port" and isinstance(n.ctx, ast.Load):
                v = n.value
                if isinstance(v, ast.Name):
                    for a in walk_no_nested(fi.node):
                        if isinstance(a, ast.Assign) and any(isinstance(t, ast.Name) and t.id == v.id for t in a.targets) and isinstance(a.value, ast.Call):
                            q = self._ext_name(fi, a.value)
                            if q in ("urllib.parse.urlparse", "urllib.parse.urlsplit", "urllib.parse.SplitResult"):
                                self.implicit_sites.append((fi.short, stmt_text(n, 60)))
                                out.add(Esc("ValueError", fi.short, n.lineno, stmt_text(n, 80)))
            elif isinstance(n, (ast.ListComp, ast.GeneratorExp, ast.SetComp, ast.DictComp)):
                pass  # elements are walked by walk_no_nested anyway
        return out

    def _certain(self, root, shape):
        """sub-expressions that are evaluated on EVERY evaluation of root under the call shape: the arm of a
        conditional expression only if the shape decides its test, the first operand of and/or only, no
        comprehension / lambda bodies, the first comparator of a comparison chain only."""
        todo = [root]
        while todo:
            n = todo.pop()
            if isinstance(n, (ast.FunctionDef, ast.AsyncFunctionDef, ast.Lambda, ast.ClassDef, ast.ListComp, ast.SetComp, ast.DictComp, ast.GeneratorExp)):
                continue
            yield n
            if isinstance(n, ast.IfExp):
                d = self.decide(n.test, shape)
                todo.append(n.test)
                if d is True:
                    todo.append(n.body)
                elif d is False:
                    todo.append(n.orelse)
                continue
            if isinstance(n, ast.BoolOp):
                todo.append(n.values[0])
                continue
            if isinstance(n, ast.Compare):
                todo.append(n.left)
                todo.append(n.comparators[0])
                continue
            todo.extend(reversed(list(ast.iter_child_nodes(n))))

    def _live(self, root, shape):
        """walk_no_nested that skips the dead arm of a conditional expression
        whose test is decided by the shape."""
        todo = [root]
        first = True
        while todo:
            n = todo.pop()
            if not first and isinstance(n, (ast.FunctionDef, ast.AsyncFunctionDef, ast.Lambda, ast.ClassDef)):
                continue
            first = False
            yield n
            if isinstance(n, ast.IfExp):
                d = self.decide(n.test, shape)
                todo.append(n.test)
                if d is not False:
                    todo.append(n.body)
                if d is not True:
                    todo.append(n.orelse)
                continue
            todo.extend(reversed(list(ast.iter_child_nodes(n))))

    def _receiver_facts(self, fi, call):
        """Facts (method name -> bool) about the receiver of `recv.m()` known at
        the call site: left operands of an enclosing `and`, expanded through
        one-line definitions `return [not] self.h()`.  (Lemma L2.)"""
        if not isinstance(call.func, ast.Attribute):
            return None
        recv = dump(call.func.value)
        cfg = cfg_of(fi) if not isinstance(fi.node, ast.Lambda) else None
        facts = {}
        def add(e, pol):
            if isinstance(e, ast.UnaryOp) and isinstance(e.op, ast.Not):
                return add(e.operand, not pol)
            if isinstance(e, ast.Call) and isinstance(e.func, ast.Attribute) and dump(e.func.value) == recv and not e.args:
                facts[e.func.attr] = pol
                # expand one level
                for callee, _ in self.res.resolve_callees(fi, e)[0]:
                    body = [b for b in callee.node.body if not (isinstance(b, ast.Expr) and isinstance(b.value, ast.Constant))]
                    if len(body) == 1 and isinstance(body[0], ast.Return) and body[0].value is not None:
                        v = body[0].value
                        p2 = pol
                        while isinstance(v, ast.UnaryOp) and isinstance(v.op, ast.Not):
                            v = v.operand
                            p2 = not p2
                        if isinstance(v, ast.Call) and isinstance(v.func, ast.Attribute) and chain(v.func.value) == "self" and not v.args:
                            facts[v.func.attr] = p2
        if cfg is not None:
            p = cfg.parent.get(id(call))
            child = call
            while p is not None and not isinstance(p, ast.stmt):
                if isinstance(p, ast.BoolOp) and isinstance(p.op, ast.And):
                    for v in p.values:
                        if v is child:
                            break
                        add(v, True)
                child = p
                p = cfg.parent.get(id(p))
        return frozenset(facts.items()) if facts else None

    def _ext_name(self, fi, call):
        dotted = chain(call.func)
        if not dotted:
            return None
        head = dotted.split(".")[0]
        if head in fi.module.imports:
            return ".".join([fi.module.imports[head]] + dotted.split(".")[1:])
        return dotted

    def _strish(self, fi, e, depth=0):
        """Is the expression a str/bytes derived from parsing (so int() may fail)?"""
        if depth > 3:
            return False
        if isinstance(e, ast.Call) and isinstance(e.func, ast.Attribute) and e.func.attr in STRISH_METHODS:
            return True
        if isinstance(e, ast.Subscript):
            return self._strish(fi, e.value, depth + 1)
        if isinstance(e, ast.Name):
            for n in ast.walk(fi.node):
                if isinstance(n, ast.Assign) and any(isinstance(t, ast.Name) and t.id == e.id for t in n.targets):
                    if self._strish(fi, n.value, depth + 1):
                        return True
                if isinstance(n, (ast.For, ast.comprehension)) and isinstance(n.target, ast.Name) and n.target.id == e.id:
                    if self._strish(fi, n.iter, depth + 1):
                        return True
                if isinstance(n, ast.Assign) and isinstance(n.targets[0], (ast.Tuple, ast.List)) and any(isinstance(t, ast.Name) and t.id == e.id for t in n.targets[0].elts):
                    if self._strish(fi, n.value, depth + 1):
                        return True
        return False

    def _subscript(self, fi, n, st):
        out = set()
        if id(n) in self.dead_nodes:
            return out
        # typed container with __getitem__ in the package
        types = self.res.infer(fi, n.value)
        for t in sorted(types):
            m = self.prog.lookup_method(t, "__getitem__")
            if m is not None:
                self.resolved_edges += 1
                out |= {e.with_via(fi.short) for e in self.escapes(m, None, t)}
        # dict-typed attribute (initialised as {} / dict())
        if isinstance(n.value, ast.Attribute) and chain(n.value.value) == "self" and not isinstance(n.slice, ast.Slice):
            sc = self.res.self_class(fi)
            if sc is not None and self._is_dict_attr(sc, n.value.attr) and not self._key_present(fi, n):
                self.implicit_sites.append((fi.short, stmt_text(n, 60)))
                out.add(Esc("KeyError", fi.short, n.lineno, stmt_text(n, 80)))
        # constant index on a local sequence without a dominating length/truthiness guard
        if isinstance(n.value, ast.Name) and isinstance(n.slice, ast.Constant) and isinstance(n.slice.value, int):
            if self._seq_param_like(fi, n.value.id) and not self._index_guarded(fi, n):
                self.implicit_sites.append((fi.short, stmt_text(n, 60)))
                out.add(Esc("IndexError", fi.short, n.lineno, stmt_text(n, 80)))
        # constant index on an option-list view of a parameter (`request.opt.uri_path[-1]`): tuples that may be empty
        if isinstance(n.value, ast.Attribute) and isinstance(n.slice, (ast.Constant, ast.UnaryOp)) and n.value.attr in ("uri_path", "uri_query", "location_path", "location_query", "etags", "if_match", "request_tag"):
            c = chain(n.value)
            try:
                idx = norm.consteval(n.slice)
            except norm.NormError:
                idx = None
            if c is not None and isinstance(idx, int) and self.res._is_local(fi, c.split(".")[0]) and not self._chain_index_guarded(fi, n, c):
                self.implicit_sites.append((fi.short, stmt_text(n, 60)))
                out.add(Esc("IndexError", fi.short, n.lineno, stmt_text(n, 80)))
        return out

    def _key_present(self, fi, n):
        """`self.d[k]` cannot raise KeyError where a test `k in self.d` (true) / `k not in self.d` (false)
        dominates it and neither k nor self.d is written in between (no store to the names of k, no
        mutating call / subscript store / del on self.d on any path from the test to the read), or where
        `self.d[k] = v` / `self.d.setdefault(k, ..)` with the same key dominates it in the same way."""
        if isinstance(fi.node, ast.Lambda):
            return False
        try:
            from .cfg import cfg_of
            cfg = cfg_of(fi)
            nids = cfg.locate(n)
            if not nids:
                # expression inside a statement: locate the enclosing statement
                cur = n
                while cur is not None and not nids:
                    cur = cfg.parent.get(id(cur))
                    if cur is None:
                        break
                    nids = cfg.locate(cur)
            if not nids:
                return False
        except Exception:
            return False
        dchain = chain(n.value)
        key = dump(n.slice)
        keynames = {x.id for x in ast.walk(n.slice) if isinstance(x, ast.Name)}
        MUT = {"pop", "popitem", "clear", "update", "setdefault", "__delitem__"}

        def disturbs(node):
            a = node.ast
            if a is None or node.kind in ("T", "F"):
                return False
            for x in walk_no_nested(a):
                if isinstance(x, ast.Name) and isinstance(x.ctx, (ast.Store, ast.Del)) and x.id in keynames:
                    return True
                if isinstance(x, ast.Call) and isinstance(x.func, ast.Attribute) and x.func.attr in MUT - {"setdefault", "update"} and chain(x.func.value) == dchain:
                    return True
                if isinstance(x, ast.Delete):
                    for t in x.targets:
                        if isinstance(t, ast.Subscript) and chain(t.value) == dchain:
                            return True
                if isinstance(x, ast.Attribute) and isinstance(x.ctx, ast.Store) and chain(x) == dchain:
                    return True
                if isinstance(x, (ast.Await, ast.Yield, ast.YieldFrom)):
                    return True
            return False

        for nid in nids:
            ok = False
            for d in cfg.dominators(nid):
                dn = cfg.nodes[d]
                est = False
                if dn.kind in ("T", "F") and isinstance(dn.ast, ast.Compare) and len(dn.ast.ops) == 1 and chain(dn.ast.comparators[0]) == dchain and dump(dn.ast.left) == key:
                    op = dn.ast.ops[0]
                    est = (isinstance(op, ast.In) and dn.kind == "T") or (isinstance(op, ast.NotIn) and dn.kind == "F")
                elif dn.kind == "stmt" and isinstance(dn.ast, ast.Assign) and any(isinstance(t, ast.Subscript) and chain(t.value) == dchain and dump(t.slice) == key for t in dn.ast.targets):
                    est = True
                elif dn.kind == "stmt" and isinstance(dn.ast, ast.Expr) and isinstance(dn.ast.value, ast.Call) and isinstance(dn.ast.value.func, ast.Attribute) and dn.ast.value.func.attr == "setdefault" and chain(dn.ast.value.func.value) == dchain and dn.ast.value.args and dump(dn.ast.value.args[0]) == key:
                    est = True
                if not est or d == nid:
                    continue
                # nothing on any path from d to nid may disturb the fact
                back = set()
                todo = [nid]
                while todo:
                    x = todo.pop()
                    for pr, _lab in cfg.pred[x]:
                        if pr not in back:
                            back.add(pr)
                            todo.append(pr)
                between = cfg.reach({d}) & back
                if not any(disturbs(cfg.nodes[b]) for b in between if b not in (d, nid)):
                    ok = True
                    break
            if not ok:
                return False
        self.lemmas_used.append("KEY-PRESENT %s in %s: dominated by a membership test / insertion of the same key" % (stmt_text(n, 50), fi.short))
        return True

    def _is_dict_attr(self, sc, attr):
        for k in self.prog.mro(sc.qn):
            ci = self.prog.classes.get(k)
            if not ci:
                continue
            for m in ci.methods.values():
                for a in walk_no_nested(m.node):
                    if isinstance(a, (ast.Assign, ast.AnnAssign)):
                        tgts = a.targets if isinstance(a, ast.Assign) else [a.target]
                        for t in tgts:
                            if isinstance(t, ast.Attribute) and t.attr == attr and chain(t.value) == "self" and a.value is not None:
                                if isinstance(a.value, ast.Dict) or (isinstance(a.value, ast.Call) and chain(a.value.func) in ("dict", "collections.OrderedDict", "collections.defaultdict")):
                                    return True
        return False

    def _seq_param_like(self, fi, name):
        """bytes/str/tuple typed local: a parameter, or a slice/attribute of one."""
        a = fi.node.args
        if any(x.arg == name for x in a.posonlyargs + a.args + a.kwonlyargs):
            return True
        for n in walk_no_nested(fi.node):
            if isinstance(n, ast.Assign) and any(isinstance(t, ast.Name) and t.id == name for t in n.targets):
                v = n.value
                if isinstance(v, ast.Subscript) and isinstance(v.slice, ast.Slice):
                    return True
                if isinstance(v, ast.Attribute) and v.attr in ("payload", "oscore", "token"):
                    return True
            if isinstance(n, ast.Assign) and isinstance(n.targets[0], (ast.Tuple, ast.List)):
                if any(isinstance(t, ast.Name) and t.id == name for t in n.targets[0].elts):
                    return True
        return False

    def _index_guarded(self, fi, sub):
        name = sub.value.id
        idx = sub.slice.value
        cfg = cfg_of(fi)
        nodes = cfg.locate(sub)
        if not nodes:
            return True
        nid = nodes[0]
        # comprehension / conditional expression guards are out of scope: treat `x[0] if x else` as guarded
        p = cfg.parent.get(id(sub))
        while p is not None and not isinstance(p, ast.stmt):
            if isinstance(p, ast.IfExp) and name in {m.id for m in ast.walk(p.test) if isinstance(m, ast.Name)}:
                return True
            if isinstance(p, ast.BoolOp):
                # `x and x[0]`
                for v in p.values:
                    if any(m is sub for m in ast.walk(v)):
                        break
                    if name in {m.id for m in ast.walk(v) if isinstance(m, ast.Name)}:
                        return True
            p = cfg.parent.get(id(p))
        writes = []
        from .rulekit import writes_to_name
        for w in writes_to_name(fi.node, name):
            writes.extend(cfg.locate(w))
        # a test node for the same statement (while rawdata[0] ...) is its own node; guards are T/F pseudo nodes
        for e, pol, g in cfg.guards(nid):
            if not self._mentions_len_or_truth(e, name):
                continue
            # no write to the name between the guard and the use
            clean = True
            for w in writes:
                if w == nid:
                    continue
                if w in cfg.reach({g}, avoid={g}) and nid in cfg.reach({w}, avoid={g}):
                    clean = False
            if clean:
                return True
        return False

    def _chain_index_guarded(self, fi, sub, c):
        """Is the subscript dominated by a truthiness / len() guard on the same attribute chain?"""
        cfg = cfg_of(fi)
        nodes = cfg.locate(sub)
        if not nodes:
            return True
        for e, pol, g in cfg.guards(nodes[0]):
            if chain(e) == c and pol:
                return True
            for x in ast.walk(e):
                if isinstance(x, ast.Call) and chain(x.func) == "len" and x.args and chain(x.args[0]) == c:
                    return True
        return False

    def _mentions_len_or_truth(self, e, name):
        if isinstance(e, ast.Name) and e.id == name:
            return True
        for n in ast.walk(e):
            if isinstance(n, ast.Call) and chain(n.func) == "len" and n.args and isinstance(n.args[0], ast.Name) and n.args[0].id == name:
                return True
            if isinstance(n, ast.Compare) and isinstance(n.left, ast.Name) and n.left.id == name and isinstance(n.ops[0], (ast.Eq, ast.NotEq)):
                return True
        return False

    def _call(self, fi, call, shape, st):
        out = set()
        f = call.func
        if id(call) in self.dead_nodes:
            return out
        # implicit raisers keyed on method name + literal argument
        if isinstance(f, ast.Attribute):
            if f.attr == "decode" and (not call.args or (isinstance(call.args[0], ast.Constant) and isinstance(call.args[0].value, str))) and not call.keywords:
                if not call.args or call.args[0].value.lower().replace("-", "") in ("utf8", "ascii", "utf16", "latin1") :
                    if not call.args or call.args[0].value.lower().replace("-", "") != "latin1":
                        self.implicit_sites.append((fi.short, stmt_text(call, 60)))
                        out.add(Esc("UnicodeDecodeError", fi.short, call.lineno, stmt_text(call, 80)))
                        return out
            if f.attr == "encode" and call.args and isinstance(call.args[0], ast.Constant) and call.args[0].value in ("ascii", "latin-1", "latin1"):
                self.implicit_sites.append((fi.short, stmt_text(call, 60)))
                out.add(Esc("UnicodeEncodeError", fi.short, call.lineno, stmt_text(call, 80)))
                return out
        if isinstance(f, ast.Attribute) and f.attr in ("debug", "info", "warning", "error", "exception", "critical", "warn") and call.keywords:
            # logging.Logger methods take exc_info / stack_info / stacklevel / extra only: any other keyword raises
            # TypeError at the call (receiver must look like a logger: `log`, `self.log`, `logger`, `logging`, ...)
            recv = (chain(f.value) or "").split(".")[-1]
            if recv in ("log", "logger", "logging", "_log", "_logger") or recv.endswith("log"):
                bad = [k.arg for k in call.keywords if k.arg is not None and k.arg not in ("exc_info", "stack_info", "stacklevel", "extra")]
                if bad:
                    self.implicit_sites.append((fi.short, stmt_text(call, 60)))
                    out.add(Esc("TypeError", fi.short, call.lineno, "logging call with unsupported keyword %s: %s" % (bad[0], stmt_text(call, 60))))
        if isinstance(f, ast.Name) and f.id == "int" and len(call.args) >= 1 and not self.res._is_local(fi, "int"):
            if self._strish(fi, call.args[0]) or len(call.args) == 2:
                self.implicit_sites.append((fi.short, stmt_text(call, 60)))
                out.add(Esc("ValueError", fi.short, call.lineno, stmt_text(call, 80)))
            return out
        callees, kind = self.res.resolve_callees(fi, call)
        if kind.startswith("external:"):
            name = kind[9:]
            self.external_calls[name] = self.external_calls.get(name, 0) + 1
            if name in ("urllib.parse.unquote", "urllib.parse.unquote_plus") and any(k.arg == "errors" and isinstance(k.value, ast.Constant) and k.value.value == "strict" for k in call.keywords):
                out.add(Esc("UnicodeDecodeError", fi.short, call.lineno, stmt_text(call, 80)))
            for cls in self.ext.get(name, []):
                out.add(Esc(cls, fi.short, call.lineno, stmt_text(call, 80)))
            # closed Enum construction handled by the caller rule (needs class info) -- see enum_ctor
            return out
        if kind == "unresolved":
            self.unresolved.append((fi.short, stmt_text(call, 80)))
            return out
        if kind == "class":
            # closed enum?
            c = self.res.class_of_name(fi, chain(f))
            if c and self._closed_enum(c) and call.args:
                if not self._enum_arg_in_range(fi, c, call.args[0]):
                    out.add(Esc("ValueError", fi.short, call.lineno, stmt_text(call, 80)))
                else:
                    self.lemmas_used.append("L4 %s: argument bit-range equals the member values" % stmt_text(call, 60))
        rf = self._receiver_facts(fi, call) if callees else None
        for callee, sc in callees:
            self.resolved_edges += 1
            sh = self.shape_for(fi, call, callee)
            if rf:
                sh = frozenset(set(sh) | {("@selffacts", ("facts", rf))})
            before = len(out)
            out |= {e.with_via(fi.short) for e in self.escapes(callee, sh, sc)}
        return out

    def _closed_enum(self, c):
        m = self.prog.mro(c)
        if "aiocoap.util.ExtensibleIntEnum" in m:
            return False
        return any(x.split(".")[-1] in ("Enum", "IntEnum", "IntFlag", "Flag") for x in m)

    def _enum_arg_in_range(self, fi, c, arg):
        ci = self.prog.classes[c]
        members = set()
        for k, v in ci.attrs.items():
            try:
                val = norm.consteval(v)
            except norm.NormError:
                return False
            if isinstance(val, int):
                members.add(val)
        try:
            fields = norm.bitfields(arg, norm.local_env(fi.node))
        except norm.NormError:
            return False
        if len(fields) == 1 and fields[0][0] != "const":
            a, slo, w, dlo = fields[0]
            if w is not None and dlo == 0:
                return set(range(2 ** w)) <= members
        return False
