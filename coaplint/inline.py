"""E0b normalisation: macro-expansion of helper functions that are not part of
the confirmed anchor table.

The rule modules are written against the functions that exist on the tree the
rule instances were confirmed on (coaplint/baseline_functions.txt: names only).
A later change may move part of an anchored function into a new helper
(`_dispatch_response`, `_give_up_exchange`, ...); the behaviour is the same,
and so must be the verdict.  Before the program is indexed, every call to a
function that is *not* in the baseline table is therefore replaced by the
callee's body (parameters bound to the arguments), so the rules see the
anchored function with the helper expanded in place -- the same treatment a C
checker gives a macro or an `inline` function.  Helpers that were expanded at
every use are removed from the index; helpers that could not be expanded
(generators, recursion, returns inside loops, *args) stay as they are, and the
rules see the call.

Nothing is executed; the pass is a pure AST rewrite and is reported in the
evidence (`inlined_helpers`).
"""

import ast
import copy
import os

_BASE = None


def baseline():
    global _BASE
    if _BASE is None:
        p = os.path.join(os.path.dirname(os.path.abspath(__file__)), "baseline_functions.txt")
        with open(p, encoding="utf-8") as f:
            _BASE = {l.strip() for l in f if l.strip() and not l.startswith("#")}
    return _BASE


def _own_nodes(fn):
    """nodes of fn's own body (not nested defs/lambdas/classes)."""
    todo = list(fn.body)
    while todo:
        n = todo.pop()
        yield n
        if isinstance(n, (ast.FunctionDef, ast.AsyncFunctionDef, ast.Lambda, ast.ClassDef)):
            continue
        todo.extend(ast.iter_child_nodes(n))


def _strip_doc(body):
    if body and isinstance(body[0], ast.Expr) and isinstance(body[0].value, ast.Constant) and isinstance(body[0].value.value, str):
        return body[1:]
    return body


def _is_simple(e):
    """expressions that may be substituted for a parameter any number of times"""
    if isinstance(e, ast.Constant):
        return True
    if isinstance(e, ast.Name):
        return True
    if isinstance(e, ast.Attribute):
        return _is_simple(e.value)
    if isinstance(e, ast.Subscript):
        return _is_simple(e.value) and isinstance(e.slice, (ast.Constant, ast.Name))
    return False


class _Subst(ast.NodeTransformer):
    def __init__(self, mapping, rename):
        self.mapping = mapping
        self.rename = rename

    def visit_Name(self, n):
        if n.id in self.mapping and isinstance(n.ctx, ast.Load):
            return ast.copy_location(copy.deepcopy(self.mapping[n.id]), n)
        if n.id in self.rename:
            return ast.copy_location(ast.Name(id=self.rename[n.id], ctx=n.ctx), n)
        return n

    def _scoped(self, n, bound):
        # nested scopes: parameters of the nested scope shadow
        saved = (self.mapping, self.rename)
        self.mapping = {k: v for k, v in self.mapping.items() if k not in bound}
        self.rename = {k: v for k, v in self.rename.items() if k not in bound}
        self.generic_visit(n)
        self.mapping, self.rename = saved
        return n

    def visit_Lambda(self, n):
        a = n.args
        bound = {x.arg for x in a.posonlyargs + a.args + a.kwonlyargs}
        return self._scoped(n, bound)

    def visit_FunctionDef(self, n):
        a = n.args
        bound = {x.arg for x in a.posonlyargs + a.args + a.kwonlyargs}
        if a.vararg:
            bound.add(a.vararg.arg)
        if a.kwarg:
            bound.add(a.kwarg.arg)
        if n.name in self.rename:
            n.name = self.rename[n.name]
        return self._scoped(n, bound)

    visit_AsyncFunctionDef = visit_FunctionDef


class Helper:
    def __init__(self, qn, node, modname, clsqn, kind, nested_in=None):
        self.qn = qn
        self.node = node
        self.modname = modname
        self.clsqn = clsqn
        self.kind = kind  # "function" | "method" | "static" | "class"
        self.nested_in = nested_in
        self.uses = 0
        self.inlined = 0
        self.why_not = None  # not eligible at all
        self.last_fail = None  # why the last attempted expansion at some site failed


def _decorator_kind(fn):
    kinds = []
    for d in fn.decorator_list:
        t = ast.unparse(d)
        if t in ("staticmethod",):
            kinds.append("static")
        elif t in ("classmethod",):
            kinds.append("class")
        else:
            return None
    if len(kinds) > 1:
        return None
    return kinds[0] if kinds else "plain"


def _captures_frame(fn):
    """does the helper create a deferred body (lambda, nested def, generator expression) that refers to one of
    the helper's parameters or locals?  Such a closure captures the helper's per-call frame; expanding the
    helper in place would make it capture the caller's variables instead (late binding in a loop or
    comprehension), which is a different program."""
    a = fn.args
    own = {x.arg for x in a.args + a.kwonlyargs + a.posonlyargs}
    for n in _own_nodes(fn):
        if isinstance(n, ast.Name) and isinstance(n.ctx, ast.Store):
            own.add(n.id)
    consumed = set()  # generator expressions handed straight to something that exhausts them at once
    CONSUMERS = {"any", "all", "sum", "min", "max", "list", "tuple", "set", "frozenset", "dict", "sorted", "next", "len", "bytes", "bytearray"}
    for n in _own_nodes(fn):
        if isinstance(n, ast.Call) and n.args and isinstance(n.args[0], ast.GeneratorExp):
            f = n.func
            name = f.id if isinstance(f, ast.Name) else (f.attr if isinstance(f, ast.Attribute) else None)
            if name in CONSUMERS or name in ("join", "extend", "update", "fromkeys"):
                consumed.add(id(n.args[0]))
    for n in _own_nodes(fn):
        if isinstance(n, ast.GeneratorExp) and id(n) in consumed:
            continue
        if isinstance(n, (ast.Lambda, ast.FunctionDef, ast.AsyncFunctionDef, ast.GeneratorExp)):
            bound = set()
            if isinstance(n, (ast.Lambda, ast.FunctionDef, ast.AsyncFunctionDef)):
                bound = {x.arg for x in n.args.args + n.args.kwonlyargs + n.args.posonlyargs}
                # default values are evaluated at creation time, in the helper's frame: not a capture
                inner = [n.body] if isinstance(n, ast.Lambda) else list(n.body)
            else:
                # the first iterable of a generator expression is evaluated immediately
                inner = [n.elt] + [g for gen in n.generators for g in gen.ifs] + [gen.iter for gen in n.generators[1:]]
                bound = {x.id for gen in n.generators for x in ast.walk(gen.target) if isinstance(x, ast.Name)}
            for part in inner:
                for x in ast.walk(part):
                    if isinstance(x, ast.Name) and isinstance(x.ctx, ast.Load) and x.id in own and x.id not in bound and x.id not in ("self", "cls"):
                        return x.id
    return None


def _eligible(fn):
    """None when fn can be expanded, else the reason it cannot"""
    a = fn.args
    if a.vararg or a.kwarg:
        return "*args/**kwargs"
    cap = _captures_frame(fn)
    if cap is not None:
        return "creates a closure over its own frame (%s)" % cap
    if a.posonlyargs:
        return "positional-only parameters"
    for n in _own_nodes(fn):
        if isinstance(n, (ast.Yield, ast.YieldFrom)):
            return "generator"
        if isinstance(n, (ast.Global, ast.Nonlocal)):
            return "global/nonlocal"
        if isinstance(n, ast.ClassDef):
            return "nested class"
    for n in ast.walk(fn):
        if isinstance(n, ast.Call):
            f = n.func
            if isinstance(f, ast.Name) and f.id == fn.name:
                return "recursive"
            if isinstance(f, ast.Attribute) and f.attr == fn.name and isinstance(f.value, ast.Name) and f.value.id in ("self", "cls"):
                return "recursive"
    return None


def _returns(body):
    out = []
    todo = list(body)
    while todo:
        n = todo.pop()
        if isinstance(n, (ast.FunctionDef, ast.AsyncFunctionDef, ast.Lambda, ast.ClassDef)):
            continue
        if isinstance(n, ast.Return):
            out.append(n)
        todo.extend(ast.iter_child_nodes(n))
    return out


class NotInlinable(Exception):
    pass


def _terminates(body):
    """does every path through the statement list end in return/raise/continue/break?"""
    if not body:
        return False
    last = body[-1]
    if isinstance(last, (ast.Return, ast.Raise, ast.Continue, ast.Break)):
        return True
    if isinstance(last, ast.If):
        return _terminates(last.body) and _terminates(last.orelse)
    if isinstance(last, ast.Try):
        if last.finalbody and _terminates(last.finalbody):
            return True
        main = _terminates(last.orelse) if last.orelse else _terminates(last.body)
        return main and all(_terminates(h.body) for h in last.handlers)
    if isinstance(last, (ast.With, ast.AsyncWith)):
        return _terminates(last.body)
    if isinstance(last, ast.Match):
        return all(_terminates(c.body) for c in last.cases) and any(
            isinstance(c.pattern, ast.MatchAs) and c.pattern.pattern is None and c.guard is None for c in last.cases
        )
    return False


def _structure(body, on_return):
    """Rewrite a helper body so that it contains no `return`: a return at the
    tail of a block becomes on_return(value) (a statement list); a return that
    ends an `if` arm turns the remaining statements into the other arm.
    Returns inside loops / try / with (other than at their very tail position of
    the function) cannot be expressed and raise NotInlinable."""
    out = []
    for i, st in enumerate(body):
        rest = body[i + 1 :]
        if isinstance(st, ast.Return):
            out.extend(on_return(st.value, st))
            return out  # following statements are dead
        if isinstance(st, ast.If) and _returns([st]):
            b_term = _terminates(st.body)
            o_term = _terminates(st.orelse)
            if not rest:
                nb = _structure(st.body, on_return)
                no = _structure(st.orelse, on_return) if st.orelse else []
            elif b_term and not o_term:
                nb = _structure(st.body, on_return)
                no = _structure(list(st.orelse) + rest, on_return)
            elif o_term and not b_term:
                nb = _structure(list(st.body) + rest, on_return)
                no = _structure(st.orelse, on_return)
            elif b_term and o_term:
                nb = _structure(st.body, on_return)
                no = _structure(st.orelse, on_return)
            else:
                # a return somewhere deeper in an arm that does not terminate:
                # push the continuation into both arms
                nb = _structure(list(st.body) + copy.deepcopy(rest), on_return)
                no = _structure(list(st.orelse) + rest, on_return)
            new = ast.copy_location(ast.If(test=st.test, body=nb or [ast.copy_location(ast.Pass(), st)], orelse=no), st)
            out.append(new)
            return out
        if isinstance(st, ast.Raise):
            out.append(st)
            return out
        if _returns([st]):
            if isinstance(st, (ast.With, ast.AsyncWith)) and not rest:
                st = copy.copy(st)
                st.body = _structure(st.body, on_return) or [ast.copy_location(ast.Pass(), st)]
                out.append(st)
                return out
            if isinstance(st, ast.Try) and not rest and not st.finalbody:
                st = copy.copy(st)
                if st.orelse:
                    if _returns(st.body):
                        raise NotInlinable("return inside try body with else")
                    st.orelse = _structure(st.orelse, on_return)
                else:
                    st.body = _structure(st.body, on_return) or [ast.copy_location(ast.Pass(), st)]
                hs = []
                for h in st.handlers:
                    h = copy.copy(h)
                    h.body = _structure(h.body, on_return) or [ast.copy_location(ast.Pass(), h)]
                    hs.append(h)
                st.handlers = hs
                out.append(st)
                return out
            raise NotInlinable("return inside %s" % type(st).__name__)
        out.append(st)
    out.extend(on_return(None, None) if on_return.at_fallthrough else [])
    return out



def _expressionize(body, env=None, depth=0):
    """Turn a helper body made of pure single-assignment bindings, if/else ladders, search loops and returns into
    ONE expression (conditional-expression tree), or raise NotInlinable.  `if c: return a` + rest becomes
    `a if c else <rest>`; `for x in it: if t: return v` + `return w` becomes `any(t for x in it)` (v, w = True,
    False), `not any(...)` (False, True) or `next((v for x in it if t), w)`.  Evaluation order is that of the
    statements; bindings are substituted, so they must be effect-free."""
    env = dict(env or {})
    if depth > 12:
        raise NotInlinable("helper too deeply nested to express as one expression")

    def sub(e):
        if not env:
            return copy.deepcopy(e)
        return _Subst(env, {}).visit(copy.deepcopy(e))

    body = _strip_doc(list(body))
    for i, st in enumerate(body):
        rest = body[i + 1 :]
        if isinstance(st, ast.Return):
            return sub(st.value) if st.value is not None else ast.Constant(value=None)
        if isinstance(st, ast.Assign) and len(st.targets) == 1 and isinstance(st.targets[0], ast.Name):
            v = sub(st.value)
            if _has_effect(v) and not _is_pure(v):
                raise NotInlinable("binding with an effect")
            env[st.targets[0].id] = v
            continue
        if isinstance(st, ast.If):
            t = sub(st.test)
            a = _expressionize(list(st.body) + ([] if _terminates(st.body) else rest), env, depth + 1)
            b = _expressionize(list(st.orelse) + ([] if (st.orelse and _terminates(st.orelse)) else rest), env, depth + 1)
            return ast.IfExp(test=t, body=a, orelse=b)
        if isinstance(st, ast.For) and not st.orelse and len(st.body) == 1 and isinstance(st.body[0], ast.If) and not st.body[0].orelse \
                and len(st.body[0].body) == 1 and isinstance(st.body[0].body[0], ast.Return) and rest and isinstance(rest[0], ast.Return):
            inner = st.body[0]
            v = inner.body[0].value
            w = rest[0].value
            gen = ast.comprehension(target=copy.deepcopy(st.target), iter=sub(st.iter), ifs=[], is_async=0)
            shadow = {n.id for n in ast.walk(st.target) if isinstance(n, ast.Name)}
            saved = env
            env = {k: x for k, x in env.items() if k not in shadow}
            test = sub(inner.test)
            vv = sub(v) if v is not None else ast.Constant(value=None)
            env = saved
            ww = sub(w) if w is not None else ast.Constant(value=None)

            def isconst(x, val):
                return isinstance(x, ast.Constant) and x.value is val

            if isconst(vv, True) and isconst(ww, False):
                return ast.Call(func=ast.Name(id="any", ctx=ast.Load()), args=[ast.GeneratorExp(elt=test, generators=[gen])], keywords=[])
            if isconst(vv, False) and isconst(ww, True):
                return ast.UnaryOp(op=ast.Not(), operand=ast.Call(func=ast.Name(id="any", ctx=ast.Load()), args=[ast.GeneratorExp(elt=test, generators=[gen])], keywords=[]))
            raise NotInlinable("search loop returning a value (only boolean search loops are expressed, as any(...))")
        if isinstance(st, ast.Pass):
            continue
        if isinstance(st, ast.Expr) and isinstance(st.value, ast.Constant):
            continue
        raise NotInlinable("statement %s cannot be part of an expression" % type(st).__name__)
    return ast.Constant(value=None)


def _foreign_method_names():
    """method names of the builtin and standard-library types the package
    handles all the time; a call `recv.<name>(...)` on a receiver whose class
    is not known is never resolved to a package helper of that name."""
    import asyncio
    import collections
    import logging
    import socket
    import weakref

    names = set()
    for t in (dict, list, set, frozenset, tuple, str, bytes, bytearray, int, float, memoryview, object,
              collections.deque, collections.OrderedDict, collections.defaultdict, collections.Counter,
              asyncio.Future, asyncio.Task, asyncio.Queue, asyncio.Event, asyncio.Lock, asyncio.Semaphore,
              asyncio.AbstractEventLoop, asyncio.BaseTransport, asyncio.Transport, asyncio.DatagramTransport,
              asyncio.BaseProtocol, asyncio.Protocol, asyncio.DatagramProtocol, asyncio.TimerHandle, asyncio.Handle,
              asyncio.StreamReader, asyncio.StreamWriter, asyncio.AbstractServer,
              logging.Logger, socket.socket, weakref.WeakValueDictionary, weakref.WeakKeyDictionary, weakref.WeakSet):
        names.update(n for n in dir(t) if not n.startswith("__"))
    return frozenset(names)


_FOREIGN_METHOD_NAMES = _foreign_method_names()


class Inliner:
    def __init__(self, modules, depth=4):
        self.modules = modules  # name -> model.Module
        self.depth = depth
        self.base = baseline()
        self.helpers = {}  # qn -> Helper
        self.by_name = {}
        self.class_bases = {}  # clsqn -> [base names as written]
        self.class_methods = {}  # clsqn -> {name}
        self.report = []
        self._tmp = 0

    # -- discovery ---------------------------------------------------------
    def discover(self):
        for m in self.modules.values():
            self._scan(m, m.tree.body, m.name, None)
        for h in self.helpers.values():
            self.by_name.setdefault(h.node.name, []).append(h)

    def _scan(self, m, body, prefix, clsqn):
        for node in body:
            if isinstance(node, (ast.FunctionDef, ast.AsyncFunctionDef)):
                qn = prefix + "." + node.name
                if clsqn is not None:
                    self.class_methods.setdefault(clsqn, set()).add(node.name)
                if qn not in self.base and not (node.name.startswith("__") and node.name.endswith("__")):
                    dk = _decorator_kind(node)
                    if dk is None:
                        continue
                    kind = "function" if clsqn is None else {"plain": "method", "static": "static", "class": "class"}[dk]
                    if clsqn is None and dk != "plain":
                        continue
                    h = Helper(qn, node, m.name, clsqn, kind)
                    h.why_not = _eligible(node)
                    self.helpers[qn] = h
            elif isinstance(node, ast.ClassDef):
                qn = prefix + "." + node.name
                self.class_bases[qn] = [ast.unparse(b) for b in node.bases]
                self.class_methods.setdefault(qn, set())
                self._scan(m, node.body, qn, qn)
            elif isinstance(node, (ast.If, ast.Try)):
                for sub in ("body", "orelse", "finalbody"):
                    self._scan(m, getattr(node, sub, []) or [], prefix, clsqn)
                for hd in getattr(node, "handlers", []) or []:
                    self._scan(m, hd.body, prefix, clsqn)

    # -- resolution ----------------------------------------------------------
    def _family(self, clsqn):
        """class and its ancestors that live in the same module (by simple name)."""
        out = []
        seen = set()
        todo = [clsqn]
        while todo:
            c = todo.pop(0)
            if c in seen or c not in self.class_bases:
                continue
            seen.add(c)
            out.append(c)
            mod = c.rsplit(".", 1)[0]
            for b in self.class_bases[c]:
                b = b.split("[")[0]
                cand = [q for q in self.class_bases if q.endswith("." + b.split(".")[-1])]
                same = [q for q in cand if q.rsplit(".", 1)[0] == mod]
                todo.extend(same or cand[:1])
        return out

    def _overridden(self, clsqn, name):
        """is `name` defined in more than one class related to clsqn (an override
        somewhere below or above)?  then the call is dynamically dispatched."""
        n = 0
        for c, ms in self.class_methods.items():
            if name in ms and (c == clsqn or clsqn in self._family(c) or c in self._family(clsqn)):
                n += 1
        return n > 1

    def resolve(self, call, m, clsqn, local_helpers):
        f = call.func
        if isinstance(f, ast.Name):
            if f.id in local_helpers:
                return local_helpers[f.id], None
            h = self.helpers.get(m.name + "." + f.id)
            if h is None and f.id in m.imports:
                h = self.helpers.get(m.imports[f.id])
            if h is not None and h.kind == "function":
                return h, None
            return None, None
        if isinstance(f, ast.Attribute):
            recv = f.value
            rt = ast.unparse(recv)
            if rt in ("self", "cls", "type(self)", "self.__class__") and clsqn is not None:
                for c in self._family(clsqn):
                    h = self.helpers.get(c + "." + f.attr)
                    if h is not None:
                        if self._overridden(c, f.attr):
                            return None, None
                        return h, recv
                    if f.attr in self.class_methods.get(c, ()):
                        return None, None
                return None, None
            # ClassName.helper(...)
            if isinstance(recv, ast.Name):
                for q in self.class_bases:
                    if q == m.name + "." + recv.id or (recv.id in m.imports and q == m.imports[recv.id]):
                        h = self.helpers.get(q + "." + f.attr)
                        if h is not None and h.kind in ("static", "class"):
                            return h, recv
                # module.helper(...)
                if recv.id in m.imports:
                    h = self.helpers.get(m.imports[recv.id] + "." + f.attr)
                    if h is not None and h.kind == "function":
                        return h, None
            # other receiver: unique new method of that name in the package
            cands = [h for h in self.by_name.get(f.attr, []) if h.kind == "method"]
            if f.attr in _FOREIGN_METHOD_NAMES:
                # `x.pop(...)` on an untyped receiver is far more likely the
                # container's own method than a new package method of that name
                cands = []
            if len(cands) == 1 and not self._overridden(cands[0].clsqn, f.attr):
                # the name must not also be a baseline method of some class
                if not any(f.attr in ms and c != cands[0].clsqn for c, ms in self.class_methods.items()):
                    return cands[0], recv
        return None, None

    # -- expansion -------------------------------------------------------------
    def _bind(self, h, call, recv, caller_names, expr_body=None):
        """-> (mapping param->expr, prelude statements, rename dict)"""
        fn = h.node
        a = fn.args
        ps = [x.arg for x in a.args]
        mapping = {}
        prelude = []
        if h.kind == "method":
            if not ps:
                raise NotInlinable("method without self")
            mapping[ps[0]] = recv
            ps = ps[1:]
        elif h.kind == "class":
            if not ps:
                raise NotInlinable("classmethod without cls")
            rt = ast.unparse(recv)
            if rt == "self":
                mapping[ps[0]] = ast.parse("type(self)", mode="eval").body
            else:
                mapping[ps[0]] = recv
            ps = ps[1:]
        elif h.kind == "static":
            pass
        defaults = dict(zip([x.arg for x in a.args][len(a.args) - len(a.defaults) :], a.defaults))
        for k, d in zip(a.kwonlyargs, a.kw_defaults):
            if d is not None:
                defaults[k.arg] = d
        allps = ps + [k.arg for k in a.kwonlyargs]
        bound = {}
        pos = list(call.args)
        i = 0
        star_rest = None
        for j, arg in enumerate(pos):
            if isinstance(arg, ast.Starred):
                if j != len(pos) - 1 or call.keywords:
                    raise NotInlinable("starred argument not last")
                star_rest = (arg.value, ps[i:])
                i = len(ps)
                break
            if i >= len(ps):
                raise NotInlinable("too many positional arguments")
            bound[ps[i]] = arg
            i += 1
        for kw in call.keywords:
            if kw.arg is None:
                raise NotInlinable("**kwargs at call")
            if kw.arg not in allps or kw.arg in bound:
                raise NotInlinable("unknown keyword %s" % kw.arg)
            bound[kw.arg] = kw.value
        assigned = set()
        uses = {}
        for n in (ast.walk(expr_body) if expr_body is not None else ast.walk(fn)):
            if isinstance(n, ast.Name):
                if isinstance(n.ctx, ast.Store):
                    assigned.add(n.id)
                else:
                    uses[n.id] = uses.get(n.id, 0) + 1
            elif isinstance(n, ast.arg):
                pass
        # helper locals that clash with caller names are renamed
        rename = {}
        locals_ = {n for n in assigned} | {n.name for n in _own_nodes(fn) if isinstance(n, (ast.FunctionDef, ast.AsyncFunctionDef))}
        for n in _own_nodes(fn):
            if isinstance(n, ast.ExceptHandler) and n.name:
                locals_.add(n.name)
        star_targets = set(star_rest[1]) if star_rest else set()
        for p in allps:
            if p in star_targets:
                continue
            if p in bound:
                e = bound[p]
            elif p in defaults:
                e = defaults[p]
                # a default is evaluated once, when the `def` statement runs -- not at the call: only a literal
                # (or, for helpers defined at module/class level, a plain name/attribute chain read at import
                # time) may be moved to the call site.  `def h(r, _id=current): ...` captures `current` early.
                lit = isinstance(e, ast.Constant) or (isinstance(e, ast.UnaryOp) and isinstance(e.operand, ast.Constant)) or (isinstance(e, (ast.Tuple, ast.List, ast.Dict, ast.Set)) and not any(True for _ in ast.iter_child_nodes(e) if isinstance(_, ast.expr)))
                if not lit and not (h.nested_in is None and _is_simple(e)):
                    raise NotInlinable("default argument %s=%s is evaluated at definition time" % (p, ast.unparse(e)[:40]))
            else:
                raise NotInlinable("parameter %s unbound" % p)
            direct = _is_simple(e) or (uses.get(p, 0) <= 1 and not _has_effect(e))
            if direct and not isinstance(e, (ast.Name, ast.Constant)):
                # an argument that reads object state is evaluated at the call, before the helper's own
                # stores: substitute it only if the helper stores to nothing the argument reads
                achains = _chains(e)
                for n in ast.walk(fn):
                    if isinstance(n, ast.Attribute) and isinstance(n.ctx, (ast.Store, ast.Del)):
                        ch = ast.unparse(n)
                        root_param = ch.split(".")[0]
                        # the helper's `self.x` is the receiver's x: compare through the receiver mapping
                        if root_param in mapping and not isinstance(mapping[root_param], ast.Constant):
                            ch = ast.unparse(mapping[root_param]) + ch[len(root_param):]
                        if any(ch == r or r.startswith(ch + ".") or ch.startswith(r + ".") for r in achains):
                            direct = False
                            break
                    elif isinstance(n, (ast.AugAssign,)) and isinstance(n.target, ast.Attribute):
                        pass
            if p in assigned or not direct:
                # bind through a local
                if isinstance(e, ast.Name) and e.id == p and p not in assigned:
                    continue
                name = p
                if name in caller_names and not (isinstance(e, ast.Name) and e.id == p):
                    name = self._fresh(p, caller_names)
                    rename[p] = name
                prelude.append(ast.Assign(targets=[ast.Name(id=name, ctx=ast.Store())], value=e))
                caller_names.add(name)
            else:
                if isinstance(e, ast.Name) and e.id == p:
                    continue
                mapping[p] = e
        if star_rest:
            val, targets = star_rest
            if not targets:
                raise NotInlinable("star with no remaining parameters")
            tnames = []
            for p in targets:
                name = p
                if name in caller_names:
                    name = self._fresh(p, caller_names)
                    rename[p] = name
                caller_names.add(name)
                tnames.append(ast.Name(id=name, ctx=ast.Store()))
            prelude.append(ast.Assign(targets=[ast.Tuple(elts=tnames, ctx=ast.Store())], value=val))
        for l in sorted(locals_ - set(allps) - set(mapping)):
            if l in caller_names:
                rename[l] = self._fresh(l, caller_names)
                caller_names.add(rename[l])
            else:
                caller_names.add(l)
        return mapping, prelude, rename

    def _fresh(self, base, taken):
        k = 1
        while "%s_h%d" % (base, k) in taken:
            k += 1
        return "%s_h%d" % (base, k)

    def expand_stmt(self, h, call, recv, context, target_stmt, caller_names):
        """context: 'expr' | 'assign' | 'return'.  -> list of statements"""
        if h.why_not:
            raise NotInlinable(h.why_not)
        mapping, prelude, rename = self._bind(h, call, recv, caller_names)
        body = copy.deepcopy(_strip_doc(h.node.body))
        sub = _Subst(mapping, rename)
        body = [sub.visit(st) for st in body]
        if context == "return":
            res = list(body)
            if not _terminates(res):
                res.append(ast.Return(value=None))
        else:
            if context == "assign":
                def on_return(v, st):
                    new = copy.copy(target_stmt)
                    new.value = v if v is not None else ast.Constant(value=None)
                    return [new]
                on_return.at_fallthrough = True
            else:
                def on_return(v, st):
                    if v is not None and _has_effect(v):
                        return [ast.Expr(value=v)]
                    return []
                on_return.at_fallthrough = False
            res = _structure(body, on_return)
        out = prelude + res
        if not out:
            out = [ast.Pass()]
        for st in out:
            for n in ast.walk(st):
                if not hasattr(n, "lineno") and isinstance(n, (ast.stmt, ast.expr)):
                    ast.copy_location(n, call)
            ast.fix_missing_locations(st)
        return out

    def expand_expr(self, h, call, recv, caller_names):
        """single-return helper used inside an expression"""
        if h.why_not:
            raise NotInlinable(h.why_not)
        body = _strip_doc(h.node.body)
        if len(body) == 1 and isinstance(body[0], ast.Return) and body[0].value is not None:
            e0 = copy.deepcopy(body[0].value)
            multi = False
        else:
            e0 = _expressionize(body)
            multi = True
        mapping, prelude, rename = self._bind(h, call, recv, set(caller_names), expr_body=e0 if multi else None)
        if prelude:
            raise NotInlinable("argument needs a temporary inside an expression")
        e = _Subst(mapping, {}).visit(e0)
        ast.copy_location(e, call)
        ast.fix_missing_locations(e)
        return e

    # -- driver ---------------------------------------------------------------------
    def run(self):
        self.discover()
        for _round in range(self.depth):
            changed = False
            for m in self.modules.values():
                if self._rewrite_scope(m, m.tree.body, m.name, None):
                    changed = True
            if not changed:
                break
        # remove helpers that are no longer referenced anywhere
        for h in self.helpers.values():
            h.refs = 0
        names = {}
        for h in self.helpers.values():
            names.setdefault(h.node.name, []).append(h)

        def related(c1, c2):
            return c1 == c2 or c1 in self._family(c2) or c2 in self._family(c1)

        def count(m, body, prefix, clsqn):
            for node in body:
                if isinstance(node, ast.ClassDef):
                    q = prefix + "." + node.name
                    count(m, node.body, q, q)
                    continue
                for n in ast.walk(node):
                    if isinstance(n, ast.Attribute) and n.attr in names:
                        on_self = isinstance(n.value, ast.Name) and n.value.id in ("self", "cls")
                        for h in names[n.attr]:
                            if h.clsqn is None:
                                if isinstance(n.value, ast.Name) and n.value.id in m.imports and m.imports[n.value.id] == h.modname:
                                    h.refs += 1
                            elif on_self and clsqn is not None:
                                if related(h.clsqn, clsqn):
                                    h.refs += 1
                            else:
                                h.refs += 1  # other receiver: may be any helper of that name
                    elif isinstance(n, ast.Name) and n.id in names and isinstance(n.ctx, ast.Load):
                        for h in names[n.id]:
                            if h.clsqn is None and (h.modname == m.name or m.imports.get(n.id, "").startswith(h.modname + ".")):
                                h.refs += 1
                            elif h.clsqn is not None and clsqn is not None and related(h.clsqn, clsqn):
                                h.refs += 1  # bare name inside the class body (e.g. used in a class-level table)
                    elif isinstance(n, ast.alias) and n.name in names:
                        for h in names[n.name]:
                            if h.clsqn is None:
                                h.refs += 1
                    elif isinstance(n, ast.Constant) and isinstance(n.value, str) and n.value in names:
                        for h in names[n.value]:
                            h.refs += 1  # getattr(self, "name") style

        for m in self.modules.values():
            count(m, m.tree.body, m.name, None)
        for h in self.helpers.values():
            removed = False
            if h.inlined and h.refs == 0:
                removed = self._remove_def(h)
            self.report.append({"helper": h.qn, "expanded_at": h.inlined, "remaining_references": h.refs, "removed": removed, "not_expanded_because": h.why_not or (h.last_fail if h.refs else None)})

    def _remove_def(self, h):
        m = self.modules[h.modname]
        for parent in ast.walk(m.tree):
            for field in ("body", "orelse", "finalbody"):
                lst = getattr(parent, field, None)
                if isinstance(lst, list) and h.node in lst:
                    lst.remove(h.node)
                    if not lst and field == "body":
                        lst.append(ast.copy_location(ast.Pass(), h.node))
                    return True
        return False

    def _rewrite_scope(self, m, body, prefix, clsqn):
        changed = False
        for node in body:
            if isinstance(node, (ast.FunctionDef, ast.AsyncFunctionDef)):
                if self._rewrite_func(m, node, clsqn, prefix + "." + node.name):
                    changed = True
            elif isinstance(node, ast.ClassDef):
                q = prefix + "." + node.name
                if self._rewrite_scope(m, node.body, q, q):
                    changed = True
            elif isinstance(node, (ast.If, ast.Try)):
                for sub in ("body", "orelse", "finalbody"):
                    if self._rewrite_scope(m, getattr(node, sub, []) or [], prefix, clsqn):
                        changed = True
                for hd in getattr(node, "handlers", []) or []:
                    if self._rewrite_scope(m, hd.body, prefix, clsqn):
                        changed = True
        return changed

    def _rewrite_func(self, m, fn, clsqn, qn):
        names = {x.arg for x in fn.args.args + fn.args.kwonlyargs + fn.args.posonlyargs}
        if fn.args.vararg:
            names.add(fn.args.vararg.arg)
        if fn.args.kwarg:
            names.add(fn.args.kwarg.arg)
        for n in ast.walk(fn):
            if isinstance(n, ast.Name):
                names.add(n.id)
            elif isinstance(n, (ast.FunctionDef, ast.AsyncFunctionDef)):
                names.add(n.name)
            elif isinstance(n, ast.ExceptHandler) and n.name:
                names.add(n.name)
        st = _FuncRewriter(self, m, fn, clsqn, names, qn)
        st.rewrite()
        return st.changed


def _has_effect(e):
    for n in ast.walk(e):
        if isinstance(n, (ast.Call, ast.Await, ast.Yield, ast.YieldFrom, ast.NamedExpr)):
            return True
    return False


class _FuncRewriter:
    """rewrites the statement lists of one function (and its nested functions)"""

    def __init__(self, inl, m, fn, clsqn, names, qn):
        self.inl = inl
        self.qn = qn
        self.m = m
        self.fn = fn
        self.clsqn = clsqn
        self.names = names
        self.changed = False

    def rewrite(self):
        self.fn.body = self._block(self.fn.body, {})

    def _call_of(self, e):
        if isinstance(e, ast.Await):
            e = e.value
        return e if isinstance(e, ast.Call) else None

    def _try_stmt(self, st, local_helpers):
        """-> replacement list or None"""
        ctx = None
        if isinstance(st, ast.Expr):
            call = self._call_of(st.value)
            ctx = "expr"
        elif isinstance(st, ast.Assign):
            call = self._call_of(st.value)
            ctx = "assign"
        elif isinstance(st, ast.AnnAssign) and st.value is not None:
            call = self._call_of(st.value)
            ctx = "assign"
        elif isinstance(st, ast.Return) and st.value is not None:
            call = self._call_of(st.value)
            ctx = "return"
        else:
            return None
        if call is None:
            return None
        h, recv = self.inl.resolve(call, self.m, self.clsqn, local_helpers)
        if h is None:
            return None
        if h.node is self.fn:
            return None
        is_await = isinstance(st.value, ast.Await)
        if is_await != isinstance(h.node, ast.AsyncFunctionDef):
            return None
        try:
            out = self.inl.expand_stmt(h, call, recv, ctx, st, self.names)
        except NotInlinable as e:
            h.last_fail = str(e)
            return None
        h.inlined += 1
        self.changed = True
        return out

    def _exprs(self, st, local_helpers):
        """expand single-return helpers inside the expressions of a statement"""
        rw = self

        class T(ast.NodeTransformer):
            def visit_Call(s, n):
                s.generic_visit(n)
                h, recv = rw.inl.resolve(n, rw.m, rw.clsqn, local_helpers)
                if h is None or h.node is rw.fn or isinstance(h.node, ast.AsyncFunctionDef):
                    return n
                try:
                    e = rw.inl.expand_expr(h, n, recv, rw.names)
                except NotInlinable as ex:
                    h.last_fail = str(ex)
                    return n
                h.inlined += 1
                rw.changed = True
                return e

            def visit_FunctionDef(s, n):
                return n

            visit_AsyncFunctionDef = visit_FunctionDef
            visit_ClassDef = visit_FunctionDef

        t = T()
        for field, val in ast.iter_fields(st):
            if field in ("body", "orelse", "finalbody", "handlers", "cases"):
                continue
            if isinstance(val, ast.AST):
                setattr(st, field, t.visit(val))
            elif isinstance(val, list):
                setattr(st, field, [t.visit(v) if isinstance(v, ast.AST) else v for v in val])

    def _hoist_test(self, st, local_helpers):
        """`if helper(...):` / `if not helper(...):` with a multi-statement
        helper -> `t = helper(...)` expanded, then `if t:`"""
        if not isinstance(st, ast.If):
            return None
        test = st.test
        neg = False
        if isinstance(test, ast.UnaryOp) and isinstance(test.op, ast.Not):
            test = test.operand
            neg = True
        call = test if isinstance(test, ast.Call) else None
        if call is None:
            return None
        h, recv = self.inl.resolve(call, self.m, self.clsqn, local_helpers)
        if h is None or h.node is self.fn or isinstance(h.node, ast.AsyncFunctionDef):
            return None
        tmp = self.inl._fresh(h.node.name.strip("_") or "t", self.names)
        self.names.add(tmp)
        asg = ast.copy_location(ast.Assign(targets=[ast.Name(id=tmp, ctx=ast.Store())], value=call), st)
        try:
            pre = self.inl.expand_stmt(h, call, recv, "assign", asg, self.names)
        except NotInlinable as e:
            h.last_fail = str(e)
            return None
        h.inlined += 1
        self.changed = True
        name = ast.copy_location(ast.Name(id=tmp, ctx=ast.Load()), test)
        st.test = ast.copy_location(ast.UnaryOp(op=ast.Not(), operand=name), test) if neg else name
        ast.fix_missing_locations(st)
        return pre + [st]

    def _first_helper_call(self, e, local_helpers):
        """first helper call in evaluation order inside expression e such that nothing with an
        effect is evaluated before it; -> (call, helper, recv) or None.  Raises StopIteration-like
        sentinel by returning False when an effect is met first."""
        found = [None]

        def go(x):
            # returns True to continue, False to stop (effect met or found)
            if isinstance(x, (ast.Lambda, ast.ListComp, ast.SetComp, ast.DictComp, ast.GeneratorExp)):
                return True
            if isinstance(x, ast.Call):
                if not go(x.func):
                    return False
                for a in x.args:
                    if not go(a.value if isinstance(a, ast.Starred) else a):
                        return False
                for k in x.keywords:
                    if not go(k.value):
                        return False
                h, recv = self.inl.resolve(x, self.m, self.clsqn, local_helpers)
                if h is not None and h.node is not self.fn and not isinstance(h.node, ast.AsyncFunctionDef) and not h.why_not:
                    found[0] = (x, h, recv)
                return False  # either found, or an effectful call was evaluated
            if isinstance(x, (ast.Await, ast.Yield, ast.YieldFrom, ast.NamedExpr)):
                return False
            if isinstance(x, ast.BoolOp):
                return go(x.values[0]) and False  # later operands are evaluated conditionally
            if isinstance(x, ast.IfExp):
                return go(x.test) and False
            if isinstance(x, ast.Compare):
                if not go(x.left):
                    return False
                if not go(x.comparators[0]):
                    return False
                return len(x.comparators) == 1
            for c in ast.iter_child_nodes(x):
                if isinstance(c, ast.expr):
                    if not go(c):
                        return False
            return True

        go(e)
        return found[0]

    def _hoist_nested(self, st, local_helpers):
        """multi-statement helper called inside a larger expression of a simple statement:
        `f(a, self._h(x))` -> `t = <expansion of self._h(x)>; f(a, t)`"""
        field = None
        if isinstance(st, (ast.Expr, ast.Return, ast.Assign, ast.AugAssign, ast.AnnAssign)) and getattr(st, "value", None) is not None:
            field = "value"
        elif isinstance(st, ast.If):
            field = "test"
        elif isinstance(st, ast.Raise) and st.exc is not None:
            field = "exc"
        elif isinstance(st, (ast.For, ast.AsyncFor)):
            field = "iter"
        elif isinstance(st, ast.Assert):
            field = "test"
        if field is None:
            return None
        pre = []
        for _ in range(4):
            hit = self._first_helper_call(getattr(st, field), local_helpers)
            if not hit:
                break
            call, h, recv = hit
            tmp = self.inl._fresh(h.node.name.strip("_") or "t", self.names)
            self.names.add(tmp)
            asg = ast.copy_location(ast.Assign(targets=[ast.Name(id=tmp, ctx=ast.Store())], value=call), st)
            try:
                exp = self.inl.expand_stmt(h, call, recv, "assign", asg, self.names)
            except NotInlinable as e:
                h.last_fail = str(e)
                break
            h.inlined += 1
            self.changed = True
            pre.extend(exp)

            class Rep(ast.NodeTransformer):
                def visit_Call(s, n):
                    if n is call:
                        return ast.copy_location(ast.Name(id=tmp, ctx=ast.Load()), n)
                    return s.generic_visit(n)

            setattr(st, field, Rep().visit(getattr(st, field)))
            ast.fix_missing_locations(st)
        return pre or None

    def _block(self, body, local_helpers):
        local_helpers = dict(local_helpers)
        for st in body:
            if isinstance(st, (ast.FunctionDef, ast.AsyncFunctionDef)):
                # nested helper: not in the table and without decorators
                q = self.qn + ".<locals>." + st.name
                if q not in self.inl.base and not st.decorator_list:
                    h = self.inl.helpers.get(q)
                    if h is None:
                        h = Helper(q, st, self.m.name, None, "function", nested_in=self.fn)
                        h.why_not = _eligible(st)
                        self.inl.helpers[q] = h
                    local_helpers[st.name] = h
        out = []
        for st in body:
            if isinstance(st, (ast.FunctionDef, ast.AsyncFunctionDef)):
                sub = _FuncRewriter(self.inl, self.m, st, self.clsqn, self.names, self.qn + ".<locals>." + st.name)
                sub.rewrite()
                self.changed = self.changed or sub.changed
                out.append(st)
                continue
            if isinstance(st, ast.ClassDef):
                out.append(st)
                continue
            rep = self._try_stmt(st, local_helpers)
            if rep is not None:
                out.extend(rep)
                continue
            self._exprs(st, local_helpers)
            pre = self._hoist_nested(st, local_helpers)
            if pre:
                out.extend(pre)
            rep = self._hoist_test(st, local_helpers) if not pre else None
            if rep is not None:
                # the If itself still needs its blocks rewritten
                ifst = rep[-1]
                ifst.body = self._block(ifst.body, local_helpers)
                ifst.orelse = self._block(ifst.orelse, local_helpers)
                out.extend(rep)
                continue
            for field in ("body", "orelse", "finalbody"):
                lst = getattr(st, field, None)
                if isinstance(lst, list) and lst and isinstance(lst[0], ast.stmt):
                    setattr(st, field, self._block(lst, local_helpers))
            for hd in getattr(st, "handlers", []) or []:
                hd.body = self._block(hd.body, local_helpers)
            for c in getattr(st, "cases", []) or []:
                c.body = self._block(c.body, local_helpers)
            out.append(st)
        return out


def run(modules):
    inl = Inliner(modules)
    inl.run()
    if not os.environ.get("COAPLINT_NO_COPYPROP"):
        n = 0
        for m in modules.values():
            n += copyprop_module(m)
        inl.report.append({"copy_propagated_temporaries": n})
    return inl.report


# ---------------------------------------------------------------------------
# canonicalisation of pure single-assignment temporaries (copy propagation)

_PURE_FUNCS = {"len", "isinstance", "bool", "int", "bytes", "tuple", "min", "max", "abs", "type"}


def _is_pure(e):
    """Expression whose value depends only on names / attribute chains /
    constants: safe to re-evaluate at the use site as long as none of those is
    rebound in between."""
    if isinstance(e, (ast.Constant, ast.Name)):
        return True
    if isinstance(e, ast.Attribute):
        return _is_pure(e.value)
    if isinstance(e, ast.Tuple):
        return all(_is_pure(x) for x in e.elts)
    if isinstance(e, ast.UnaryOp):
        return _is_pure(e.operand)
    if isinstance(e, ast.BinOp):
        return _is_pure(e.left) and _is_pure(e.right)
    if isinstance(e, ast.BoolOp):
        return all(_is_pure(x) for x in e.values)
    if isinstance(e, ast.Compare):
        # membership in a mutable container is a state read
        for op, c in zip(e.ops, e.comparators):
            if isinstance(op, (ast.In, ast.NotIn)) and not isinstance(c, (ast.Tuple, ast.Set, ast.List, ast.Constant)):
                return False
        return _is_pure(e.left) and all(_is_pure(x) for x in e.comparators)
    if isinstance(e, ast.IfExp):
        return _is_pure(e.test) and _is_pure(e.body) and _is_pure(e.orelse)
    if isinstance(e, ast.Subscript):
        return False
    if isinstance(e, ast.Call):
        f = e.func
        if e.keywords:
            return False
        if isinstance(f, ast.Name) and f.id in _PURE_FUNCS:
            return all(_is_pure(a) for a in e.args)
        if isinstance(f, ast.Attribute) and f.attr.startswith("is_") and not e.args:
            return _is_pure(f.value)
        return False
    return False


def _chains(e):
    """dotted chains read by a pure expression"""
    out = set()
    for n in ast.walk(e):
        if isinstance(n, (ast.Name, ast.Attribute)):
            try:
                out.add(ast.unparse(n))
            except Exception:
                pass
    return out


class _CopyProp:
    def __init__(self, fn):
        self.fn = fn
        self.count = 0

    def run(self):
        for _ in range(400):
            if not self._once():
                break
        return self.count

    def _once(self):
        fn = self.fn
        params = {x.arg for x in fn.args.args + fn.args.kwonlyargs + fn.args.posonlyargs}
        if fn.args.vararg:
            params.add(fn.args.vararg.arg)
        if fn.args.kwarg:
            params.add(fn.args.kwarg.arg)
        stores = {}
        nested_use = set()
        store_chains = []  # (program-order index, chain text) of attribute stores
        name_stores = {}  # name -> [program-order index of each store]
        order = {}
        k = 0
        stack = list(reversed(fn.body))
        while stack:  # pre-order numbering in program order (line numbers of expanded helpers are not ordered)
            x = stack.pop()
            order[id(x)] = k
            k += 1
            if isinstance(x, (ast.FunctionDef, ast.AsyncFunctionDef, ast.Lambda, ast.ClassDef)):
                continue
            stack.extend(reversed(list(ast.iter_child_nodes(x))))
        for n in _own_nodes(fn):
            if isinstance(n, (ast.FunctionDef, ast.AsyncFunctionDef, ast.Lambda, ast.ClassDef, ast.ListComp, ast.SetComp, ast.DictComp, ast.GeneratorExp)):
                for x in ast.walk(n):
                    if isinstance(x, ast.Name):
                        nested_use.add(x.id)
                if isinstance(n, (ast.FunctionDef, ast.AsyncFunctionDef, ast.ClassDef)):
                    stores[n.name] = stores.get(n.name, 0) + 2
            if isinstance(n, ast.Name) and isinstance(n.ctx, (ast.Store, ast.Del)):
                stores[n.id] = stores.get(n.id, 0) + 1
                name_stores.setdefault(n.id, []).append(order.get(id(n), 0))
            elif isinstance(n, ast.ExceptHandler) and n.name:
                stores[n.name] = stores.get(n.name, 0) + 2
            elif isinstance(n, (ast.Global, ast.Nonlocal)):
                for x in n.names:
                    stores[x] = stores.get(x, 0) + 2
            elif isinstance(n, ast.Attribute) and isinstance(n.ctx, (ast.Store, ast.Del)):
                store_chains.append((order.get(id(n), 0), ast.unparse(n)))
            elif isinstance(n, (ast.MatchAs, ast.MatchStar)) and n.name:
                stores[n.name] = stores.get(n.name, 0) + 2
        # comprehension nodes are reached by _own_nodes as children: their
        # targets were counted as stores above, which only makes us more careful

        BIG = 10 ** 9

        def horizon(body, i, x):
            """program-order index of the last use of x, or BIG when a use sits inside a loop that begins
            after the definition (the loop may run again after a later store)"""
            last = -1
            for st2 in body[i + 1 :]:
                uses = [n for n in ast.walk(st2) if isinstance(n, ast.Name) and n.id == x and isinstance(n.ctx, ast.Load)]
                if not uses:
                    continue
                if isinstance(st2, (ast.For, ast.While, ast.AsyncFor)) or any(isinstance(n, (ast.For, ast.While, ast.AsyncFor)) for n in ast.walk(st2)):
                    return BIG
                for u in uses:
                    last = max(last, order.get(id(u), BIG))
            return last if last >= 0 else BIG

        def try_block(body, in_loop):
            for i, st in enumerate(body):
                if isinstance(st, ast.Assign) and len(st.targets) == 1 and isinstance(st.targets[0], ast.Name):
                    x = st.targets[0].id
                    if (
                        stores.get(x) == 1
                        and x not in params
                        and x not in nested_use
                        and not _is_pure(st.value)
                        and self._adjacent_only(body, i, x, st.value)
                        and self._uses_follow(body, i, x)
                    ):
                        self._substitute(body[i + 1 : i + 2], x, st.value)
                        del body[i]
                        self.count += 1
                        return True
                    if (
                        stores.get(x) == 1
                        and x not in params
                        and x not in nested_use
                        and _is_pure(st.value)
                        and not (isinstance(st.value, ast.Name) and st.value.id == x)
                    ):
                        reads = _chains(st.value)
                        ok = True
                        for r in reads:
                            root = r.split(".")[0]
                            if "." not in r:
                                # a name read by the value must not be re-bound after the definition
                                # (stores that are not plain Name stores -- handlers, nested defs -- count as unknown)
                                if stores.get(r, 0) != len(name_stores.get(r, [])) or any(order.get(id(st), 0) < ix <= horizon(body, i, x) for ix in name_stores.get(r, [])):
                                    ok = False
                            else:
                                for ln, ch in store_chains:
                                    if ln >= order.get(id(st), 0) and ln <= horizon(body, i, x) and (ch == r or r.startswith(ch + ".") or ch.startswith(r + ".")):
                                        ok = False
                        if ok and any("." in r for r in reads):
                            # a snapshot of object state: not across a suspension point, and not when the same
                            # chain is read again next to it after something with an effect happened
                            # (`f = self._future; await ...; if f is self._future`)
                            lo, hi = order.get(id(st), 0), horizon(body, i, x)
                            dotted = {r for r in reads if "." in r}
                            effect_between = False
                            for st2 in body[i + 1 :]:
                                for n2 in ast.walk(st2):
                                    ix = order.get(id(n2))
                                    if ix is None or not (lo < ix <= hi):
                                        continue
                                    if isinstance(n2, (ast.Await, ast.Yield, ast.YieldFrom)):
                                        ok = False
                                    elif isinstance(n2, ast.Call) and not _is_pure(n2):
                                        effect_between = True
                            if ok:
                                # `R.is_x()` reads R's state: a method call on R (or on a prefix/extension of R) in
                                # between may change it
                                qrecv = set()
                                for n2 in ast.walk(st.value):
                                    if isinstance(n2, ast.Call) and isinstance(n2.func, ast.Attribute) and n2.func.attr.startswith("is_"):
                                        try:
                                            qrecv.add(ast.unparse(n2.func.value))
                                        except Exception:
                                            pass
                                if qrecv:
                                    for st2 in body[i + 1 :]:
                                        for n2 in ast.walk(st2):
                                            ix = order.get(id(n2))
                                            if ix is None or not (lo < ix <= hi):
                                                continue
                                            if isinstance(n2, ast.Call) and isinstance(n2.func, ast.Attribute) and not n2.func.attr.startswith("is_"):
                                                try:
                                                    rc = ast.unparse(n2.func.value)
                                                except Exception:
                                                    continue
                                                if any(rc == q or rc.startswith(q + ".") or q.startswith(rc + ".") for q in qrecv):
                                                    ok = False
                        # single-assigned names read by the value must be defined before: they are, by program order
                        if not ok and stores.get(x) == 1 and self._adjacent_only(body, i, x, st.value):
                            ok = True  # nothing happens between the definition and its only use site
                        if ok and self._uses_follow(body, i, x):
                            self._substitute(body[i + 1 :], x, st.value)
                            del body[i]
                            self.count += 1
                            return True
                for field in ("body", "orelse", "finalbody"):
                    lst = getattr(st, field, None)
                    if isinstance(lst, list) and lst and isinstance(lst[0], ast.stmt):
                        if try_block(lst, in_loop or isinstance(st, (ast.For, ast.While, ast.AsyncFor))):
                            if not lst:
                                lst.append(ast.copy_location(ast.Pass(), st))
                            return True
                for hd in getattr(st, "handlers", []) or []:
                    if try_block(hd.body, in_loop):
                        return True
                for c in getattr(st, "cases", []) or []:
                    if try_block(c.body, in_loop):
                        return True
            return False

        return try_block(fn.body, False)

    def _adjacent_only(self, body, i, x, value):
        """x is used only in the header expression of the statement that immediately follows its
        definition, and nothing with an effect is evaluated there besides x's own value: moving the
        value into the use site changes nothing.  (A value with a call or a state read may be used once;
        a value without calls any number of times.)"""
        if i + 1 >= len(body):
            return False
        nxt = body[i + 1]
        field = None
        if isinstance(nxt, (ast.If, ast.Assert)):
            field = "test"
        elif isinstance(nxt, (ast.Return, ast.Expr, ast.Assign, ast.AugAssign, ast.AnnAssign)) and getattr(nxt, "value", None) is not None:
            field = "value"
        elif isinstance(nxt, ast.Raise) and nxt.exc is not None:
            field = "exc"
        if field is None:
            return False
        hdr = getattr(nxt, field)
        uses_hdr = sum(1 for n in ast.walk(hdr) if isinstance(n, ast.Name) and n.id == x and isinstance(n.ctx, ast.Load))
        uses_all = sum(1 for n in _own_nodes(self.fn) if isinstance(n, ast.Name) and n.id == x and isinstance(n.ctx, ast.Load))
        if uses_hdr == 0 or uses_hdr != uses_all:
            return False
        for n in ast.walk(hdr):
            if isinstance(n, (ast.Await, ast.Yield, ast.YieldFrom, ast.NamedExpr, ast.Lambda, ast.ListComp, ast.SetComp, ast.DictComp, ast.GeneratorExp)):
                return False
        for n in ast.walk(value):
            if isinstance(n, (ast.Await, ast.Yield, ast.YieldFrom, ast.NamedExpr, ast.Lambda, ast.ListComp, ast.SetComp, ast.DictComp, ast.GeneratorExp)):
                return False
        value_calls = any(isinstance(n, ast.Call) and not _is_pure(n) for n in ast.walk(value))
        hdr_calls = any(isinstance(n, ast.Call) and not _is_pure(n) for n in ast.walk(hdr))
        if value_calls and (uses_hdr > 1 or hdr_calls):
            return False
        if hdr_calls and not _is_pure(value):
            # a state read (subscript, membership) moved behind another call of the header: only if x is evaluated first
            first = next((n for n in ast.walk(hdr) if isinstance(n, (ast.Name, ast.Call))), None)
            if not (isinstance(first, ast.Name) and first.id == x):
                return False
        if isinstance(nxt, (ast.Assign, ast.AugAssign, ast.AnnAssign)):
            # targets are evaluated after the value, fine; but the target must not be x itself
            pass
        return True

    def _uses_follow(self, body, i, x):
        """every use of x in the function lies in the statements after body[i]
        of the same block (or nested in them)"""
        total = 0
        for n in _own_nodes(self.fn):
            if isinstance(n, ast.Name) and n.id == x and isinstance(n.ctx, ast.Load):
                total += 1
        after = 0
        for st in body[i + 1 :]:
            for n in ast.walk(st):
                if isinstance(n, ast.Name) and n.id == x and isinstance(n.ctx, ast.Load):
                    after += 1
        return total == after and total > 0

    def _substitute(self, stmts, x, value):
        class T(ast.NodeTransformer):
            def visit_Name(s, n):
                if n.id == x and isinstance(n.ctx, ast.Load):
                    return ast.copy_location(copy.deepcopy(value), n)
                return n

        t = T()
        for k, st in enumerate(stmts):
            stmts[k] = t.visit(st)
            ast.fix_missing_locations(stmts[k])


def _drop_self_assignments(fn):
    """`x = x` (left behind when a helper re-binds its own parameter) is a no-op"""
    for parent in ast.walk(fn):
        for field in ("body", "orelse", "finalbody"):
            lst = getattr(parent, field, None)
            if isinstance(lst, list) and lst and isinstance(lst[0], ast.stmt):
                keep = [st for st in lst if not (isinstance(st, ast.Assign) and len(st.targets) == 1 and isinstance(st.targets[0], ast.Name) and isinstance(st.value, ast.Name) and st.value.id == st.targets[0].id)]
                if len(keep) != len(lst):
                    if not keep:
                        keep = [ast.copy_location(ast.Pass(), lst[0])]
                    lst[:] = keep


def _canon_statements(fn):
    """Three more spellings of the same program:
    * chained assignment with one attribute target: `n = self.x = V`  ->  `self.x = V; n = self.x`
      (V is evaluated once and bound to both; reading the plain attribute back yields the same object);
    * parallel assignment with attribute targets: `a, self.x = (self.x, None)` -> `a = self.x; self.x = None`
      when no value reads a target assigned earlier in the sequence (the right side is evaluated first);
    * assignment expression in a loop header: `while (h := f()) is not None: B`
      ->  `while True: h = f(); if not (h is not None): break; B`   (no else clause)."""
    for parent in ast.walk(fn):
        for field in ("body", "orelse", "finalbody"):
            lst = getattr(parent, field, None)
            if not (isinstance(lst, list) and lst and isinstance(lst[0], ast.stmt)):
                continue
            out = []
            changed = False
            for st in lst:
                if isinstance(st, ast.Assign) and len(st.targets) >= 2:
                    attrs = [t for t in st.targets if isinstance(t, ast.Attribute) and _is_simple(t)]
                    names = [t for t in st.targets if isinstance(t, ast.Name)]
                    if len(attrs) == 1 and len(attrs) + len(names) == len(st.targets):
                        a = attrs[0]
                        if isinstance(st.value, ast.Constant) or (isinstance(st.value, ast.Name) and st.value.id not in {n.id for n in names}):
                            # an immutable constant / a name: every target simply gets it (targets bound left to right)
                            for t in st.targets:
                                out.append(ast.copy_location(ast.Assign(targets=[t], value=copy.deepcopy(st.value)), st))
                        else:
                            out.append(ast.copy_location(ast.Assign(targets=[a], value=st.value), st))
                            for n in names:
                                load = copy.deepcopy(a)
                                load.ctx = ast.Load()
                                out.append(ast.copy_location(ast.Assign(targets=[n], value=load), st))
                        changed = True
                        continue
                if (isinstance(st, ast.Assign) and len(st.targets) == 1 and isinstance(st.targets[0], (ast.Tuple, ast.List))
                        and isinstance(st.value, (ast.Tuple, ast.List)) and len(st.targets[0].elts) == len(st.value.elts)
                        and all(isinstance(t, ast.Name) or (isinstance(t, ast.Attribute) and _is_simple(t)) for t in st.targets[0].elts)
                        and any(isinstance(t, ast.Attribute) for t in st.targets[0].elts)
                        and not any(isinstance(v, ast.Starred) for v in st.value.elts)
                        and all(_is_pure(v) for v in st.value.elts)):
                    tg = [ast.unparse(t) for t in st.targets[0].elts]
                    ok = len(set(tg)) == len(tg)
                    for i, v in enumerate(st.value.elts):
                        reads = _chains(v)
                        for j in range(i):
                            if any(r == tg[j] or r.startswith(tg[j] + ".") or tg[j].startswith(r + ".") for r in reads):
                                ok = False
                    if ok:
                        for t, v in zip(st.targets[0].elts, st.value.elts):
                            out.append(ast.copy_location(ast.Assign(targets=[t], value=v), st))
                        changed = True
                        continue
                if isinstance(st, ast.While) and not st.orelse:
                    walrus = [n for n in ast.walk(st.test) if isinstance(n, ast.NamedExpr)]
                    if len(walrus) == 1 and isinstance(walrus[0].target, ast.Name):
                        w = walrus[0]
                        # the assignment expression must be evaluated unconditionally and first: it is the test
                        # itself, the left operand of the comparison, or the operand of `not`
                        t = st.test
                        while isinstance(t, ast.UnaryOp) and isinstance(t.op, ast.Not):
                            t = t.operand
                        first = t.left if isinstance(t, ast.Compare) else t
                        if first is w:
                            name = ast.Name(id=w.target.id, ctx=ast.Load())

                            class R(ast.NodeTransformer):
                                def visit_NamedExpr(s, n):
                                    return ast.copy_location(name, n) if n is w else n

                            newtest = R().visit(copy.deepcopy(st.test)) if False else None
                            # rebuild the test with the name in place of the walrus (on the original nodes)
                            asg = ast.copy_location(ast.Assign(targets=[ast.Name(id=w.target.id, ctx=ast.Store())], value=w.value), st)
                            test2 = R().visit(st.test)
                            brk = ast.copy_location(ast.If(test=ast.UnaryOp(op=ast.Not(), operand=test2), body=[ast.copy_location(ast.Break(), st)], orelse=[]), st)
                            loop = ast.copy_location(ast.While(test=ast.Constant(value=True), body=[asg, brk] + list(st.body), orelse=[]), st)
                            ast.fix_missing_locations(loop)
                            out.append(loop)
                            changed = True
                            continue
                out.append(st)
            if changed:
                for x in out:
                    ast.fix_missing_locations(x)
                lst[:] = out


def _split_parallel(fn):
    """`a, b = x, y` -> `a = x; b = y` when all targets are names, the right side is a display of the same
    length and no value reads a target of the same statement (then the order of the bindings is immaterial)."""
    for parent in ast.walk(fn):
        for field in ("body", "orelse", "finalbody"):
            lst = getattr(parent, field, None)
            if not (isinstance(lst, list) and lst and isinstance(lst[0], ast.stmt)):
                continue
            out = []
            changed = False
            for st in lst:
                if (isinstance(st, ast.Assign) and len(st.targets) == 1 and isinstance(st.targets[0], (ast.Tuple, ast.List))
                        and isinstance(st.value, (ast.Tuple, ast.List)) and len(st.targets[0].elts) == len(st.value.elts)
                        and all(isinstance(t, ast.Name) for t in st.targets[0].elts)
                        and not any(isinstance(v, ast.Starred) for v in st.value.elts)):
                    tnames = {t.id for t in st.targets[0].elts}
                    reads = {n.id for v in st.value.elts for n in ast.walk(v) if isinstance(n, ast.Name)}
                    if not (tnames & reads) and len(tnames) == len(st.targets[0].elts):
                        for t, v in zip(st.targets[0].elts, st.value.elts):
                            out.append(ast.copy_location(ast.Assign(targets=[t], value=v), st))
                        changed = True
                        continue
                out.append(st)
            if changed:
                lst[:] = out


def _module_constants(m):
    """module-level names bound exactly once to a display (tuple/list/set/frozenset(...)) of names, attribute
    chains and constants, and never re-bound or mutated in the module: usable as literal collections"""
    cnt = {}
    val = {}
    for st in m.tree.body:
        targets = []
        if isinstance(st, ast.Assign):
            targets = [t for t in st.targets]
            v = st.value
        elif isinstance(st, ast.AnnAssign) and st.value is not None:
            targets = [st.target]
            v = st.value
        for t in targets:
            for n in ast.walk(t):
                if isinstance(n, ast.Name):
                    cnt[n.id] = cnt.get(n.id, 0) + 1
            if isinstance(t, ast.Name):
                val[t.id] = v
    out = {}
    for name, v in val.items():
        if cnt.get(name) != 1:
            continue
        disp = v
        if isinstance(v, ast.Call) and isinstance(v.func, ast.Name) and v.func.id in ("frozenset", "set", "tuple", "list") and len(v.args) == 1 and not v.keywords:
            disp = v.args[0]
        if isinstance(disp, (ast.Tuple, ast.List, ast.Set)) and disp.elts and all(isinstance(e, (ast.Name, ast.Attribute, ast.Constant)) for e in disp.elts):
            out[name] = disp
    if not out:
        return out
    for n in ast.walk(m.tree):
        if isinstance(n, ast.Global):
            for x in n.names:
                out.pop(x, None)
        elif isinstance(n, ast.Call) and isinstance(n.func, ast.Attribute) and isinstance(n.func.value, ast.Name) and n.func.value.id in out and n.func.attr in ("add", "append", "extend", "update", "remove", "discard", "clear", "pop", "insert"):
            out.pop(n.func.value.id, None)
        elif isinstance(n, (ast.AugAssign,)) and isinstance(n.target, ast.Name):
            out.pop(n.target.id, None)
    return out


def _fold_constant_collections(m):
    """`x in _CONST` / `x not in _CONST` with a module-level constant collection -> `x in (A, B, ...)`"""
    consts = _module_constants(m)
    if not consts:
        return 0
    n = 0
    for fn in ast.walk(m.tree):
        if not isinstance(fn, (ast.FunctionDef, ast.AsyncFunctionDef)):
            continue
        shadow = {x.id for x in ast.walk(fn) if isinstance(x, ast.Name) and isinstance(x.ctx, (ast.Store, ast.Del))} | {a.arg for a in fn.args.args + fn.args.kwonlyargs + fn.args.posonlyargs}
        for c in ast.walk(fn):
            if isinstance(c, ast.Compare) and len(c.ops) == 1 and isinstance(c.ops[0], (ast.In, ast.NotIn)):
                r = c.comparators[0]
                if isinstance(r, ast.Name) and r.id in consts and r.id not in shadow:
                    c.comparators[0] = ast.copy_location(ast.Tuple(elts=[copy.deepcopy(e) for e in consts[r.id].elts], ctx=ast.Load()), r)
                    ast.fix_missing_locations(c)
                    n += 1
    return n


def copyprop_module(m):
    n = 0
    _fold_constant_collections(m)
    for node in ast.walk(m.tree):
        if isinstance(node, (ast.FunctionDef, ast.AsyncFunctionDef)):
            _drop_self_assignments(node)
            _canon_statements(node)
            _split_parallel(node)
            n += _CopyProp(node).run()
    return n
