"""Kit for rules/c12.py: what a local *means* where it is used.

The first pass read guards as the branch outcomes on the paths to a site and followed a name only when the whole
function assigns it once.  A maintainer who carries a decision from the place where it is taken to the place where it
is used -- a sentinel (`to_strike = None ... to_strike = seqno ... if to_strike is not None:`), a flag
(`fresh = False ... fresh = True ... if fresh:`), a named condition assigned in two arms, a copy of the number under
another name -- defeats both.  This module gives the path model the missing piece, *values along a path*:

* `Values` walks the node sequence of one modelled path and keeps, per local, an abstract value (a constant, "an object
  that is not None", "the truth value of expression E as evaluated at position j") and the *root definition* the value
  came from (copies `a = b` are looked through at the moment of the copy);
* a branch outcome that contradicts the value a local has on that path makes the path infeasible (`feasible`): such
  paths are dropped from the model, so that `x is not None` after `x = None` / `x = n` means "the definition `x = n`
  was passed, together with everything that guarded it";
* a branch on a name that holds a condition is read as that condition, evaluated where the name was bound
  (`expand`), whatever the number of assignments to the name in the function;
* the "nothing yet" value need not be None: a dedicated sentinel object (`SentinelIndex`: a class-level / module-level
  slot bound once to a fresh object and never rebound, or one evaluation of `object()`) is followed by identity, so
  `x = self._MISSING ... x = json.load(f) ... if x is self._MISSING:` is the flag "the load did not complete".

`bool_form` rewrites a conditional expression in boolean position into and/or/not (the engine now expands multi-return
predicate helpers into conditional-expression trees), so that the CFG decomposes it like any other test.
"""

import ast
import copy

from ..model import walk_no_nested
from ..pat import chain


# --- conditional expressions in boolean position --------------------------------------------------------------------


def _cbool(e):
    return isinstance(e, ast.Constant) and isinstance(e.value, bool)


def _not(e):
    if isinstance(e, ast.UnaryOp) and isinstance(e.op, ast.Not):
        return e.operand
    return ast.copy_location(ast.UnaryOp(op=ast.Not(), operand=e), e)


def _bop(op, vals, at):
    return ast.copy_location(ast.BoolOp(op=op, values=list(vals)), at)


def bool_form(e):
    """An expression with the same truth value as `e` in which no conditional expression sits in boolean position:
    `A if c else B` is true exactly when (c and A) or (not c and B).  With a constant arm that is `c or B`,
    `not c and B`, `not c or A`, `c and A` (c is evaluated once, as in the original); in the general form the condition
    occurs twice, which is immaterial for an analysis that never executes it (both occurrences are the same atom of the
    path model)."""
    if isinstance(e, ast.BoolOp):
        vals = [bool_form(v) for v in e.values]
        if all(a is b for a, b in zip(vals, e.values)):
            return e
        return _bop(e.op, vals, e)
    if isinstance(e, ast.UnaryOp) and isinstance(e.op, ast.Not):
        v = bool_form(e.operand)
        return e if v is e.operand else ast.copy_location(ast.UnaryOp(op=ast.Not(), operand=v), e)
    if isinstance(e, ast.IfExp):
        c, a, b = bool_form(e.test), bool_form(e.body), bool_form(e.orelse)
        if _cbool(a) and _cbool(b):
            if a.value == b.value:
                # the condition is still evaluated (it may have an effect): keep it as a conjunct/disjunct that decides nothing
                return _bop(ast.Or(), [c, a], e) if a.value else _bop(ast.And(), [c, a], e)
            return c if a.value else _not(c)
        if _cbool(a):
            return _bop(ast.Or(), [c, b], e) if a.value else _bop(ast.And(), [_not(c), b], e)
        if _cbool(b):
            return _bop(ast.Or(), [_not(c), a], e) if b.value else _bop(ast.And(), [c, a], e)
        c2 = copy.deepcopy(c)
        return _bop(ast.Or(), [_bop(ast.And(), [c, a], e), _bop(ast.And(), [_not(c2), b], e)], e)
    return e


def has_bool_ifexp(e):
    """Is there a conditional expression in boolean position of e?"""
    if isinstance(e, ast.IfExp):
        return True
    if isinstance(e, ast.BoolOp):
        return any(has_bool_ifexp(v) for v in e.values)
    if isinstance(e, ast.UnaryOp) and isinstance(e.op, ast.Not):
        return has_bool_ifexp(e.operand)
    return False


# --- what one CFG node writes ------------------------------------------------------------------------------------------


def node_writes(nd):
    """(names bound, attribute/subscript base chains stored, ast parts evaluated) by one CFG node."""
    a = nd.ast
    if a is None or nd.kind in ("T", "F", "join", "entry", "exit", "rexit"):
        return set(), set(), []
    if nd.kind == "for":
        parts = [a.target, a.iter]
    elif nd.kind == "with":
        parts = [x for it in a.items for x in (it.context_expr, it.optional_vars) if x is not None]
    elif nd.kind == "handler":
        return ({a.name} if getattr(a, "name", None) else set()), set(), []
    else:
        parts = [a]
    names, chains = set(), set()
    for part in parts:
        for n in walk_no_nested(part):
            if isinstance(n, ast.Name) and isinstance(n.ctx, (ast.Store, ast.Del)):
                names.add(n.id)
            elif isinstance(n, ast.NamedExpr):
                names.add(n.target.id)
            elif isinstance(n, (ast.Attribute, ast.Subscript)) and isinstance(n.ctx, (ast.Store, ast.Del)):
                b = n
                while isinstance(b, ast.Subscript):
                    b = b.value
                c = chain(b)
                if c:
                    chains.add(c)
            elif isinstance(n, (ast.FunctionDef, ast.AsyncFunctionDef, ast.ClassDef)) and n is not part:
                names.add(n.name)
            elif isinstance(n, (ast.Import, ast.ImportFrom)):
                for al in n.names:
                    names.add((al.asname or al.name).split(".")[0])
    return names, chains, parts


# --- values along a path -------------------------------------------------------------------------------------------------

# abstract values: ("const", v) | ("nonnull", truthy) with truthy True/None (None: not known) |
#                  ("cond", expr, position, env at the definition) | ("sentinel", Sentinel) (see below)
_NONNULL = ("nonnull", None)
_TRUTHY = ("nonnull", True)
_BUILTIN_VALUES = {"int", "len", "bytes", "str", "bool", "list", "dict", "tuple", "set", "frozenset", "bytearray", "float", "abs", "repr", "sorted", "int.from_bytes", "bytes.fromhex"}
# functions of the standard library / of cbor2 that build their result out of builtin types only (possibly None, e.g.
# json.load of "null"), whatever they are handed -- as long as no hook is passed that lets the caller construct the
# result: such a value is never an object private to the analysed program
_PLAIN_DECODERS = {"json.load", "json.loads", "cbor2.load", "cbor2.loads", "binascii.unhexlify", "binascii.hexlify", "binascii.a2b_hex", "binascii.b2a_hex",
                   "base64.b64decode", "base64.b64encode", "base64.urlsafe_b64decode", "base64.urlsafe_b64encode", "struct.unpack", "struct.pack",
                   "os.path.join", "os.urandom", "secrets.token_bytes", "secrets.token_hex"}
_PLAIN = ("plain", None)
_EMPTY = {}
# builtin bases whose instances are true (no __bool__/__len__)
_PLAIN_BASES = {"object", "Exception", "BaseException", "ValueError", "RuntimeError", "KeyError", "TypeError", "LookupError", "OSError", "ConnectionError", "AttributeError", "NotImplementedError", "ArithmeticError"}


def _boolish(e):
    return isinstance(e, (ast.Compare, ast.BoolOp)) or (isinstance(e, ast.UnaryOp) and isinstance(e.op, ast.Not))


def _genuine_bool(e):
    """Does the expression evaluate to a bool object (not merely to something with a truth value)?"""
    if isinstance(e, ast.Compare):
        return True  # (rich comparisons of the types handled here return bool)
    if isinstance(e, ast.UnaryOp) and isinstance(e.op, ast.Not):
        return True
    if isinstance(e, ast.Constant):
        return isinstance(e.value, bool)
    if isinstance(e, ast.BoolOp):
        return all(_genuine_bool(v) for v in e.values)
    return False


# --- sentinels: objects with an identity the rule knows -------------------------------------------------------------------
#
# "No such file", "nothing to strike out", "not decided yet" are carried in a local not only as None / False but as a
# dedicated object: a class-level or module-level constant `_MISSING = object()` / `Sentinel("...")`, or a fresh
# `object()` made in the function.  `x = self._MISSING ... x = load() ... if x is self._MISSING:` is then the flag
# "the load did not complete", exactly as `x = None ... if x is None:` is.  What makes the reading sound is that the
# *identity* of such an object is known:
#
# * a slot (class attribute reached through self / cls / type(self) / the class's name, or a module-level name, also
#   imported) that is bound exactly once in the whole program, to a call that creates a fresh object (`object()`, or a
#   class of the program without __new__ / metaclass whose bases are all known), that no other class binds (no override
#   in a subclass), that no function declares `global`, and whose name is never the target of an attribute store,
#   `del`, `setattr` or `delattr` anywhere -- two evaluations of the slot give the same object, and nothing else in the
#   program (a constant, the result of a conversion, an object constructed later, another slot) is that object;
# * `object()` evaluated at one position of one path is one object, distinct from every other evaluation.
#
# `==` follows identity only when the object's class keeps object.__eq__ (and the other side is a constant or another
# such object); everything else stays undecided.


class Sentinel:
    """One such object: `key` identifies the slot (or the evaluation), `truthy` whether its truth value is known to be
    true (no __bool__ / __len__), `plain_eq` whether `==` on it is identity."""

    __slots__ = ("key", "truthy", "plain_eq")

    def __init__(self, key, truthy, plain_eq):
        self.key, self.truthy, self.plain_eq = key, truthy, plain_eq

    def __eq__(self, other):
        return isinstance(other, Sentinel) and other.key == self.key

    def __ne__(self, other):
        return not self.__eq__(other)

    def __hash__(self):
        return hash(self.key)

    def __repr__(self):
        return "<sentinel %s>" % (self.key,)


def _scope_binding_counts(body):
    """{name: number of binding occurrences} in the statements of one module / class scope (nested function and class
    bodies are scopes of their own; their names are bound here)."""
    cnt = {}

    def add(nm):
        cnt[nm] = cnt.get(nm, 0) + 1

    for st in body:
        if isinstance(st, (ast.FunctionDef, ast.AsyncFunctionDef, ast.ClassDef)):
            add(st.name)
            continue
        for n in walk_no_nested(st):
            if isinstance(n, ast.Name) and isinstance(n.ctx, (ast.Store, ast.Del)):
                add(n.id)
            elif isinstance(n, (ast.FunctionDef, ast.AsyncFunctionDef, ast.ClassDef)):
                add(n.name)
            elif isinstance(n, (ast.Import, ast.ImportFrom)):
                for al in n.names:
                    add((al.asname or al.name).split(".")[0])
                    if al.name == "*":
                        add("*")
            elif isinstance(n, ast.ExceptHandler) and n.name:
                add(n.name)
    return cnt


class SentinelIndex:
    """Which slots of the program hold a sentinel (see above).  One per Program (`SentinelIndex.of(prog)`)."""

    @classmethod
    def of(cls, prog):
        idx = prog.__dict__.get("_c12_sentinel_index")
        if idx is None:
            idx = prog.__dict__["_c12_sentinel_index"] = cls(prog)
        return idx

    def __init__(self, prog):
        self.prog = prog
        self._slots = {}
        self._mod_counts = {}
        # names that are the target of an attribute store / del / setattr / delattr anywhere, names declared global in a
        # function, names bound in class bodies (per class)
        self.attr_stored = set()
        self.dynamic_setattr = False
        self.globals_declared = {}
        self.class_bound = {}
        for m in prog.modules.values():
            g = self.globals_declared.setdefault(m.name, set())
            for n in ast.walk(m.tree):
                if isinstance(n, ast.Attribute) and isinstance(n.ctx, (ast.Store, ast.Del)):
                    self.attr_stored.add(n.attr)
                elif isinstance(n, ast.Global):
                    g.update(n.names)
                elif isinstance(n, ast.Call) and isinstance(n.func, ast.Name) and n.func.id in ("setattr", "delattr") and len(n.args) >= 2:
                    if isinstance(n.args[1], ast.Constant) and isinstance(n.args[1].value, str):
                        self.attr_stored.add(n.args[1].value)
                    # (a computed attribute name: the repository uses those for option descriptors and deprecation
                    # shims, with names built from tables; a slot is disqualified only by a store the rule can name)
                elif isinstance(n, ast.ClassDef):
                    for nm, k in _scope_binding_counts(n.body).items():
                        self.class_bound.setdefault(nm, []).append((n, k))

    def _fresh_object(self, module, value):
        """(truthy, plain_eq) when `value`, evaluated in `module`'s scope, creates a fresh object of a known class."""
        if not isinstance(value, ast.Call) or any(isinstance(a, ast.Starred) for a in value.args) or any(k.arg is None for k in value.keywords):
            return None
        cn = chain(value.func)
        if not cn:
            return None
        head = cn.split(".")[0]
        prog = self.prog
        if cn == "object":
            if value.args or value.keywords or head in module.imports or self._module_counts(module).get("object"):
                return None
            return (True, True)
        try:
            qn = prog.resolve_in_module(module, cn)
        except Exception:
            return None
        ci = prog.classes.get(qn)
        if ci is None:
            return None
        try:
            mro = list(prog.mro(ci.qn))
        except Exception:
            return None
        if not all(q in prog.classes or q in _PLAIN_BASES for q in mro):
            return None
        if any(getattr(prog.classes[q].node, "keywords", None) for q in mro if q in prog.classes):
            return None  # a metaclass decides what calling the class returns
        if any(prog.classes[q].node.decorator_list for q in mro if q in prog.classes):
            return None  # a decorator may replace the class or give it __eq__ / __bool__ (dataclass)
        meths = {mn for q in mro if q in prog.classes for mn in prog.classes[q].methods}
        attrs = {an for q in mro if q in prog.classes for an in prog.classes[q].attrs}
        if "__new__" in meths or "__new__" in attrs:
            return None
        special = meths | attrs
        return ("__bool__" not in special and "__len__" not in special, "__eq__" not in special)

    def _module_counts(self, module):
        c = self._mod_counts.get(module.name)
        if c is None:
            c = self._mod_counts[module.name] = _scope_binding_counts(module.tree.body)
        return c

    def class_slot(self, clsqn, name):
        key = ("class", clsqn, name)
        if key in self._slots:
            return self._slots[key]
        r = None
        prog = self.prog
        try:
            value, owner = prog.class_attr(clsqn, name)
        except Exception:
            value, owner = None, None
        if value is not None and owner is not None and name not in self.attr_stored:
            bound = self.class_bound.get(name, [])
            # bound once, in the class that owns it, and in no other class of the program (no override)
            if len(bound) == 1 and bound[0][0] is owner.node and bound[0][1] == 1:
                fo = self._fresh_object(owner.module, value)
                if fo is not None:
                    r = Sentinel(("slot", owner.qn, name), fo[0], fo[1])
        self._slots[key] = r
        return r

    def module_slot(self, module, name):
        key = ("module", module.name, name)
        if key in self._slots:
            return self._slots[key]
        r = None
        cnt = self._module_counts(module)
        if cnt.get(name) == 1 and not cnt.get("*") and name not in self.attr_stored and name not in self.globals_declared.get(module.name, ()):
            value = None
            for st in module.tree.body:
                if isinstance(st, ast.Assign) and len(st.targets) == 1 and isinstance(st.targets[0], ast.Name) and st.targets[0].id == name:
                    value = st.value
                elif isinstance(st, ast.AnnAssign) and isinstance(st.target, ast.Name) and st.target.id == name:
                    value = st.value
            fo = self._fresh_object(module, value) if value is not None else None
            if fo is not None:
                r = Sentinel(("slot", module.name, name), fo[0], fo[1])
        self._slots[key] = r
        return r

    def qualified(self, q):
        """The sentinel a qualified name `aiocoap.mod.NAME` / `aiocoap.mod.Class.NAME` denotes, or None."""
        prog = self.prog
        if "." not in q:
            return None
        owner, name = q.rsplit(".", 1)
        if owner in prog.classes:
            return self.class_slot(owner, name)
        m = prog.modules.get(owner)
        if m is not None:
            if name in m.imports and not self._module_counts(m).get(name, 0) > 1:
                tgt = m.imports[name]
                if tgt != q:
                    return self.qualified(tgt)  # re-exported
            return self.module_slot(m, name)
        return None


class State:
    __slots__ = ("env", "origin")

    def __init__(self, env=None, origin=None):
        self.env = {} if env is None else env
        self.origin = {} if origin is None else origin

    def copy(self):
        return State(dict(self.env), dict(self.origin))

    def origin_of(self, name):
        return self.origin.get(name, ("entry", name))


class Values:
    def __init__(self, fi, cfg, prog=None):
        self.fi, self.cfg, self.prog = fi, cfg, prog
        self._binds = {}
        self._calls = {}
        self._names = {}
        self.defsite = {}  # origin key -> (statement, value expr or None, name)
        # a local that an inner function rebinds is not a value of this function's paths alone
        self.untracked = set()
        for n in ast.walk(fi.node):
            if isinstance(n, (ast.Nonlocal, ast.Global)):
                self.untracked |= set(n.names)
        shadow = set()
        for n in ast.walk(fi.node):
            if isinstance(n, ast.Name) and isinstance(n.ctx, (ast.Store, ast.Del)):
                shadow.add(n.id)
            elif isinstance(n, ast.arg):
                shadow.add(n.arg)
        self._shadow = shadow
        # names a bare Name in this function may mean instead of a module-level name: its own locals and those of the
        # functions it is nested in
        scope = set(shadow)
        anc = getattr(fi, "parent", None)
        while anc is not None:
            for n in ast.walk(anc.node):
                if isinstance(n, ast.Name) and isinstance(n.ctx, (ast.Store, ast.Del)):
                    scope.add(n.id)
                elif isinstance(n, ast.arg):
                    scope.add(n.arg)
                elif isinstance(n, (ast.FunctionDef, ast.AsyncFunctionDef, ast.ClassDef)):
                    scope.add(n.name)
            anc = getattr(anc, "parent", None)
        for n in ast.walk(fi.node):
            if isinstance(n, (ast.FunctionDef, ast.AsyncFunctionDef, ast.ClassDef)) and n is not fi.node:
                scope.add(n.name)
            elif isinstance(n, (ast.Import, ast.ImportFrom)):
                for al in n.names:
                    scope.add((al.asname or al.name).split(".")[0])
            elif isinstance(n, ast.ExceptHandler) and n.name:
                scope.add(n.name)
        self._scope = scope
        self._sent = {}
        self._sidx = SentinelIndex.of(prog) if prog is not None and hasattr(prog, "modules") else None

    # -- bindings of one node
    def binds(self, nid):
        """[(name, value expr | None, statement)] -- the locals the node binds, with the expression when the binding is
        a plain `name = expr` (element-wise for `a, b = x, y`)."""
        r = self._binds.get(nid)
        if r is not None:
            return r
        nd = self.cfg.nodes[nid]
        names, _chains, _parts = node_writes(nd)
        out = []
        a = nd.ast
        done = set()
        if nd.kind == "stmt" and isinstance(a, (ast.Assign, ast.AnnAssign)) and getattr(a, "value", None) is not None:
            targets = a.targets if isinstance(a, ast.Assign) else [a.target]
            for t in targets:
                if isinstance(t, ast.Name):
                    out.append((t.id, a.value, a))
                    done.add(t.id)
                elif isinstance(t, (ast.Tuple, ast.List)) and isinstance(a.value, (ast.Tuple, ast.List)) and len(t.elts) == len(a.value.elts) \
                        and not any(isinstance(x, ast.Starred) for x in list(t.elts) + list(a.value.elts)):
                    for el, v in zip(t.elts, a.value.elts):
                        if isinstance(el, ast.Name):
                            out.append((el.id, v, a))
                            done.add(el.id)
            # a name bound twice by one statement: not a plain binding
            seen = [x[0] for x in out]
            if len(seen) != len(set(seen)):
                out, done = [], set()
            # a walrus inside the value binds as well
        for nm in sorted(names - done):
            out.append((nm, None, a))
        self._binds[nid] = out
        return out

    def _call_value(self, c):
        k = id(c)
        if k in self._calls:
            return self._calls[k]
        r = None
        cn = chain(c.func)
        if cn:
            head = cn.split(".")[0]
            if cn in _BUILTIN_VALUES and head not in self._shadow and head not in getattr(self.fi.module, "imports", {}):
                r = _NONNULL
            elif self.prog is not None and head not in self._shadow:
                try:
                    qn = self.prog.resolve_in_module(self.fi.module, cn)
                except Exception:
                    qn = None
                ci = self.prog.classes.get(qn) if qn else None
                if ci is not None:
                    # an instance of a class of the program: never None; true unless the class says otherwise
                    try:
                        mro = list(self.prog.mro(ci.qn))
                    except Exception:
                        mro = None
                    if mro is not None:
                        meths = {m for q in mro if q in self.prog.classes for m in self.prog.classes[q].methods}
                        metas = any(getattr(self.prog.classes[q].node, "keywords", None) for q in mro if q in self.prog.classes)
                        known = all(q in self.prog.classes or q in _PLAIN_BASES for q in mro)
                        if "__new__" in meths or metas:
                            r = None  # __new__ / a metaclass may return anything
                        elif known and "__bool__" not in meths and "__len__" not in meths:
                            r = _TRUTHY
                        else:
                            r = _NONNULL
        self._calls[k] = r
        return r

    def _plain_call(self, c):
        """Is the call one to a decoder of _PLAIN_DECODERS (resolved through the module's imports), without hooks?"""
        if not isinstance(c, ast.Call) or c.keywords or any(isinstance(a, ast.Starred) for a in c.args):
            return False
        cn = chain(c.func)
        if not cn:
            return False
        parts = cn.split(".")
        imports = getattr(self.fi.module, "imports", {})
        if parts[0] in self._scope or parts[0] not in imports:
            return False
        if self._sidx is not None and self._sidx._module_counts(self.fi.module).get(parts[0], 0) > 1:
            return False
        return ".".join([imports[parts[0]]] + parts[1:]) in _PLAIN_DECODERS

    def _snap(self, e, env):
        """The part of the environment an expression reads (what its names meant where it was evaluated)."""
        k = id(e)
        nm = self._names.get(k)
        if nm is None:
            nm = self._names[k] = (e, tuple(sorted({n.id for n in ast.walk(e) if isinstance(n, ast.Name)})))
        snap = _EMPTY
        for x in nm[1]:
            v = env.get(x)
            if v is not None:
                if snap is _EMPTY:
                    snap = {}
                snap[x] = v
        return snap

    # -- sentinels
    def _self_class(self, name):
        """The class whose instance (or which itself, for a classmethod) the name denotes: the first parameter of the
        method this function is, or is nested in, when nothing rebinds it on the way."""
        f = self.fi
        while f is not None:
            a = f.node.args if hasattr(f.node, "args") else None
            first = None
            if a is not None:
                pos = list(getattr(a, "posonlyargs", [])) + list(a.args)
                first = pos[0].arg if pos else None
            rebound = any(isinstance(n, ast.Name) and n.id == name and isinstance(n.ctx, (ast.Store, ast.Del)) for n in ast.walk(f.node))
            if rebound:
                return None
            allargs = set()
            if a is not None:
                allargs = {x.arg for x in list(getattr(a, "posonlyargs", [])) + list(a.args) + list(a.kwonlyargs)} | {x.arg for x in (a.vararg, a.kwarg) if x is not None}
            if first == name:
                if f.cls is None:
                    return None
                for d in getattr(f.node, "decorator_list", []):
                    if chain(d) == "staticmethod":
                        return None
                return f.cls
            if name in allargs:
                return None
            f = getattr(f, "parent", None)
        return None

    def sentinel_of(self, e):
        """The Sentinel the expression denotes wherever it is evaluated in this function (a never-rebound slot holding a
        unique object, see SentinelIndex), or None."""
        if self._sidx is None or not isinstance(e, (ast.Name, ast.Attribute)):
            return None
        k = id(e)
        if k in self._sent:
            return self._sent[k][1]
        r = None
        idx, fi = self._sidx, self.fi
        recv = None
        if isinstance(e, ast.Attribute):
            v = e.value
            if isinstance(v, ast.Name):
                recv = self._self_class(v.id)
            elif isinstance(v, ast.Call) and isinstance(v.func, ast.Name) and v.func.id == "type" and "type" not in self._scope \
                    and len(v.args) == 1 and not v.keywords and isinstance(v.args[0], ast.Name):
                recv = self._self_class(v.args[0].id)
            elif isinstance(v, ast.Attribute) and v.attr == "__class__" and isinstance(v.value, ast.Name):
                recv = self._self_class(v.value.id)
        if recv is not None:
            r = idx.class_slot(recv.qn, e.attr)
        else:
            c = chain(e)
            head = c.split(".")[0] if c else None
            if c and head not in self._scope and head not in self.untracked and idx._module_counts(fi.module).get(head, 0) <= 1 \
                    and not idx._module_counts(fi.module).get("*") and head not in idx.globals_declared.get(fi.module.name, ()):
                try:
                    q = self.prog.resolve_in_module(fi.module, c)
                except Exception:
                    q = None
                if q:
                    r = idx.qualified(q)
        self._sent[k] = (e, r)
        return r

    def _is_object_call(self, e):
        return isinstance(e, ast.Call) and isinstance(e.func, ast.Name) and e.func.id == "object" and not e.args and not e.keywords \
            and "object" not in self._scope and self._sidx is not None and "object" not in getattr(self.fi.module, "imports", {}) \
            and not self._sidx._module_counts(self.fi.module).get("object")

    def absval(self, e, env, pos):
        if isinstance(e, ast.Constant):
            return ("const", e.value)
        if isinstance(e, ast.Name):
            v = env.get(e.id)
            if v is None and e.id not in self._shadow:
                s = self.sentinel_of(e)
                if s is not None:
                    return ("sentinel", s)
            return v
        if isinstance(e, ast.Attribute):
            s = self.sentinel_of(e)
            return ("sentinel", s) if s is not None else None
        if self._is_object_call(e):
            # a fresh object(): this evaluation's own identity
            return ("sentinel", Sentinel(("fresh", id(e), pos), True, True))
        if _boolish(e):
            return ("cond", e, pos, self._snap(e, env))
        if isinstance(e, ast.Call):
            r = self._call_value(e)
            if r is None:
                # the (unknown) result of a call: as a branch condition the name means "that call, made there, was true"
                return ("cond", e, pos, self._snap(e, env))
            return r
        if isinstance(e, ast.IfExp):
            a, b = self.absval(e.body, env, pos), self.absval(e.orelse, env, pos)
            if a is None or b is None:
                return None
            if a == b and a[0] != "cond":
                return a
            if a[0] == "nonnull" and b[0] == "nonnull":
                return _TRUTHY if a[1] and b[1] else _NONNULL
            return None
        if isinstance(e, (ast.Tuple, ast.List, ast.Set, ast.Dict)):
            n = len(e.keys) if isinstance(e, ast.Dict) else len(e.elts)
            starred = isinstance(e, ast.Dict) and any(k is None for k in e.keys) or (not isinstance(e, ast.Dict) and any(isinstance(x, ast.Starred) for x in e.elts))
            if n and not starred:
                return _TRUTHY
            return _NONNULL
        if isinstance(e, (ast.JoinedStr, ast.Lambda, ast.ListComp, ast.SetComp, ast.DictComp, ast.GeneratorExp)):
            return _NONNULL
        return None

    # -- one step
    def step(self, st, nid, nxt, pos):
        """Apply the bindings of node nid (at position pos of the path) given that the path continues to `nxt`."""
        b = self.binds(nid)
        if not b:
            return
        exc_only = False
        if nxt is not None:
            labs = {lab for d, lab in self.cfg.succ[nid] if d == nxt}
            exc_only = labs == {"exc"}
        if exc_only:
            # the statement raised: a plain assignment did not bind (its value is evaluated first); anything else may
            # or may not have
            for nm, v, stmt in b:
                if v is None:
                    st.env.pop(nm, None)
                    st.origin[nm] = ("unknown", nm)
            return
        new_env, new_org = [], []
        for nm, v, stmt in b:
            if v is None or nm in self.untracked:
                new_env.append((nm, None))
                key = ("def", id(stmt), nm)
                self.defsite.setdefault(key, (stmt, None, nm))
                new_org.append((nm, key))
                continue
            new_env.append((nm, self.absval(v, st.env, pos)))
            if isinstance(v, ast.Name):
                new_org.append((nm, st.origin_of(v.id)))
            else:
                key = ("def", id(v), nm)
                self.defsite.setdefault(key, (stmt, v, nm))
                new_org.append((nm, key))
        for nm, av in new_env:
            if av is None:
                st.env.pop(nm, None)
            else:
                st.env[nm] = av
        for nm, key in new_org:
            st.origin[nm] = key

    # -- truth of a test under the values
    def _side(self, x, env):
        if isinstance(x, ast.Constant):
            return ("const", x.value)
        if isinstance(x, ast.Name):
            v = env.get(x.id)
            if v is not None and v[0] == "cond":
                if _genuine_bool(v[1]):
                    return _NONNULL
                return _PLAIN if self._plain_call(v[1]) else None
            if v is None and x.id not in self._shadow:
                s = self.sentinel_of(x)
                if s is not None:
                    return ("sentinel", s)
            return v
        if isinstance(x, ast.Attribute):
            s = self.sentinel_of(x)
            return ("sentinel", s) if s is not None else None
        if isinstance(x, ast.Call):
            r = self._call_value(x)
            return _PLAIN if r is None and self._plain_call(x) else r
        return None

    @staticmethod
    def _sentinel_cmp(a, b, ident):
        """Is a the same object as b (ident) / equal to b, one of them being a sentinel?  True / False / None."""
        if a[0] != "sentinel":
            a, b = b, a
        s = a[1]
        if b[0] == "sentinel":
            t = b[1]
            if s == t:
                return True if ident or s.plain_eq else None  # x is x; x == x by object.__eq__
            # two slots, each bound once to its own fresh object (or two evaluations of object()): different objects
            return False if ident or (s.plain_eq and t.plain_eq) else None
        if b[0] == "const":
            # None, booleans, numbers, strings are not instances of object-and-nothing-else / of a class of the program
            return False if ident or s.plain_eq else None
        if b[0] == "nonnull":
            # the result of a builtin conversion, a display, or an object constructed when that expression was evaluated:
            # none of them is the object a never-rebound slot was given when its class / module was created, nor the
            # object another evaluation of object() made.  Equality is the other operand's business.
            return False if ident else None
        if b[0] == "plain":
            # built by a decoder of the standard library out of builtin types (see _PLAIN_DECODERS)
            return False if ident or s.plain_eq else None
        return None

    def truth(self, e, env, depth=6):
        """True / False / None: the truth value the expression must have given the values of the locals."""
        if isinstance(e, ast.Constant):
            return bool(e.value)
        if isinstance(e, ast.Name):
            v = env.get(e.id)
            if v is None:
                return None
            if v[0] == "const":
                return bool(v[1])
            if v[0] == "nonnull":
                return True if v[1] else None
            if v[0] == "sentinel":
                return True if v[1].truthy else None
            if v[0] == "cond" and depth:
                return self.truth(v[1], v[3], depth - 1)
            return None
        if isinstance(e, ast.UnaryOp) and isinstance(e.op, ast.Not):
            t = self.truth(e.operand, env, depth)
            return None if t is None else (not t)
        if isinstance(e, ast.BoolOp):
            vals = [self.truth(v, env, depth) for v in e.values]
            if isinstance(e.op, ast.And):
                if any(v is False for v in vals):
                    return False
                return True if all(v is True for v in vals) else None
            if any(v is True for v in vals):
                return True
            return False if all(v is False for v in vals) else None
        if isinstance(e, ast.Compare) and len(e.ops) == 1 and isinstance(e.ops[0], (ast.Is, ast.IsNot, ast.Eq, ast.NotEq)):
            a, b = self._side(e.left, env), self._side(e.comparators[0], env)
            if a is None or b is None:
                return None
            ident = isinstance(e.ops[0], (ast.Is, ast.IsNot))
            r = None
            if a[0] == "sentinel" or b[0] == "sentinel":
                r = self._sentinel_cmp(a, b, ident)
            elif a[0] == "const" and b[0] == "const":
                x, y = a[1], b[1]
                if x is None or y is None:
                    r = x is None and y is None
                elif ident:
                    r = (x == y) if isinstance(x, bool) and isinstance(y, bool) else None
                else:
                    try:
                        r = bool(x == y)
                    except Exception:
                        r = None
            elif (a[0] == "const" and a[1] is None and b[0] == "nonnull") or (b[0] == "const" and b[1] is None and a[0] == "nonnull"):
                r = False
            if r is None:
                return None
            return r if isinstance(e.ops[0], (ast.Is, ast.Eq)) else (not r)
        return None

    def feasible(self, nodes):
        """No branch outcome on the node sequence contradicts the value a local has there."""
        st = State()
        cfg = self.cfg
        last = len(nodes) - 1
        for j, n in enumerate(nodes):
            nd = cfg.nodes[n]
            if nd.kind in ("T", "F"):
                if isinstance(nd.ast, ast.expr) and st.env:
                    t = self.truth(nd.ast, st.env)
                    if t is not None and t != (nd.kind == "T"):
                        return False
            else:
                self.step(st, n, nodes[j + 1] if j < last else None, j)
        return True

    def state_before(self, nodes, idx):
        """State of the locals when control arrives at nodes[idx]."""
        st = State()
        for j in range(idx):
            n = nodes[j]
            if self.cfg.nodes[n].kind not in ("T", "F"):
                self.step(st, n, nodes[j + 1], j)
        return st

    # -- what a branch outcome states
    def expand(self, e, pol, env, at=None, depth=4):
        """Atomic facts [(expr, polarity, position of evaluation | None)] implied by `e` having truth value `pol` at a
        branch, a name that holds a condition being read as that condition where it was bound.  A name that holds a
        constant states nothing (its truth is decided, see `feasible`)."""
        if isinstance(e, ast.Name):
            v = env.get(e.id)
            if v is not None and v[0] == "cond" and depth:
                return self.expand(v[1], pol, v[3], v[2], depth - 1)
            if v is not None and v[0] == "const":
                return []
            return [(e, pol, at)]
        if isinstance(e, ast.UnaryOp) and isinstance(e.op, ast.Not):
            return self.expand(e.operand, not pol, env, at, depth)
        if isinstance(e, ast.BoolOp):
            if isinstance(e.op, ast.And) == pol:
                out = []
                for v in e.values:
                    out.extend(self.expand(v, pol, env, at, depth))
                return out
            # a false conjunction / true disjunction: what remains once the operands with a known truth are removed
            rest = []
            for v in e.values:
                t = self.truth(v, env)
                if t is None:
                    rest.append(v)
                elif t == pol:
                    return []  # that operand alone explains the outcome
            if len(rest) == 1:
                return self.expand(rest[0], pol, env, at, depth)
            return []
        if isinstance(e, ast.Constant):
            return []
        return [(e, pol, at)]


# --- conditional expressions in value position -----------------------------------------------------------------------------


class _Hoist:
    """Replace the conditional expressions that are evaluated *first* in an expression (nothing but loads of names,
    attribute chains and constants is evaluated before them) by fresh locals; the caller binds those locals, in order,
    immediately before the statement.  `t = A if c else B; S[t]` evaluates exactly what `S[A if c else B]` evaluates, in
    the same order, as long as only such loads come before it -- the same purity assumption the engine's copy
    propagation makes when it moves `x = A if c else B` into the uses of x (which is how such expressions get here:
    `if (seqno if ok else None) is not None: w.strike_out(seqno if ok else None)`)."""

    def __init__(self, fresh):
        self.fresh = fresh
        self.out = []
        self.pure = True  # nothing with an effect has been evaluated so far

    def value(self, e):
        """e in value position; returns the replacement."""
        if not self.pure:
            return e
        if isinstance(e, ast.IfExp):
            nm = self.fresh()
            self.out.append((nm, e))
            return ast.copy_location(ast.Name(id=nm, ctx=ast.Load()), e)
        if isinstance(e, (ast.Name, ast.Constant)):
            return e
        if isinstance(e, ast.Attribute):
            e.value = self.value(e.value)
            return e
        if isinstance(e, ast.Call):
            e.func = self.value(e.func)
            for i, a in enumerate(e.args):
                if isinstance(a, ast.Starred):
                    self.pure = False
                    break
                e.args[i] = self.value(a)
            if self.pure:
                for k in e.keywords:
                    if k.arg is None:
                        self.pure = False
                        break
                    k.value = self.value(k.value)
            self.pure = False  # the call itself
            return e
        if isinstance(e, ast.Compare):
            e.left = self.value(e.left)
            for i, (op, c) in enumerate(zip(e.ops, e.comparators)):
                if i > 0:
                    self.pure = False  # later operands are evaluated conditionally
                    break
                e.comparators[i] = self.value(c)
                if not isinstance(op, (ast.Is, ast.IsNot)):
                    self.pure = False  # __eq__ / __lt__ / __contains__ run
            return e
        if isinstance(e, ast.UnaryOp):
            e.operand = self.value(e.operand)
            if not isinstance(e.op, ast.Not):
                self.pure = False
            return e
        if isinstance(e, ast.BoolOp):
            e.values[0] = self.value(e.values[0])
            self.pure = False  # the other operands are evaluated conditionally
            return e
        if isinstance(e, (ast.Tuple, ast.List)):
            for i, x in enumerate(e.elts):
                if isinstance(x, ast.Starred):
                    self.pure = False
                    break
                e.elts[i] = self.value(x)
            return e
        if isinstance(e, ast.BinOp):
            e.left = self.value(e.left)
            e.right = self.value(e.right)
            self.pure = False
            return e
        if isinstance(e, ast.Subscript):
            e.value = self.value(e.value)
            e.slice = self.value(e.slice)
            self.pure = False
            return e
        self.pure = False
        return e

    def test(self, e):
        """e in boolean position: conditional expressions there are left to `bool_form`."""
        if isinstance(e, ast.IfExp):
            self.pure = False
            return e
        if isinstance(e, ast.UnaryOp) and isinstance(e.op, ast.Not):
            e.operand = self.test(e.operand)
            return e
        if isinstance(e, ast.BoolOp):
            e.values[0] = self.test(e.values[0])
            self.pure = False
            return e
        return self.value(e)


def hoist_leading_ifexps(e, fresh, boolean=False):
    """(expression with the leading value-position conditional expressions replaced by fresh names, [(name, IfExp)])"""
    h = _Hoist(fresh)
    e = h.test(e) if boolean else h.value(e)
    return e, h.out
