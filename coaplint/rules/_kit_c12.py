"""Kit for rules/c12.py: what a local *means* where it is used.

The first pass read guards as the branch outcomes on the paths to a site and followed a name only when the whole
function assigns it once.  A maintainer who carries a decision from the place where it is taken to the place where it
is used -- a sentinel (`to_strike = None ... to_strike = seqno ... if to_strike is not None:`), a flag
(`fresh = False ... fresh = True ... if fresh:`), a named condition assigned in two arms, a copy of the number under
another name -- defeats both.  This module gives the path model the missing piece, *values along a path*:

* `Values` walks the node sequence of one modelled path and keeps, per local, an abstract value (a constant, "an object
  that is not None", "the truth value of expression E as evaluated at position j") and the *root definition* the value
  came from (copies `a = b` are looked through at the moment of the copy);
* a branch outcome that contradicts the value a local has on that path makes the path infeasible (`feasible`): such
  paths are dropped from the model, so that `x is not None` after `x = None` / `x = n` means "the definition `x = n`
  was passed, together with everything that guarded it";
* a branch on a name that holds a condition is read as that condition, evaluated where the name was bound
  (`expand`), whatever the number of assignments to the name in the function.

`bool_form` rewrites a conditional expression in boolean position into and/or/not (the engine now expands multi-return
predicate helpers into conditional-expression trees), so that the CFG decomposes it like any other test.
"""

import ast
import copy

from ..model import walk_no_nested
from ..pat import chain


# --- conditional expressions in boolean position --------------------------------------------------------------------


def _cbool(e):
    return isinstance(e, ast.Constant) and isinstance(e.value, bool)


def _not(e):
    if isinstance(e, ast.UnaryOp) and isinstance(e.op, ast.Not):
        return e.operand
    return ast.copy_location(ast.UnaryOp(op=ast.Not(), operand=e), e)


def _bop(op, vals, at):
    return ast.copy_location(ast.BoolOp(op=op, values=list(vals)), at)


def bool_form(e):
    """An expression with the same truth value as `e` in which no conditional expression sits in boolean position:
    `A if c else B` is true exactly when (c and A) or (not c and B).  With a constant arm that is `c or B`,
    `not c and B`, `not c or A`, `c and A` (c is evaluated once, as in the original); in the general form the condition
    occurs twice, which is immaterial for an analysis that never executes it (both occurrences are the same atom of the
    path model)."""
    if isinstance(e, ast.BoolOp):
        vals = [bool_form(v) for v in e.values]
        if all(a is b for a, b in zip(vals, e.values)):
            return e
        return _bop(e.op, vals, e)
    if isinstance(e, ast.UnaryOp) and isinstance(e.op, ast.Not):
        v = bool_form(e.operand)
        return e if v is e.operand else ast.copy_location(ast.UnaryOp(op=ast.Not(), operand=v), e)
    if isinstance(e, ast.IfExp):
        c, a, b = bool_form(e.test), bool_form(e.body), bool_form(e.orelse)
        if _cbool(a) and _cbool(b):
            if a.value == b.value:
                # the condition is still evaluated (it may have an effect): keep it as a conjunct/disjunct that decides nothing
                return _bop(ast.Or(), [c, a], e) if a.value else _bop(ast.And(), [c, a], e)
            return c if a.value else _not(c)
        if _cbool(a):
            return _bop(ast.Or(), [c, b], e) if a.value else _bop(ast.And(), [_not(c), b], e)
        if _cbool(b):
            return _bop(ast.Or(), [_not(c), a], e) if b.value else _bop(ast.And(), [c, a], e)
        c2 = copy.deepcopy(c)
        return _bop(ast.Or(), [_bop(ast.And(), [c, a], e), _bop(ast.And(), [_not(c2), b], e)], e)
    return e


def has_bool_ifexp(e):
    """Is there a conditional expression in boolean position of e?"""
    if isinstance(e, ast.IfExp):
        return True
    if isinstance(e, ast.BoolOp):
        return any(has_bool_ifexp(v) for v in e.values)
    if isinstance(e, ast.UnaryOp) and isinstance(e.op, ast.Not):
        return has_bool_ifexp(e.operand)
    return False


# --- what one CFG node writes ------------------------------------------------------------------------------------------


def node_writes(nd):
    """(names bound, attribute/subscript base chains stored, ast parts evaluated) by one CFG node."""
    a = nd.ast
    if a is None or nd.kind in ("T", "F", "join", "entry", "exit", "rexit"):
        return set(), set(), []
    if nd.kind == "for":
        parts = [a.target, a.iter]
    elif nd.kind == "with":
        parts = [x for it in a.items for x in (it.context_expr, it.optional_vars) if x is not None]
    elif nd.kind == "handler":
        return ({a.name} if getattr(a, "name", None) else set()), set(), []
    else:
        parts = [a]
    names, chains = set(), set()
    for part in parts:
        for n in walk_no_nested(part):
            if isinstance(n, ast.Name) and isinstance(n.ctx, (ast.Store, ast.Del)):
                names.add(n.id)
            elif isinstance(n, ast.NamedExpr):
                names.add(n.target.id)
            elif isinstance(n, (ast.Attribute, ast.Subscript)) and isinstance(n.ctx, (ast.Store, ast.Del)):
                b = n
                while isinstance(b, ast.Subscript):
                    b = b.value
                c = chain(b)
                if c:
                    chains.add(c)
            elif isinstance(n, (ast.FunctionDef, ast.AsyncFunctionDef, ast.ClassDef)) and n is not part:
                names.add(n.name)
            elif isinstance(n, (ast.Import, ast.ImportFrom)):
                for al in n.names:
                    names.add((al.asname or al.name).split(".")[0])
    return names, chains, parts


# --- values along a path -------------------------------------------------------------------------------------------------

# abstract values: ("const", v) | ("nonnull", truthy) with truthy True/None (None: not known) |
#                  ("cond", expr, position, env at the definition)
_NONNULL = ("nonnull", None)
_TRUTHY = ("nonnull", True)
_BUILTIN_VALUES = {"int", "len", "bytes", "str", "bool", "list", "dict", "tuple", "set", "frozenset", "bytearray", "float", "abs", "repr", "sorted", "int.from_bytes", "bytes.fromhex"}
_EMPTY = {}
# builtin bases whose instances are true (no __bool__/__len__)
_PLAIN_BASES = {"object", "Exception", "BaseException", "ValueError", "RuntimeError", "KeyError", "TypeError", "LookupError", "OSError", "ConnectionError", "AttributeError", "NotImplementedError", "ArithmeticError"}


def _boolish(e):
    return isinstance(e, (ast.Compare, ast.BoolOp)) or (isinstance(e, ast.UnaryOp) and isinstance(e.op, ast.Not))


def _genuine_bool(e):
    """Does the expression evaluate to a bool object (not merely to something with a truth value)?"""
    if isinstance(e, ast.Compare):
        return True  # (rich comparisons of the types handled here return bool)
    if isinstance(e, ast.UnaryOp) and isinstance(e.op, ast.Not):
        return True
    if isinstance(e, ast.Constant):
        return isinstance(e.value, bool)
    if isinstance(e, ast.BoolOp):
        return all(_genuine_bool(v) for v in e.values)
    return False


class State:
    __slots__ = ("env", "origin")

    def __init__(self, env=None, origin=None):
        self.env = {} if env is None else env
        self.origin = {} if origin is None else origin

    def copy(self):
        return State(dict(self.env), dict(self.origin))

    def origin_of(self, name):
        return self.origin.get(name, ("entry", name))


class Values:
    def __init__(self, fi, cfg, prog=None):
        self.fi, self.cfg, self.prog = fi, cfg, prog
        self._binds = {}
        self._calls = {}
        self._names = {}
        self.defsite = {}  # origin key -> (statement, value expr or None, name)
        # a local that an inner function rebinds is not a value of this function's paths alone
        self.untracked = set()
        for n in ast.walk(fi.node):
            if isinstance(n, (ast.Nonlocal, ast.Global)):
                self.untracked |= set(n.names)
        shadow = set()
        for n in ast.walk(fi.node):
            if isinstance(n, ast.Name) and isinstance(n.ctx, (ast.Store, ast.Del)):
                shadow.add(n.id)
            elif isinstance(n, ast.arg):
                shadow.add(n.arg)
        self._shadow = shadow

    # -- bindings of one node
    def binds(self, nid):
        """[(name, value expr | None, statement)] -- the locals the node binds, with the expression when the binding is
        a plain `name = expr` (element-wise for `a, b = x, y`)."""
        r = self._binds.get(nid)
        if r is not None:
            return r
        nd = self.cfg.nodes[nid]
        names, _chains, _parts = node_writes(nd)
        out = []
        a = nd.ast
        done = set()
        if nd.kind == "stmt" and isinstance(a, (ast.Assign, ast.AnnAssign)) and getattr(a, "value", None) is not None:
            targets = a.targets if isinstance(a, ast.Assign) else [a.target]
            for t in targets:
                if isinstance(t, ast.Name):
                    out.append((t.id, a.value, a))
                    done.add(t.id)
                elif isinstance(t, (ast.Tuple, ast.List)) and isinstance(a.value, (ast.Tuple, ast.List)) and len(t.elts) == len(a.value.elts) \
                        and not any(isinstance(x, ast.Starred) for x in list(t.elts) + list(a.value.elts)):
                    for el, v in zip(t.elts, a.value.elts):
                        if isinstance(el, ast.Name):
                            out.append((el.id, v, a))
                            done.add(el.id)
            # a name bound twice by one statement: not a plain binding
            seen = [x[0] for x in out]
            if len(seen) != len(set(seen)):
                out, done = [], set()
            # a walrus inside the value binds as well
        for nm in sorted(names - done):
            out.append((nm, None, a))
        self._binds[nid] = out
        return out

    def _call_value(self, c):
        k = id(c)
        if k in self._calls:
            return self._calls[k]
        r = None
        cn = chain(c.func)
        if cn:
            head = cn.split(".")[0]
            if cn in _BUILTIN_VALUES and head not in self._shadow and head not in getattr(self.fi.module, "imports", {}):
                r = _NONNULL
            elif self.prog is not None and head not in self._shadow:
                try:
                    qn = self.prog.resolve_in_module(self.fi.module, cn)
                except Exception:
                    qn = None
                ci = self.prog.classes.get(qn) if qn else None
                if ci is not None:
                    # an instance of a class of the program: never None; true unless the class says otherwise
                    try:
                        mro = list(self.prog.mro(ci.qn))
                    except Exception:
                        mro = None
                    if mro is not None:
                        meths = {m for q in mro if q in self.prog.classes for m in self.prog.classes[q].methods}
                        metas = any(getattr(self.prog.classes[q].node, "keywords", None) for q in mro if q in self.prog.classes)
                        known = all(q in self.prog.classes or q in _PLAIN_BASES for q in mro)
                        if "__new__" in meths or metas:
                            r = None  # __new__ / a metaclass may return anything
                        elif known and "__bool__" not in meths and "__len__" not in meths:
                            r = _TRUTHY
                        else:
                            r = _NONNULL
        self._calls[k] = r
        return r

    def _snap(self, e, env):
        """The part of the environment an expression reads (what its names meant where it was evaluated)."""
        k = id(e)
        nm = self._names.get(k)
        if nm is None:
            nm = self._names[k] = (e, tuple(sorted({n.id for n in ast.walk(e) if isinstance(n, ast.Name)})))
        snap = _EMPTY
        for x in nm[1]:
            v = env.get(x)
            if v is not None:
                if snap is _EMPTY:
                    snap = {}
                snap[x] = v
        return snap

    def absval(self, e, env, pos):
        if isinstance(e, ast.Constant):
            return ("const", e.value)
        if isinstance(e, ast.Name):
            return env.get(e.id)
        if _boolish(e):
            return ("cond", e, pos, self._snap(e, env))
        if isinstance(e, ast.Call):
            r = self._call_value(e)
            if r is None:
                # the (unknown) result of a call: as a branch condition the name means "that call, made there, was true"
                return ("cond", e, pos, self._snap(e, env))
            return r
        if isinstance(e, ast.IfExp):
            a, b = self.absval(e.body, env, pos), self.absval(e.orelse, env, pos)
            if a is None or b is None:
                return None
            if a == b and a[0] != "cond":
                return a
            if a[0] == "nonnull" and b[0] == "nonnull":
                return _TRUTHY if a[1] and b[1] else _NONNULL
            return None
        if isinstance(e, (ast.Tuple, ast.List, ast.Set, ast.Dict)):
            n = len(e.keys) if isinstance(e, ast.Dict) else len(e.elts)
            starred = isinstance(e, ast.Dict) and any(k is None for k in e.keys) or (not isinstance(e, ast.Dict) and any(isinstance(x, ast.Starred) for x in e.elts))
            if n and not starred:
                return _TRUTHY
            return _NONNULL
        if isinstance(e, (ast.JoinedStr, ast.Lambda, ast.ListComp, ast.SetComp, ast.DictComp, ast.GeneratorExp)):
            return _NONNULL
        return None

    # -- one step
    def step(self, st, nid, nxt, pos):
        """Apply the bindings of node nid (at position pos of the path) given that the path continues to `nxt`."""
        b = self.binds(nid)
        if not b:
            return
        exc_only = False
        if nxt is not None:
            labs = {lab for d, lab in self.cfg.succ[nid] if d == nxt}
            exc_only = labs == {"exc"}
        if exc_only:
            # the statement raised: a plain assignment did not bind (its value is evaluated first); anything else may
            # or may not have
            for nm, v, stmt in b:
                if v is None:
                    st.env.pop(nm, None)
                    st.origin[nm] = ("unknown", nm)
            return
        new_env, new_org = [], []
        for nm, v, stmt in b:
            if v is None or nm in self.untracked:
                new_env.append((nm, None))
                key = ("def", id(stmt), nm)
                self.defsite.setdefault(key, (stmt, None, nm))
                new_org.append((nm, key))
                continue
            new_env.append((nm, self.absval(v, st.env, pos)))
            if isinstance(v, ast.Name):
                new_org.append((nm, st.origin_of(v.id)))
            else:
                key = ("def", id(v), nm)
                self.defsite.setdefault(key, (stmt, v, nm))
                new_org.append((nm, key))
        for nm, av in new_env:
            if av is None:
                st.env.pop(nm, None)
            else:
                st.env[nm] = av
        for nm, key in new_org:
            st.origin[nm] = key

    # -- truth of a test under the values
    def _side(self, x, env):
        if isinstance(x, ast.Constant):
            return ("const", x.value)
        if isinstance(x, ast.Name):
            v = env.get(x.id)
            if v is not None and v[0] == "cond":
                return _NONNULL if _genuine_bool(v[1]) else None
            return v
        if isinstance(x, ast.Call):
            return self._call_value(x)
        return None

    def truth(self, e, env, depth=6):
        """True / False / None: the truth value the expression must have given the values of the locals."""
        if isinstance(e, ast.Constant):
            return bool(e.value)
        if isinstance(e, ast.Name):
            v = env.get(e.id)
            if v is None:
                return None
            if v[0] == "const":
                return bool(v[1])
            if v[0] == "nonnull":
                return True if v[1] else None
            if v[0] == "cond" and depth:
                return self.truth(v[1], v[3], depth - 1)
            return None
        if isinstance(e, ast.UnaryOp) and isinstance(e.op, ast.Not):
            t = self.truth(e.operand, env, depth)
            return None if t is None else (not t)
        if isinstance(e, ast.BoolOp):
            vals = [self.truth(v, env, depth) for v in e.values]
            if isinstance(e.op, ast.And):
                if any(v is False for v in vals):
                    return False
                return True if all(v is True for v in vals) else None
            if any(v is True for v in vals):
                return True
            return False if all(v is False for v in vals) else None
        if isinstance(e, ast.Compare) and len(e.ops) == 1 and isinstance(e.ops[0], (ast.Is, ast.IsNot, ast.Eq, ast.NotEq)):
            a, b = self._side(e.left, env), self._side(e.comparators[0], env)
            if a is None or b is None:
                return None
            ident = isinstance(e.ops[0], (ast.Is, ast.IsNot))
            r = None
            if a[0] == "const" and b[0] == "const":
                x, y = a[1], b[1]
                if x is None or y is None:
                    r = x is None and y is None
                elif ident:
                    r = (x == y) if isinstance(x, bool) and isinstance(y, bool) else None
                else:
                    try:
                        r = bool(x == y)
                    except Exception:
                        r = None
            elif (a[0] == "const" and a[1] is None and b[0] == "nonnull") or (b[0] == "const" and b[1] is None and a[0] == "nonnull"):
                r = False
            if r is None:
                return None
            return r if isinstance(e.ops[0], (ast.Is, ast.Eq)) else (not r)
        return None

    def feasible(self, nodes):
        """No branch outcome on the node sequence contradicts the value a local has there."""
        st = State()
        cfg = self.cfg
        last = len(nodes) - 1
        for j, n in enumerate(nodes):
            nd = cfg.nodes[n]
            if nd.kind in ("T", "F"):
                if isinstance(nd.ast, ast.expr) and st.env:
                    t = self.truth(nd.ast, st.env)
                    if t is not None and t != (nd.kind == "T"):
                        return False
            else:
                self.step(st, n, nodes[j + 1] if j < last else None, j)
        return True

    def state_before(self, nodes, idx):
        """State of the locals when control arrives at nodes[idx]."""
        st = State()
        for j in range(idx):
            n = nodes[j]
            if self.cfg.nodes[n].kind not in ("T", "F"):
                self.step(st, n, nodes[j + 1], j)
        return st

    # -- what a branch outcome states
    def expand(self, e, pol, env, at=None, depth=4):
        """Atomic facts [(expr, polarity, position of evaluation | None)] implied by `e` having truth value `pol` at a
        branch, a name that holds a condition being read as that condition where it was bound.  A name that holds a
        constant states nothing (its truth is decided, see `feasible`)."""
        if isinstance(e, ast.Name):
            v = env.get(e.id)
            if v is not None and v[0] == "cond" and depth:
                return self.expand(v[1], pol, v[3], v[2], depth - 1)
            if v is not None and v[0] == "const":
                return []
            return [(e, pol, at)]
        if isinstance(e, ast.UnaryOp) and isinstance(e.op, ast.Not):
            return self.expand(e.operand, not pol, env, at, depth)
        if isinstance(e, ast.BoolOp):
            if isinstance(e.op, ast.And) == pol:
                out = []
                for v in e.values:
                    out.extend(self.expand(v, pol, env, at, depth))
                return out
            # a false conjunction / true disjunction: what remains once the operands with a known truth are removed
            rest = []
            for v in e.values:
                t = self.truth(v, env)
                if t is None:
                    rest.append(v)
                elif t == pol:
                    return []  # that operand alone explains the outcome
            if len(rest) == 1:
                return self.expand(rest[0], pol, env, at, depth)
            return []
        if isinstance(e, ast.Constant):
            return []
        return [(e, pol, at)]


# --- conditional expressions in value position -----------------------------------------------------------------------------


class _Hoist:
    """Replace the conditional expressions that are evaluated *first* in an expression (nothing but loads of names,
    attribute chains and constants is evaluated before them) by fresh locals; the caller binds those locals, in order,
    immediately before the statement.  `t = A if c else B; S[t]` evaluates exactly what `S[A if c else B]` evaluates, in
    the same order, as long as only such loads come before it -- the same purity assumption the engine's copy
    propagation makes when it moves `x = A if c else B` into the uses of x (which is how such expressions get here:
    `if (seqno if ok else None) is not None: w.strike_out(seqno if ok else None)`)."""

    def __init__(self, fresh):
        self.fresh = fresh
        self.out = []
        self.pure = True  # nothing with an effect has been evaluated so far

    def value(self, e):
        """e in value position; returns the replacement."""
        if not self.pure:
            return e
        if isinstance(e, ast.IfExp):
            nm = self.fresh()
            self.out.append((nm, e))
            return ast.copy_location(ast.Name(id=nm, ctx=ast.Load()), e)
        if isinstance(e, (ast.Name, ast.Constant)):
            return e
        if isinstance(e, ast.Attribute):
            e.value = self.value(e.value)
            return e
        if isinstance(e, ast.Call):
            e.func = self.value(e.func)
            for i, a in enumerate(e.args):
                if isinstance(a, ast.Starred):
                    self.pure = False
                    break
                e.args[i] = self.value(a)
            if self.pure:
                for k in e.keywords:
                    if k.arg is None:
                        self.pure = False
                        break
                    k.value = self.value(k.value)
            self.pure = False  # the call itself
            return e
        if isinstance(e, ast.Compare):
            e.left = self.value(e.left)
            for i, (op, c) in enumerate(zip(e.ops, e.comparators)):
                if i > 0:
                    self.pure = False  # later operands are evaluated conditionally
                    break
                e.comparators[i] = self.value(c)
                if not isinstance(op, (ast.Is, ast.IsNot)):
                    self.pure = False  # __eq__ / __lt__ / __contains__ run
            return e
        if isinstance(e, ast.UnaryOp):
            e.operand = self.value(e.operand)
            if not isinstance(e.op, ast.Not):
                self.pure = False
            return e
        if isinstance(e, ast.BoolOp):
            e.values[0] = self.value(e.values[0])
            self.pure = False  # the other operands are evaluated conditionally
            return e
        if isinstance(e, (ast.Tuple, ast.List)):
            for i, x in enumerate(e.elts):
                if isinstance(x, ast.Starred):
                    self.pure = False
                    break
                e.elts[i] = self.value(x)
            return e
        if isinstance(e, ast.BinOp):
            e.left = self.value(e.left)
            e.right = self.value(e.right)
            self.pure = False
            return e
        if isinstance(e, ast.Subscript):
            e.value = self.value(e.value)
            e.slice = self.value(e.slice)
            self.pure = False
            return e
        self.pure = False
        return e

    def test(self, e):
        """e in boolean position: conditional expressions there are left to `bool_form`."""
        if isinstance(e, ast.IfExp):
            self.pure = False
            return e
        if isinstance(e, ast.UnaryOp) and isinstance(e.op, ast.Not):
            e.operand = self.test(e.operand)
            return e
        if isinstance(e, ast.BoolOp):
            e.values[0] = self.test(e.values[0])
            self.pure = False
            return e
        return self.value(e)


def hoist_leading_ifexps(e, fresh, boolean=False):
    """(expression with the leading value-position conditional expressions replaced by fresh names, [(name, IfExp)])"""
    h = _Hoist(fresh)
    e = h.test(e) if boolean else h.value(e)
    return e, h.out
