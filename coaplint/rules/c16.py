"""C16 CoAP URIs and Uri-* options convert into each other without loss."""

import ast
import string as _string

from ..rulekit import *
from ..norm import Normalizer, NormError
from ..exc import EscapeAnalysis
from ..model import BUILTIN_EXC
from ._c16c17kit import *

R = Rules(
    "C16",
    explanation=(
        "Structural clauses of Message.set_request_uri / get_request_uri and their helpers, decided on the syntax "
        "trees of message.py, util/__init__.py, util/uri.py and error.py: (a) the exception-escape set of "
        "set_request_uri (closure over UndecidedRemote.__new__, from_pathless_uri, hostportsplit, hostportjoin) is "
        "contained in {MalformedUrlError, IncompleteUrlError}; (b) the rejection guards for fragment, missing scheme, "
        "missing host and user-info dominate every option store, a non-CoAP scheme stores Proxy-Uri and nothing else, "
        "the port is read (hence validated) on every CoAP path; (c) the safe sets of the two quoting functions, "
        "evaluated from the module constants, never contain the separator their output is joined with nor '%', '?', "
        "'#', and the split/join separators of reader and writer agree; (d) Uri-Host is the strictly percent-decoded "
        "host passed through the ASCII lower-casing table and is omitted exactly under the IP-literal predicate "
        "(bracketed, or three dots / digits and dots only / every label <= 255), the remote keeps scheme and netloc; "
        "(e) hostportjoin brackets exactly hosts that contain ':' and are not bracketed, hostportsplit delegates to "
        "SplitResult, UndecidedRemote normalises bracketed literals through ipaddress.ip_address and re-joins with "
        "hostportjoin.  Not decided: value-level round-trip equality over Unicode, RFC 3986 validity of host names."
    ),
    rule_text="exception-escape analysis with one re-checked lemma, dominance of rejection guards on the CFG, constant evaluation of safe sets, reaching definitions, DNF comparison with reference predicates",
)

MSG = "message.Message."
SET = MSG + "set_request_uri"
GET = MSG + "get_request_uri"
URL_ERRORS = ("aiocoap.error.MalformedUrlError", "aiocoap.error.IncompleteUrlError")
DIGITS_DOT = set("0123456789.")

# external callees inside the escape region whose behaviour is tabulated (exc.EXT_RAISES plus the
# entry below) or that cannot raise on the str/tuple values they are applied to here
BENIGN_EXTERNALS = {
    "all", "any", "str", "len", "isinstance", "bool", "tuple", "list", "set", "sorted", "repr", "min", "max",
    "enumerate", "zip", "range", "getattr", "hasattr", "super", "super.__new__", "super.__init__", "ord", "chr", "dict",
    "frozenset", "type", "cls", "print", "warnings.warn", "urllib.parse.SplitResult", "urllib.parse.unquote",
    "urllib.parse.urlparse", "urllib.parse.urlsplit", "ipaddress.ip_address", "str.maketrans",
}
EXTRA_RAISES = {"urllib.parse.unquote": ["UnicodeDecodeError"]}  # errors="strict" on non-UTF-8 escapes


# ---------------------------------------------------------------------------
# shared anchors


def _setter(ctx):
    """(fi, cfg, name of the uri parameter, name of the local holding urlparse(uri))"""
    fi = ctx.prog.func(SET)
    p = params(fi)
    ctx.need(len(p) >= 1, "set_request_uri has no uri parameter")
    uri = p[0]
    cands = []
    for n in walk_no_nested(fi.node):
        if isinstance(n, ast.Assign) and len(n.targets) == 1 and isinstance(n.targets[0], ast.Name) and isinstance(n.value, ast.Call):
            if ext_name(fi.module, n.value) in ("urllib.parse.urlparse", "urllib.parse.urlsplit"):
                a = n.value.args
                if len(a) >= 1 and isinstance(a[0], ast.Name) and a[0].id == uri:
                    cands.append(n.targets[0].id)
    ctx.need(len(cands) == 1, "set_request_uri: expected exactly one local bound to urlparse(<uri parameter>)")
    ctx.need(len(writes_to_name(fi.node, cands[0])) == 1 and not writes_to_name(fi.node, uri), "set_request_uri: the parsed URL or the uri parameter is re-bound")
    return fi, cfg_of(fi), uri, cands[0]


def _is_comp(fi, P, e, attr):
    return chain(e) == "%s.%s" % (P, attr)


def _opt_stores(fi):
    """[(option name, Assign node)] for `self.opt.<name> = value`; plus ('@remote', node) for `self.remote = value`."""
    out = []
    for n in walk_no_nested(fi.node):
        if isinstance(n, (ast.Assign, ast.AugAssign, ast.AnnAssign)):
            tgts = n.targets if isinstance(n, ast.Assign) else [n.target]
            for t in tgts:
                for tt in (t.elts if isinstance(t, (ast.Tuple, ast.List)) else [t]):
                    c = chain(tt) or ""
                    parts = c.split(".")
                    if parts[:2] == ["self", "opt"] and len(parts) == 3:
                        out.append((parts[2], n))
                    elif c == "self.remote":
                        out.append(("@remote", n))
        elif isinstance(n, ast.Call) and chain(n.func) == "setattr" and n.args and chain(n.args[0]) == "self.opt":
            out.append(("@setattr", n))
    return out


def _classify(ctx, fi, P, e):
    """(kind, positive): the branch condition `e` being true means fact `kind`
    has truth value `positive`.  kinds: fragment scheme host username password
    coap.  None when e is not one of the URL-component tests."""
    comp_of = {"fragment": "fragment", "scheme": "scheme", "hostname": "host", "username": "username", "password": "password"}
    c = chain(e)
    if c and c.startswith(P + ".") and c[len(P) + 1:] in comp_of:
        return comp_of[c[len(P) + 1:]], True
    if isinstance(e, ast.Compare) and len(e.ops) == 1:
        op, l, r = e.ops[0], e.left, e.comparators[0]
        lc = chain(l)
        if lc and lc.startswith(P + ".") and lc[len(P) + 1:] in comp_of:
            kind = comp_of[lc[len(P) + 1:]]
            if isinstance(op, (ast.In, ast.NotIn)) and kind == "scheme":
                v = try_eval(ctx.prog, fi.module, r)
                if isinstance(v, (list, tuple, set, frozenset)) and v and all(isinstance(s, str) and s.startswith("coap") for s in v):
                    return "coap", isinstance(op, ast.In)
                return None
            if isinstance(r, ast.Constant):
                empty_ok = (r.value == "" and kind in ("fragment", "scheme", "host")) or (r.value is None and kind in ("host", "username", "password"))
                if empty_ok and isinstance(op, (ast.Eq, ast.Is)):
                    return kind, False
                if empty_ok and isinstance(op, (ast.NotEq, ast.IsNot)):
                    return kind, True
    return None


def _facts(ctx, fi, cfg, P, nid):
    """{(kind, truth): pseudo node id} for the classified guards dominating nid; [unclassified guards]."""
    facts, other = {}, []
    for e, pol, pid in cfg.guards(nid):
        k = _classify(ctx, fi, P, e)
        if k is None:
            other.append((e, pol, pid))
        else:
            facts[(k[0], k[1] == pol)] = pid
    return facts, other


def _is_url_error(prog, cls):
    return cls is not None and any(prog.is_subclass(cls, a) for a in URL_ERRORS)


# ---------------------------------------------------------------------------
# C16.a


def _int_label_lemma(ctx, fi):
    """Lemma DIGIT-LABEL (premise (2b): an earlier operand bounds len(x) by at most 4300,
    CPython's int-max-str-digits): `int(x)` cannot raise when (1) x ranges over
    S.split(".") in a comprehension, (2) an earlier operand of the `and`
    holding the int() call (inside the comprehension) excludes the empty label
    (`x != ""` / `x`), and (3) an earlier operand of an enclosing `and`, or a
    dominating branch condition, is `all(c in D for c in S)` with D evaluating
    to a subset of the decimal digits and '.', for the same S.  Returns the
    list of int() call nodes for which the premise holds."""
    cfg = cfg_of(fi)
    par = cfg.parent
    proven = []
    for call in [n for n in walk_no_nested(fi.node) if isinstance(n, ast.Call) and chain(n.func) == "int" and len(n.args) == 1 and isinstance(n.args[0], ast.Name)]:
        x = call.args[0].id
        # climb to the comprehension binding x, collecting earlier `and` operands on the way
        earlier_inner, earlier_outer = [], []
        comp = None
        child, p = call, par.get(id(call))
        while p is not None and not isinstance(p, ast.stmt):
            if isinstance(p, (ast.Lambda, ast.FunctionDef, ast.AsyncFunctionDef)):
                comp = None
                break
            if isinstance(p, ast.BoolOp) and isinstance(p.op, ast.And):
                idx = [i for i, v in enumerate(p.values) if v is child]
                if idx:
                    (earlier_outer if comp is not None else earlier_inner).extend(p.values[: idx[0]])
            if comp is None and isinstance(p, (ast.GeneratorExp, ast.ListComp, ast.SetComp)):
                g = p.generators
                if len(g) == 1 and isinstance(g[0].target, ast.Name) and g[0].target.id == x and child is p.elt:
                    comp = p
                    earlier_inner.extend(g[0].ifs)
                else:
                    break
            child, p = p, par.get(id(p))
        if comp is None:
            continue
        it = comp.generators[0].iter
        b = match("$S.split($sep)", it)
        if b is None or try_eval(ctx.prog, fi.module, b["sep"]) != ".":
            continue
        S = b["S"]
        nonempty = False
        for e in earlier_inner:
            if isinstance(e, ast.Name) and e.id == x:
                nonempty = True
            elif isinstance(e, ast.Compare) and len(e.ops) == 1 and isinstance(e.ops[0], ast.NotEq):
                l, r = e.left, e.comparators[0]
                if (isinstance(l, ast.Name) and l.id == x and isinstance(r, ast.Constant) and r.value == "") or (isinstance(r, ast.Name) and r.id == x and isinstance(l, ast.Constant) and l.value == ""):
                    nonempty = True
        if not nonempty:
            continue
        # CPython refuses int() on more than 4300 digits: an earlier operand must bound the label's length
        Nl = Normalizer()
        bounded = False
        for e in earlier_inner:
            try:
                c_ = Nl.cmp(e)
            except NormError:
                continue
            if c_[0] == "lt" and any(c_ == Nl.cmp(ast.parse("len(%s) <= %d" % (x, k), mode="eval").body) for k in (1, 2, 3, 4, 5, 8, 10, 16, 100, 1000, 4300)):
                bounded = True
            elif c_[0] == "lt":
                p_ = c_[1]
                k = p_.t.get((), None)
                if set(p_.t) == {(("len(%s)" % x, 1),), ()} and p_.t[(("len(%s)" % x, 1),)] == 1 and k is not None and -4301 <= k < 0:
                    bounded = True
        if not bounded:
            continue
        conds = list(earlier_outer)
        root = S
        while isinstance(root, ast.Attribute):
            root = root.value
        stable = isinstance(root, ast.Name) and len(writes_to_name(fi.node, root.id)) <= 1
        if stable:
            for nid in cfg.locate(call):
                conds.extend(e for e, pol, _ in cfg.guards(nid) if pol)
        digits = False
        for e in conds:
            m = match("all($c in $D for $c in $T)", e)
            if m is not None and same(m["T"], S):
                d = try_eval(ctx.prog, fi.module, m["D"])
                if isinstance(d, (str, tuple, list, set, frozenset)) and d and set(d) <= DIGITS_DOT:
                    digits = True
        if digits:
            proven.append(call)
    return proven


def _origin_node(fi, esc):
    for n in ast.walk(fi.node):
        if getattr(n, "lineno", None) == esc.line and isinstance(n, (ast.expr, ast.stmt)):
            for lim in (80, 100, 60):
                if stmt_text(n, lim) == esc.text:
                    return n
    return None


@R.clause("C16.a", "escape(set_request_uri) is contained in {MalformedUrlError, IncompleteUrlError}")
def a(ctx):
    fi = ctx.prog.func(SET)
    for anchor in ("message.UndecidedRemote.__new__", "message.UndecidedRemote.from_pathless_uri", "util.hostportsplit", "util.hostportjoin"):
        ctx.prog.func(anchor)
    for c in ("error.MalformedUrlError", "error.IncompleteUrlError"):
        ctx.prog.cls(c)
    EA = EscapeAnalysis(ctx.prog, ext_raises=EXTRA_RAISES)
    proven = _int_label_lemma(ctx, fi)
    for call in proven:
        EA.dead_nodes.add(id(call))
        ctx.note("lemma DIGIT-LABEL applied to `%s` in set_request_uri (premise re-checked: non-empty label of a digits-and-dots string; "
                 "assumes int() is total on non-empty decimal strings, i.e. CPython's int-max-str-digits limit is not modelled)" % stmt_text(call))
    try:
        escs = EA.escapes(fi)
    except RecursionError:
        # engine limitation: Resolver.infer does not terminate on `x = x.method()` re-bindings
        raise AnalysisError("C16.a: type inference of the escape analysis does not terminate on this tree")
    ctx.need(not EA.unresolved, "unresolved calls inside the escape region of set_request_uri: %s" % EA.unresolved[:4])
    unknown = sorted(n for n in EA.external_calls if n not in BENIGN_EXTERNALS and n not in EA.ext and n not in BUILTIN_EXC
                     and not n.startswith(("logging.", "self.log.", "log.")) and n.split(".")[-1] not in BUILTIN_EXC)
    ctx.need(not unknown, "external callees without a tabulated exception behaviour inside the escape region: %s" % unknown)
    ctx.floor("escape origins of set_request_uri (explicit and implicit raisers reached)", len(escs), 6)
    n_allowed = 0
    for e in sorted(escs, key=lambda e: (e.func, e.line, e.cls)):
        ctx.need(not e.cls.startswith("?"), "raise of a class the analysis cannot name: %r" % (e,))
        ofi = ctx.prog.funcs.get("aiocoap." + e.func)
        ctx.need(ofi is not None, "origin function %s of an escape is not in the program model" % e.func)
        node = _origin_node(ofi, e)
        ok = _is_url_error(ctx.prog, e.cls)
        n_allowed += ok
        ctx.ob("an exception leaving set_request_uri is a documented URL error", ok, ofi, node if node is not None else ofi.node,
               detail="%s raised at `%s`%s" % (e.cls, e.text, (" reached via " + " > ".join(e.via)) if e.via else ""),
               construct=stmt_text(node) if node is not None else e.text)
    ctx.floor("documented URL error sites of set_request_uri", n_allowed, 5)
    ctx.extra["C16.a"] = {
        "implicit_raiser_sites": sorted(set(EA.implicit_sites)),
        "external_calls": dict(sorted(EA.external_calls.items())),
        "extra_raiser_table": EXTRA_RAISES,
        "lemmas": ["DIGIT-LABEL `%s`" % stmt_text(c) for c in proven],
        "resolved_by_unique_name": sorted(set(EA.res.by_unique_name)),
        "resolved_edges": EA.resolved_edges,
    }


# ---------------------------------------------------------------------------
# C16.b

REJECTIONS = (
    # fact that must hold at a store, what the other side must raise, wording
    (("fragment", False), "aiocoap.error.MalformedUrlError", "a URI with a fragment"),
    (("scheme", True), "aiocoap.error.IncompleteUrlError", "a reference without a scheme"),
    (("host", True), "aiocoap.error.MalformedUrlError", "a CoAP URI without a host"),
    (("username", False), "aiocoap.error.MalformedUrlError", "a URI with a user name"),
    (("password", False), "aiocoap.error.MalformedUrlError", "a URI with a password"),
)


def _rejection_ok(ctx, fi, cfg, pseudo, want_cls):
    """The other outcome of the guard never reaches the normal exit and only raises want_cls."""
    op = sibling(cfg, pseudo)
    if op is None or not side_rejects(cfg, op):
        return False, "the other outcome of the test can return normally"
    rs = raises_from(cfg, op)
    classes = sorted({raised_class(ctx.prog, fi, r) or "?" for r in rs})
    ok = bool(rs) and all(c != "?" and ctx.prog.is_subclass(c, want_cls) for c in classes)
    return ok, "the other outcome raises %s" % classes


@R.clause("C16.b", "rejection guards (fragment, scheme, host, user-info) dominate every option store; a non-CoAP scheme stores Proxy-Uri only; the port is read on every CoAP path")
def b(ctx):
    fi, cfg, uri, P = _setter(ctx)
    stores = _opt_stores(fi)
    ctx.need(not any(k == "@setattr" for k, _ in stores), "set_request_uri stores options through setattr(): outside the rule's vocabulary")
    ctx.floor("option / remote stores in set_request_uri", len(stores), 5)
    coap_stores, proxy_stores = [], []
    for name, st in stores:
        nid = cfg.loc1(st)
        facts, _ = _facts(ctx, fi, cfg, P, nid)
        if ("coap", False) in facts:
            proxy_stores.append((name, st, nid, facts))
        else:
            coap_stores.append((name, st, nid, facts))
    ctx.floor("stores on the CoAP arm", len(coap_stores), 4)
    ctx.floor("stores on the non-CoAP (proxy) arm", len(proxy_stores), 1)
    for name, st, nid, facts in coap_stores + proxy_stores:
        on_proxy = ("coap", False) in facts
        label = "self.remote" if name == "@remote" else "opt." + name
        for fact, cls, what in REJECTIONS:
            if on_proxy and fact[0] in ("host", "username", "password"):
                continue
            if fact not in facts:
                ctx.ob("store of %s happens only after %s was rejected" % (label, what), False, fi, st, detail="no dominating test of that component with the required outcome")
                continue
            ok, why = _rejection_ok(ctx, fi, cfg, facts[fact], cls)
            ctx.ob("store of %s happens only after %s was rejected with %s" % (label, what, cls.split(".")[-1]), ok, fi, st, detail=why)
        if not on_proxy:
            ctx.ob("store of %s happens only for a scheme in coap_schemes" % label, ("coap", True) in facts, fi, st)
    # proxy arm: Proxy-Uri := the uri parameter, nothing else
    for name, st, nid, facts in proxy_stores:
        v = st.value if isinstance(st, ast.Assign) else None
        ctx.ob("a non-CoAP scheme stores Proxy-Uri (the complete URI) and nothing else", name == "proxy_uri" and isinstance(v, ast.Name) and v.id == uri, fi, st)
    proxy_sides = sorted({f[("coap", False)] for _, _, _, f in proxy_stores})
    for side in proxy_sides:
        pn = [nid for name, _, nid, _ in proxy_stores if name == "proxy_uri"]
        ctx.ob("every normal path of the non-CoAP arm stores Proxy-Uri", bool(pn) and cfg.must_pass(side, pn), fi, cfg.nodes[side].ast)
        leaked = [st for name, st, nid, _ in coap_stores if nid in cfg.reach({side})]
        ctx.ob("no Uri-* option or remote is stored on the non-CoAP arm", not leaked, fi, leaked[0] if leaked else cfg.nodes[side].ast)
    # which schemes count as CoAP
    coap_sides = sorted({f[("coap", True)] for _, _, _, f in coap_stores if ("coap", True) in f})
    ctx.need(coap_sides, "set_request_uri: no test of the scheme against the CoAP scheme list found")
    # the port is read on every normal CoAP path (its ValueError conversion is part of C16.a)
    ports = [cfg.loc1(n) for n in walk_no_nested(fi.node) if isinstance(n, ast.Attribute) and n.attr == "port" and chain(n.value) == P and isinstance(n.ctx, ast.Load)]
    for side in coap_sides:
        ctx.ob("the port component is evaluated (and thereby validated) on every normal path of the CoAP arm", bool(ports) and cfg.must_pass(side, ports), fi, cfg.nodes[side].ast,
               detail="%d read(s) of %s.port" % (len(ports), P), construct="%s.port" % P)
        rem = [nid for name, _, nid, _ in coap_stores if name == "@remote"]
        ctx.ob("the remote is set on every normal path of the CoAP arm", bool(rem) and cfg.must_pass(side, rem), fi, cfg.nodes[side].ast, construct="self.remote = ...")
        for opt in ("uri_path", "uri_query"):
            sn = [nid for name, _, nid, _ in coap_stores if name == opt]
            ctx.ob("opt.%s is (re)set on every normal path of the CoAP arm" % opt, bool(sn) and cfg.must_pass(side, sn), fi, cfg.nodes[side].ast, construct="self.opt.%s = ..." % opt)


# ---------------------------------------------------------------------------
# C16.c


def _quote_functions(ctx):
    """{name in message.py: (safe set string, defining Assign value)} for module constants built by quote_factory."""
    mod = ctx.prog.module("message")
    out = {}
    for st in mod.tree.body:
        if isinstance(st, ast.Assign) and len(st.targets) == 1 and isinstance(st.targets[0], ast.Name) and isinstance(st.value, ast.Call):
            q = ctx.prog.resolve_in_module(mod, chain(st.value.func) or "?")
            if q == "aiocoap.util.uri.quote_factory" and len(st.value.args) == 1 and not st.value.keywords:
                out[st.targets[0].id] = (module_eval(ctx.prog, mod, st.value.args[0]), st)
    return mod, out


def _check_quote_factory(ctx):
    """quote_factory(S) returns f with f(s) = every UTF-8 byte of s kept iff it is in {ord(c) for c in S}, else %XX."""
    fi = ctx.prog.func("util.uri.quote_factory")
    p = params(fi)
    a_ = fi.node.args
    mutable = [d for d in list(a_.defaults) + [d for d in a_.kw_defaults if d is not None] if isinstance(d, (ast.Dict, ast.List, ast.Set, ast.Call, ast.DictComp, ast.ListComp))]
    if not ctx.ob("every quote function depends only on its own safe set (quote_factory keeps no state shared between the functions it returns)", not mutable, fi, mutable[0] if mutable else fi.node,
                  construct="quote_factory defaults: %s" % (stmt_text(mutable[0]) if mutable else "none mutable"), detail="mutable default argument is shared by the path and the query quoter" if mutable else None):
        return
    ctx.need(len(p) == 1, "quote_factory signature changed")
    inner = [f for f in ctx.prog.funcs.values() if f.parent is fi]
    rets = [n for n in walk_no_nested(fi.node) if isinstance(n, ast.Return) and n.value is not None]
    ctx.need(len(inner) >= 1 and len(rets) == 1 and isinstance(rets[0].value, ast.Name) and any(f.name == rets[0].value.id for f in inner), "quote_factory does not return a nested function")
    q = [f for f in inner if f.name == rets[0].value.id][0]
    qp = params(q)
    ctx.need(len(qp) == 1, "quote_factory's nested function signature changed")
    ok, why = False, "no `sep.join(chr(b) if b in safe else '%%%02X' % b for b in s.encode('utf8'))` return found"
    for r in [n for n in walk_no_nested(q.node) if isinstance(n, ast.Return) and n.value is not None]:
        m = match("$sep.join($elt for $b in $it)", r.value) or match("$sep.join([$elt for $b in $it])", r.value)
        if m is None:
            continue
        it = resolve_local(q.node, m["it"])
        mi = match("$s.encode($codec)", it)
        e = m["elt"]
        if mi is None or not isinstance(e, ast.IfExp) or not isinstance(m["b"], ast.Name):
            continue
        bname = m["b"].id
        test, keep, esc = e.test, e.body, e.orelse
        if isinstance(test, ast.UnaryOp) and isinstance(test.op, ast.Not):
            test, keep, esc = test.operand, esc, keep
        if isinstance(test, ast.Compare) and len(test.ops) == 1 and isinstance(test.ops[0], ast.NotIn):
            test = ast.Compare(left=test.left, ops=[ast.In()], comparators=test.comparators)
            keep, esc = esc, keep
        mt = match("%s in $set" % bname, test)
        if mt is None:
            continue
        sset = resolve_local(fi.node, mt["set"])
        ms = match("set(ord($c) for $c in %s)" % p[0], sset) or match("{ord($c) for $c in %s}" % p[0], sset) or match("frozenset(ord($c) for $c in %s)" % p[0], sset)
        fmt = match("$f %% %s" % bname, esc)
        conds = {
            "joined with the empty string": try_eval(ctx.prog, fi.module, m["sep"]) == "",
            "iterates the UTF-8 bytes of its argument": chain(mi["s"]) == qp[0] and str(try_eval(ctx.prog, fi.module, mi["codec"])).lower().replace("-", "") == "utf8",
            "keeps a byte iff it is in the safe set": match("chr(%s)" % bname, keep) is not None,
            "the safe set is {ord(c) for c in safe_characters}": ms is not None and not writes_to_name(fi.node, p[0]),
            "other bytes become %XX": fmt is not None and try_eval(ctx.prog, fi.module, fmt["f"]) in ("%%%02X", "%%%02x"),
        }
        bad = [k for k, v in conds.items() if not v]
        ok, why = not bad, ("; ".join("NOT: " + k for k in bad) if bad else "all five parts recognised")
        break
    ctx.ob("quote_factory(S) keeps exactly the bytes of S and percent-encodes every other UTF-8 byte", ok, fi, q.node, detail=why, construct="quote_factory.<locals>.%s" % q.name)


def _split_site(ctx, fi, cfg, P, comp, st):
    """Interpret the value of `self.opt.uri_<x> = value`: ('empty',) or
    ('split', separator, dropped leading elements, decoded ok, strict ok)."""
    v = st.value
    if isinstance(v, (ast.List, ast.Tuple)) and not v.elts:
        return ("empty",)
    if isinstance(v, ast.Call) and chain(v.func) in ("list", "tuple") and len(v.args) == 1:
        v = v.args[0]
    if not (isinstance(v, (ast.ListComp, ast.GeneratorExp)) and len(v.generators) == 1 and not v.generators[0].ifs and isinstance(v.generators[0].target, ast.Name)):
        return None
    x = v.generators[0].target.id
    it = resolve_at(fi, v.generators[0].iter, cfg.loc1(st))
    drop = 0
    if isinstance(it, ast.Subscript):
        sl = it.slice
        if not (isinstance(sl, ast.Slice) and sl.upper is None and sl.step is None):
            return None
        lo = 0 if sl.lower is None else try_eval(ctx.prog, fi.module, sl.lower)
        if not isinstance(lo, int) or lo < 0:
            return None
        drop = lo
        it = it.value
    m = match("$s.split($sep)", it)
    if m is None or chain(m["s"]) != "%s.%s" % (P, comp):
        return None
    sep = try_eval(ctx.prog, fi.module, m["sep"])
    e = v.elt
    dec = isinstance(e, ast.Call) and ext_name(fi.module, e) == "urllib.parse.unquote" and len(e.args) == 1 and isinstance(e.args[0], ast.Name) and e.args[0].id == x
    strict = dec and any(k.arg == "errors" and try_eval(ctx.prog, fi.module, k.value) == "strict" for k in e.keywords)
    return ("split", sep, drop, dec, strict)


@R.clause("C16.c", "separators are never in a safe set; split and join separators of set_request_uri / get_request_uri agree")
def c(ctx):
    mod, qf = _quote_functions(ctx)
    ctx.floor("quote functions built by quote_factory in message.py", len(qf), 2)
    _check_quote_factory(ctx)
    # --- reader
    sfi, scfg, uri, P = _setter(ctx)
    reader = {}
    for comp, opt, rfc_sep, want_drop in (("path", "uri_path", "/", 1), ("query", "uri_query", "&", 0)):
        sts = [st for name, st in _opt_stores(sfi) if name == opt and isinstance(st, ast.Assign)]
        ctx.floor("stores of opt.%s in set_request_uri" % opt, len(sts), 1)
        seen_split = False
        for st in sts:
            r = _split_site(ctx, sfi, scfg, P, comp, st)
            if r is None and any(chain(n_) == "%s.%s" % (P, comp) for n_ in ast.walk(st.value)):
                # derived from the component, but not as split(sep)[k:] of the unmodified component
                # (e.g. lstrip("/") first: leading empty segments collapse, distinct resources alias)
                seen_split = True
                ctx.ob("the %s component is decomposed as split(%r)%s of the unmodified component" % (comp, rfc_sep, "[1:]" if want_drop else ""), False, sfi, st)
                continue
            ctx.need(r is not None, "set_request_uri: value stored to opt.%s is neither an empty list nor a comprehension over %s.%s.split(..): `%s`" % (opt, P, comp, stmt_text(st, 90)))
            nid = scfg.loc1(st)
            if r[0] == "empty":
                continue
            seen_split = True
            _, sep, drop, dec, strict = r
            reader[comp] = sep
            ctx.ob("the %s component is split on %r" % (comp, rfc_sep), sep == rfc_sep, sfi, st, detail="split separator %r" % (sep,))
            ctx.ob("exactly the %d leading element(s) of the split %s are dropped" % (want_drop, comp), drop == want_drop, sfi, st, detail="%d dropped" % drop)
            ctx.ob("every %s segment is percent-decoded with errors='strict'" % comp, dec and strict, sfi, st)
            # the non-empty arm is taken exactly when the component is non-degenerate
            guards = [(e, pol) for e, pol in guard_exprs(scfg, nid) if _classify(ctx, sfi, P, e) is None]
            if comp == "path":
                okg = False
                for e, pol in guards:
                    if isinstance(e, ast.Compare) and len(e.ops) == 1 and isinstance(e.ops[0], (ast.In, ast.NotIn)) and chain(e.left) == "%s.path" % P:
                        vals = try_eval(ctx.prog, sfi.module, e.comparators[0])
                        if isinstance(vals, (tuple, list, set, frozenset)) and set(vals) == {"", "/"} and pol == isinstance(e.ops[0], ast.NotIn):
                            okg = True
                ctx.ob("Uri-Path segments are produced exactly when the path is neither empty nor a single '/'", okg, sfi, st, detail="guards: %s" % [(stmt_text(e, 60), pol) for e, pol in guards])
            else:
                okg = any(chain(e) == "%s.query" % P and pol for e, pol in guards)
                ctx.ob("Uri-Query segments are produced exactly when the query is non-empty", okg, sfi, st, detail="guards: %s" % [(stmt_text(e, 60), pol) for e, pol in guards])
        ctx.need(seen_split, "set_request_uri never splits the %s component" % comp)
    # --- writer
    gfi = ctx.prog.func(GET)
    gcfg = cfg_of(gfi)
    slots = urlunparse_slots(gfi)
    ctx.need(len(slots) >= 1, "get_request_uri: no urlunparse((scheme, netloc, path, params, query, fragment)) call found")
    nsites = 0
    for call, sl in slots:
        at = gcfg.loc1(call)
        for comp, rfc_sep, others in (("path", "/", "?#%"), ("query", "&", "#%")):
            e = resolve_at(gfi, sl[comp], at)
            j = join_site(ctx.prog, gfi, e)
            ctx.need(j is not None, "get_request_uri: the %s passed to urlunparse is not a recognised join of quoted segments: `%s`" % (comp, stmt_text(e, 90)))
            sep, leading, qname, xs = j
            ctx.need(qname in qf, "get_request_uri: %s segments are quoted by `%s`, which is not a quote_factory product of message.py" % (comp, qname))
            safe = qf[qname][0]
            ctx.need(isinstance(safe, str), "safe set of %s does not evaluate to a string" % qname)
            nsites += 1
            where = "safe set of %s (quoting %s segments)" % (qname, comp)
            ctx.ob("%s segments are joined with %r" % (comp, rfc_sep), sep == rfc_sep and leading == (comp == "path"), gfi, e, detail="separator %r, leading=%s" % (sep, leading))
            ctx.ob("writer and reader use the same %s separator" % comp, sep == reader.get(comp), gfi, e, detail="join %r vs split %r" % (sep, reader.get(comp)))
            ctx.ob("the %s separator %r is not in the %s" % (comp, sep, where), isinstance(sep, str) and not (set(sep) & set(safe)), gfi, qf[qname][1], detail="safe = %r" % safe,
                   construct="%s: %r safe" % (qname, sep))
            for ch in others:
                ctx.ob("%r is not in the %s" % (ch, where), ch not in safe, gfi, qf[qname][1], detail="safe = %r" % safe, construct="%s: %r safe" % (qname, ch))
            ctx.ob("the %s is ASCII only" % where, all(ord(ch) < 128 for ch in safe), gfi, qf[qname][1], construct="%s: non-ASCII safe" % qname)
    ctx.floor("composition sites in get_request_uri", nsites, 2)
    ctx.extra["C16.c"] = {"safe_sets": {k: v[0] for k, v in qf.items()}, "reader_separators": reader}


# ---------------------------------------------------------------------------
# C16.d


def _ascii_lower_table(ctx, fi, e):
    """Does `e` (argument of .translate) evaluate to the map A-Z -> a-z?"""
    if isinstance(e, ast.Name):
        r = const_in_module(ctx.prog, fi.module, e.id)
        if r is None:
            return False
        mod, e = r
    else:
        mod = fi.module
    m = match("str.maketrans($a, $b)", e)
    if m is None:
        return False
    a, b = try_eval(ctx.prog, mod, m["a"]), try_eval(ctx.prog, mod, m["b"])
    return isinstance(a, str) and isinstance(b, str) and len(a) == len(b) and dict(zip(a, b)) == dict(zip(_string.ascii_uppercase, _string.ascii_lowercase))


def _ip_literal_predicate(ctx, fi, P, E):
    """Decompose the IP-literal predicate; returns dict of recognised parts and a list of unrecognised disjuncts/conjuncts."""
    N = Normalizer()
    host = "%s.hostname" % P
    parts = {"bracket": False, "dots": False, "digits": False, "octets": False}
    extra = []
    for d in flatten(E, ast.Or):
        mb = match("%s.netloc.startswith($c)" % P, d)
        if mb is not None and try_eval(ctx.prog, fi.module, mb["c"]) == "[":
            parts["bracket"] = True
            continue
        conj = flatten(d, ast.And)
        kinds = set()
        for cj in conj:
            try:
                nf = N.cmp(cj)
            except NormError:
                nf = None
            if nf == N.cmp(ast.parse("%s.count('.') == 3" % host, mode="eval").body):
                kinds.add("dots")
                continue
            m = match("all($c in $D for $c in %s)" % host, cj)
            if m is not None:
                dv = try_eval(ctx.prog, fi.module, m["D"])
                if isinstance(dv, (str, tuple, list, set, frozenset)) and set(dv) == DIGITS_DOT:
                    kinds.add("digits")
                    continue
            m = match("all($e for $x in %s.split($sep))" % host, cj)
            if m is not None and isinstance(m["x"], ast.Name) and try_eval(ctx.prog, fi.module, m["sep"]) == ".":
                x = m["x"].id
                bound = False
                unknown = False
                for sub in flatten(m["e"], ast.And):
                    try:
                        snf = N.cmp(sub)
                    except NormError:
                        snf = None
                    if snf == N.cmp(ast.parse("int(%s) <= 255" % x, mode="eval").body):
                        bound = True
                    elif snf == N.cmp(ast.parse("%s != ''" % x, mode="eval").body) or (isinstance(sub, ast.Name) and sub.id == x):
                        pass
                    elif snf is not None and snf[0] == "lt" and N.cmp(ast.parse("0 <= int(%s)" % x, mode="eval").body) == snf:
                        pass
                    elif snf is not None and any(snf == N.cmp(ast.parse("len(%s) <= %d" % (x, k), mode="eval").body) for k in range(3, 4301)):
                        pass  # a length bound of at least 3 digits removes no label <= 255 without leading zeros
                    else:
                        unknown = True
                if bound and not unknown:
                    kinds.add("octets")
                    continue
            extra.append(cj)
        if kinds == {"dots", "digits", "octets"}:
            for k in kinds:
                parts[k] = True
        elif kinds:
            for k in kinds:
                parts[k] = True
            for k in {"dots", "digits", "octets"} - kinds:
                extra.append(ast.parse("'<missing conjunct: %s>'" % k, mode="eval").body)
        elif not conj:
            extra.append(d)
    return parts, extra


@R.clause("C16.d", "Uri-Host is the strictly percent-decoded host through the ASCII lower-casing table, omitted iff the IP-literal predicate holds; the remote keeps (scheme, netloc)")
def d(ctx):
    fi, cfg, uri, P = _setter(ctx)
    pr = params(fi) + [a.arg for a in fi.node.args.kwonlyargs]
    stores = _opt_stores(fi)
    hs = [st for name, st in stores if name == "uri_host"]
    ctx.floor("stores of opt.uri_host in set_request_uri", len(hs), 1)
    for st in hs:
        nid = cfg.loc1(st)
        v = resolve_at(fi, st.value, nid) if isinstance(st, ast.Assign) else None
        ctx.need(v is not None, "uri_host is not stored by a plain assignment")
        mt = match("$inner.translate($table)", v)
        ctx.ob("the stored Uri-Host went through the ASCII lower-casing table (A-Z -> a-z, nothing else)", mt is not None and _ascii_lower_table(ctx, fi, mt["table"]), fi, st,
               detail="value: %s" % stmt_text(v, 100))
        inner = resolve_at(fi, mt["inner"], nid) if mt is not None else v
        calls = [n for n in ast.walk(inner) if isinstance(n, ast.Call) and ext_name(fi.module, n) == "urllib.parse.unquote"]
        dec = isinstance(inner, ast.Call) and inner in calls and len(inner.args) == 1 and chain(inner.args[0]) == "%s.hostname" % P
        strict = dec and any(k.arg == "errors" and try_eval(ctx.prog, fi.module, k.value) == "strict" for k in inner.keywords)
        ctx.ob("the stored Uri-Host is the percent-decoded host component, decoded with errors='strict', lower-cased after decoding", dec and strict, fi, st, detail="decoded value: %s" % stmt_text(inner, 100))
        # guards: rejection guards, the documented opt-out parameter, and `not <IP-literal predicate>`
        facts, other = _facts(ctx, fi, cfg, P, nid)
        pred = None
        unknown = []
        optout = [p for p in pr if p != uri]
        for e, pol, pid in other:
            if isinstance(e, ast.Name) and e.id in optout and is_unwritten_param(fi, e.id) and pol:
                continue
            if isinstance(e, ast.Name) and pred is None:
                E = unique_def_expr(fi, e.id, cfg.pred[pid][0][0])
                if E is not None and (not pol or any(_ip_literal_predicate(ctx, fi, P, E)[0].values())):
                    pred = (e, E, pol)
                    continue
            sib = sibling(cfg, pid)
            if sib is not None and side_rejects(cfg, sib):
                continue
            unknown.append((e, pol))
        ctx.need(pred is not None, "set_request_uri: the Uri-Host store is not under `not <local holding the IP-literal predicate>`")
        ctx.ob("Uri-Host is omitted under no condition other than the IP-literal predicate and the set_uri_host opt-out", not unknown, fi, st,
               detail="further conditions: %s" % [(stmt_text(e, 60), pol) for e, pol in unknown])
        ctx.ob("Uri-Host is stored when the IP-literal predicate is false (and omitted when it is true)", pred[2] is False, fi, st, detail="stored when `%s` is %s" % (pred[0].id, pred[2]))
        parts, extra = _ip_literal_predicate(ctx, fi, P, pred[1])
        pnode = pred[1]
        ctx.ob("IP-literal predicate: a bracketed netloc is a literal", parts["bracket"], fi, pnode, construct="is_ip_literal: bracketed")
        ctx.ob("IP-literal predicate: an IPv4 literal has exactly three dots", parts["dots"], fi, pnode, construct="is_ip_literal: three dots")
        ctx.ob("IP-literal predicate: an IPv4 literal consists of decimal digits and dots only", parts["digits"], fi, pnode, construct="is_ip_literal: digits and dots")
        ctx.ob("IP-literal predicate: every label of an IPv4 literal is at most 255", parts["octets"], fi, pnode, construct="is_ip_literal: labels <= 255")
        ctx.ob("IP-literal predicate: nothing else counts as a literal", not extra, fi, pnode, construct="is_ip_literal: no further case",
               detail="; ".join(stmt_text(x, 70) for x in extra))
    # remote keeps scheme and netloc (the port stays with the destination)
    rs = [st for name, st in stores if name == "@remote"]
    ctx.floor("stores of self.remote in set_request_uri", len(rs), 1)
    for st in rs:
        v = st.value if isinstance(st, ast.Assign) else None
        ok = isinstance(v, ast.Call) and ctx.prog.resolve_in_module(fi.module, chain(v.func) or "?") == "aiocoap.message.UndecidedRemote" and len(v.args) == 2 and not v.keywords \
            and chain(v.args[0]) == "%s.scheme" % P and chain(v.args[1]) == "%s.netloc" % P
        ctx.ob("the remote is UndecidedRemote(scheme, netloc): the port stays with the destination", ok, fi, st)
    ctx.ob("no Uri-Port option is stored by set_request_uri (the port stays in the remote)", not any(name == "uri_port" for name, _ in stores), fi,
           next((st for name, st in stores if name == "uri_port"), fi.node), construct="self.opt.uri_port")


# ---------------------------------------------------------------------------
# C16.e


def _brackets(ctx, fi, e, name):
    """Is e == "[" + name + "]" in one of the usual spellings?"""
    m = match("$f % $x", e)
    if m is not None and try_eval(ctx.prog, fi.module, m["f"]) == "[%s]":
        x = m["x"]
        if isinstance(x, ast.Tuple) and len(x.elts) == 1:
            x = x.elts[0]
        return isinstance(x, ast.Name) and x.id == name
    ops = plus_operands(e)
    if len(ops) == 3:
        return try_eval(ctx.prog, fi.module, ops[0]) == "[" and isinstance(ops[1], ast.Name) and ops[1].id == name and try_eval(ctx.prog, fi.module, ops[2]) == "]"
    if isinstance(e, ast.JoinedStr) and len(e.values) == 3:
        a, b, c_ = e.values
        return isinstance(a, ast.Constant) and a.value == "[" and isinstance(c_, ast.Constant) and c_.value == "]" and isinstance(b, ast.FormattedValue) \
            and isinstance(b.value, ast.Name) and b.value.id == name and b.conversion == -1 and b.format_spec is None
    return False


@R.clause("C16.e", "hostportjoin brackets exactly unbracketed hosts containing ':'; hostportsplit delegates to SplitResult; UndecidedRemote normalises bracketed literals via ipaddress and hostportjoin")
def e(ctx):
    N = Normalizer()
    # --- hostportjoin
    fi = ctx.prog.func("util.hostportjoin")
    cfg = cfg_of(fi)
    p = params(fi)
    ctx.need(len(p) == 2, "hostportjoin signature changed")
    host, port = p
    ws = [w for w in writes_to_name(fi.node, host)]
    ctx.floor("re-bindings of the host in hostportjoin", len(ws), 1)
    ref = N.dnf(ast.parse("':' in %s and not (%s.startswith('[') and %s.endswith(']'))" % (host, host, host), mode="eval").body)
    for w in ws:
        v = def_value(w, host)
        ctx.ob("hostportjoin re-binds the host only to its bracketed form", v[0] == "expr" and _brackets(ctx, fi, v[1], host), fi, w)
        nid = cfg.loc1(w)
        terms, tests = enclosing_condition(cfg, w)
        ctx.need(all(any(contains(t, e_) for t in tests) for e_, _, _ in cfg.guards(nid)), "hostportjoin: the bracketing is additionally controlled by an earlier exit")
        cond = terms[0] if len(terms) == 1 else (ast.BoolOp(op=ast.And(), values=terms) if terms else ast.Constant(value=True))
        try:
            got = N.dnf(cond)
        except NormError:
            got = None
        ctx.ob("the host is bracketed iff it contains ':' and is not already enclosed in brackets", got == ref and nid not in cfg.reach({nid}), fi, w,
               detail="condition: %s" % stmt_text(cond, 120))
    rets = [n for n in walk_no_nested(fi.node) if isinstance(n, ast.Return)]
    ctx.floor("returns of hostportjoin", len(rets), 1)
    seen = set()
    for r in rets:
        ctx.need(r.value is not None, "hostportjoin returns None")
        rn = cfg.loc1(r)
        if isinstance(r.value, ast.Name):
            defs = [(w, def_value(w, r.value.id)) for w in reaching_defs(fi, r.value.id, rn)]
        else:
            defs = [(r, ("expr", r.value))]
        for w, v in defs:
            ctx.need(v[0] == "expr", "hostportjoin: returned value is not bound by a plain assignment")
            val = v[1]
            if isinstance(val, ast.IfExp):
                arms = [(val.body, [(val.test, True)]), (val.orelse, [(val.test, False)])]
            else:
                arms = [(val, [])]
            for av, extra_g in arms:
                wn = cfg.loc1(w)
                facts = set()
                for e_, pol in guard_exprs(cfg, wn) + extra_g:
                    try:
                        c_ = N.cmp(e_)
                    except NormError:
                        continue
                    facts.add(c_ if pol else N.negate(c_))
                none_t = N.cmp(ast.parse("%s is None" % port, mode="eval").body)
                if isinstance(av, ast.Name) and av.id == host:
                    seen.add("bare")
                    ctx.ob("the bare host is returned only when no port is given", none_t in facts, fi, w if w is not r else r, detail="guards: %s" % sorted(map(repr, facts)))
                else:
                    m = match("$f % ($h, $p)", av)
                    okf = m is not None and try_eval(ctx.prog, fi.module, m["f"]) in ("%s:%d", "%s:%s") and chain(m["h"]) == host and chain(m["p"]) == port
                    if not okf and isinstance(av, ast.JoinedStr):
                        vals = av.values
                        okf = len(vals) == 3 and isinstance(vals[1], ast.Constant) and vals[1].value == ":" and all(isinstance(x, ast.FormattedValue) for x in (vals[0], vals[2])) \
                            and chain(vals[0].value) == host and chain(vals[2].value) == port
                    seen.add("joined")
                    ctx.ob("with a port the result is <host>:<port>", okf and N.negate(none_t) in facts, fi, w if w is not r else r, detail="value: %s; guards: %s" % (stmt_text(av, 60), sorted(map(repr, facts))))
    ctx.ob("hostportjoin has both the port-less and the host:port result", seen == {"bare", "joined"}, fi, fi.node, construct="hostportjoin results", detail=sorted(seen))
    ctx.ob("the port parameter of hostportjoin is not re-bound", not writes_to_name(fi.node, port), fi, fi.node, construct="hostportjoin port")

    # --- hostportsplit
    fi = ctx.prog.func("util.hostportsplit")
    cfg = cfg_of(fi)
    p = params(fi)
    ctx.need(len(p) == 1, "hostportsplit signature changed")
    rets = [n for n in walk_no_nested(fi.node) if isinstance(n, ast.Return)]
    ctx.floor("returns of hostportsplit", len(rets), 1)
    for r in rets:
        t = r.value
        ok = isinstance(t, ast.Tuple) and len(t.elts) == 2 and all(isinstance(x, ast.Attribute) and isinstance(x.value, ast.Name) for x in t.elts) \
            and t.elts[0].attr == "hostname" and t.elts[1].attr == "port" and t.elts[0].value.id == t.elts[1].value.id
        src = unique_def_expr(fi, t.elts[0].value.id, cfg.loc1(r)) if ok else None
        ok2 = False
        if src is not None and isinstance(src, ast.Call) and ext_name(fi.module, src) in ("urllib.parse.SplitResult", "urllib.parse.ParseResult"):
            netloc = src.args[1] if len(src.args) > 1 else next((k.value for k in src.keywords if k.arg == "netloc"), None)
            ok2 = isinstance(netloc, ast.Name) and netloc.id == p[0] and not writes_to_name(fi.node, p[0])
        ctx.ob("hostportsplit returns (hostname, port) of a SplitResult whose netloc is its argument", ok and ok2, fi, r)

    # --- UndecidedRemote.__new__
    fi = ctx.prog.func("message.UndecidedRemote.__new__")
    cfg = cfg_of(fi)
    p = params(fi)
    ctx.need(len(p) == 2, "UndecidedRemote.__new__ signature changed")
    scheme, hostinfo = p
    finals = [n for n, b in find("super().__new__($*a)", fi.node)]
    ctx.floor("constructions through super().__new__ in UndecidedRemote.__new__", len(finals), 1)
    for call in finals:
        at = cfg.loc1(call)
        ok_shape = len(call.args) == 3 and isinstance(call.args[1], ast.Name) and call.args[1].id == scheme and not writes_to_name(fi.node, scheme) and isinstance(call.args[2], ast.Name)
        ctx.need(ok_shape, "UndecidedRemote.__new__: super().__new__(cls, scheme, <local>) expected")
        defs = reaching_defs(fi, call.args[2].id, at)
        norm_defs = [w for w in defs if w != PARAM]
        ctx.ob("an unbracketed hostinfo is kept as given", PARAM in defs and call.args[2].id == hostinfo, fi, call)
        ctx.ob("a normalised hostinfo reaches the constructor", len(norm_defs) >= 1, fi, call)
        for w in norm_defs:
            wn = cfg.loc1(w)
            v = def_value(w, call.args[2].id)
            ctx.need(v[0] == "expr", "UndecidedRemote.__new__: hostinfo re-bound by something other than an assignment")
            val = v[1]
            m = match("$f($h, $pt)", val)
            okj = m is not None and ctx.prog.resolve_in_module(fi.module, chain(m["f"]) or "?") == "aiocoap.util.hostportjoin"
            ctx.ob("the normalised hostinfo is hostportjoin(<normalised host>, <port>)", okj, fi, w)
            if not okj:
                continue
            # host: str(ipaddress.ip_address(<host part of hostportsplit(hostinfo)>)); port: port part of the same split
            h = resolve_at(fi, m["h"], wn)
            mh = match("str($ip)", h)
            ip = resolve_at(fi, mh["ip"], wn) if mh is not None else None
            if ip is None and mh is not None:
                ip = mh["ip"]
            # the definition of `host` that feeds ip_address is the one before the re-binding: look it up at the ip statement
            okip = False
            split_call = None
            if ip is not None and isinstance(ip, ast.Call) and ext_name(fi.module, ip) == "ipaddress.ip_address" and len(ip.args) == 1 and isinstance(ip.args[0], ast.Name):
                ipn = cfg.loc1(ip)
                ds = reaching_defs(fi, ip.args[0].id, ipn)
                if len(ds) == 1 and ds[0] != PARAM:
                    dv = def_value(ds[0], ip.args[0].id)
                    if dv[0] == "unpack" and dv[1] == 0:
                        split_call = dv[2]
                        okip = True
            oks = okip and isinstance(split_call, ast.Call) and ctx.prog.resolve_in_module(fi.module, chain(split_call.func) or "?") == "aiocoap.util.hostportsplit" \
                and len(split_call.args) == 1 and isinstance(split_call.args[0], ast.Name) and split_call.args[0].id == hostinfo \
                and reaching_defs(fi, hostinfo, cfg.loc1(split_call)) == [PARAM]
            ctx.ob("the host part of hostportsplit(hostinfo) is normalised by str(ipaddress.ip_address(..))", bool(oks), fi, w, detail="host argument resolves to %s" % stmt_text(h, 80))
            okp = False
            if isinstance(m["pt"], ast.Name) and split_call is not None:
                ds = reaching_defs(fi, m["pt"].id, wn)
                if len(ds) == 1 and ds[0] != PARAM:
                    dv = def_value(ds[0], m["pt"].id)
                    okp = dv[0] == "unpack" and dv[1] == 1 and dv[2] is split_call
            ctx.ob("the port re-joined is the port part of the same hostportsplit(hostinfo)", okp, fi, w)
            brack = any(try_eval(ctx.prog, fi.module, e_.left if isinstance(e_, ast.Compare) else e_) == "[" and isinstance(e_, ast.Compare) and isinstance(e_.ops[0], ast.In)
                        and chain(e_.comparators[0]) == hostinfo and pol for e_, pol in guard_exprs(cfg, wn) if isinstance(e_, ast.Compare) and len(e_.ops) == 1)
            ctx.ob("normalisation applies to hostinfo containing '['", brack, fi, w)
    ci = ctx.prog.cls("message.UndecidedRemote")
    ctx.ob("UndecidedRemote.from_pathless_uri exists and constructs through the same __new__", "from_pathless_uri" in ci.methods and
           any(True for _ in find("cls($a, $b)", ci.methods["from_pathless_uri"].node)) if "from_pathless_uri" in ci.methods else False, None, None, construct="UndecidedRemote.from_pathless_uri")


# ---------------------------------------------------------------------------
@R.clause("C16.f", "urllib is taught only that CoAP URIs are hierarchical (uses_relative, uses_netloc); no CoAP scheme is registered for ;parameters, so a ';' stays part of its path segment")
def f_urllib(ctx):
    """Added after an independently written breaking change also registered the CoAP schemes in urllib.parse.uses_params:
    urlparse() then splits `;params` off the last path segment, set_request_uri never looks at parsed.params, and
    `/temp;unit=C` and `/temp` collapse."""
    mod = ctx.prog.module("message")
    touched = {}
    for st in mod.tree.body:
        for n in ast.walk(st):
            if isinstance(n, ast.Attribute) and n.attr.startswith("uses_") and (chain(n) or "").startswith("urllib.parse."):
                touched.setdefault(n.attr, st)
            if isinstance(n, ast.Constant) and isinstance(n.value, str) and n.value.startswith("uses_") and any(isinstance(x, ast.Attribute) and (chain(x) or "") == "urllib.parse" or (isinstance(x, ast.Name) and x.id == "urllib") for x in ast.walk(st)):
                touched.setdefault(n.value, st)
    ctx.ob("the CoAP schemes are registered as hierarchical URIs", {"uses_relative", "uses_netloc"} <= set(touched), None, None, construct="message.py: urllib.parse registrations %s" % sorted(touched))
    extra = sorted(set(touched) - {"uses_relative", "uses_netloc"})
    fi0 = None
    ctx.ob("no further urllib scheme table is modified (uses_params would split ';...' off the last segment)", not extra, None, None,
           construct="message.py: urllib.parse.%s" % (extra[0] if extra else "uses_* (none besides relative/netloc)"))
    sfi = ctx.prog.func("message.Message.set_request_uri")
    reads_params = any(isinstance(n, ast.Attribute) and n.attr == "params" for n in ast.walk(sfi.node))
    if extra and "uses_params" in extra:
        ctx.ob("if parameters are split off they are put back", reads_params, sfi, sfi.node, construct="set_request_uri: parsed.params")


F_M = "aiocoap/message.py"
F_U = "aiocoap/util/__init__.py"
F_Q = "aiocoap/util/uri.py"

# C16.a (on the unrepaired tree these are masked by finding F6; run the thorough tier against the repaired copy)
R.seed("C16.a", F_M, "        except UnicodeError as e:\n            raise error.MalformedUrlError(\n                \"Percent encoded strings in CoAP URIs need", "        except UnicodeEncodeError as e:\n            raise error.MalformedUrlError(\n                \"Percent encoded strings in CoAP URIs need", "wrong Unicode error class: non-UTF-8 escapes leave as UnicodeDecodeError")
R.seed("C16.a", F_M, "        try:\n            parsed = urllib.parse.urlparse(uri)\n        except ValueError as e:\n            raise error.MalformedUrlError from e\n", "        parsed = urllib.parse.urlparse(uri)\n", "urlparse's ValueError (e.g. 'coap://[::1') escapes")
R.seed("C16.a", F_M, "        try:\n            _ = parsed.port\n        except ValueError as e:\n            raise error.MalformedUrlError(\"Port must be numeric\") from e\n", "        _ = parsed.port\n", "non-numeric port leaves as plain ValueError")
R.seed("C16.a", F_M, "            raise error.MalformedUrlError(\"CoAP URIs need a hostname\")", "            raise ValueError(\"CoAP URIs need a hostname\")", "undocumented exception class")
R.seed("C16.a", F_M, "            except UnicodeError as e:\n                raise error.MalformedUrlError(\n                    \"Percent encoded strings in CoAP URI hosts", "            except KeyError as e:\n                raise error.MalformedUrlError(\n                    \"Percent encoded strings in CoAP URI hosts", "host escapes no longer converted")
# C16.b
R.seed("C16.b", F_M, "        if parsed.fragment:\n            raise error.MalformedUrlError(\n                \"Fragment identifiers can not be set on a request URI\"\n            )\n", "", "fragment guard dropped")
R.seed("C16.b", F_M, "        if parsed.username or parsed.password:\n            raise error.MalformedUrlError(", "        if parsed.username and parsed.password:\n            raise error.MalformedUrlError(", "user name alone is accepted")
R.seed("C16.b", F_M, "        if not parsed.hostname:\n            raise error.MalformedUrlError(\"CoAP URIs need a hostname\")\n", "", "host guard dropped")
R.seed("C16.b", F_M, "        if not parsed.scheme:\n            raise error.IncompleteUrlError()\n\n        if parsed.scheme not in coap_schemes:\n            self.opt.proxy_uri = uri\n            return\n", "        if parsed.scheme not in coap_schemes:\n            self.opt.proxy_uri = uri\n            return\n", "relative reference becomes a Proxy-Uri")
R.seed("C16.b", F_M, "            self.opt.proxy_uri = uri\n            return\n", "            self.opt.proxy_uri = uri\n", "non-CoAP scheme falls through into the Uri-* stores")
R.seed("C16.b", F_M, "        try:\n            _ = parsed.port\n        except ValueError as e:\n            raise error.MalformedUrlError(\"Port must be numeric\") from e\n", "", "port never validated")
R.seed("C16.b", F_M, "        if not parsed.scheme:\n            raise error.IncompleteUrlError()\n", "        if not parsed.scheme:\n            raise error.MalformedUrlError()\n", "missing scheme reported with the wrong documented class")
# C16.c
R.seed("C16.c", F_M, "_quote_for_path = quote_factory(unreserved + sub_delims + \":@\")", "_quote_for_path = quote_factory(unreserved + sub_delims + \":@/\")", "'/' safe in path segments: a/b and [a, b] collapse")
R.seed("C16.c", F_M, "\"\".join(c for c in sub_delims if c != \"&\") + \":@/?\"", "sub_delims + \":@/?\"", "'&' safe in query segments")
R.seed("C16.c", F_M, "                    for x in parsed.query.split(\"&\")", "                    for x in parsed.query.split(\";\")", "query split on ';'")
R.seed("C16.c", F_M, "                    for x in parsed.path.split(\"/\")[1:]", "                    for x in parsed.path.split(\"/\")", "leading empty element kept")
R.seed("C16.c", F_M, "path = \"\".join(\"/\" + _quote_for_path(p) for p in path) or \"/\"", "path = \"\".join(\"/\" + _quote_for_query(p) for p in path) or \"/\"", "path segments quoted with the query function ('/' and '?' safe)")
R.seed("C16.c", F_Q, "unreserved = string.ascii_letters + string.digits + \"-._~\"", "unreserved = string.ascii_letters + string.digits + \"-._~%\"", "'%' never escaped")
R.seed("C16.c", F_Q, "chr(x) if x in safe_set else \"%%%02X\" % x for x in encoded", "chr(x) if x not in safe_set else \"%%%02X\" % x for x in encoded", "quote function inverted")
R.seed("C16.c", F_M, "            if parsed.path not in (\"\", \"/\"):", "            if parsed.path not in (\"\",):", "'coap://h/' yields one empty Uri-Path")
R.seed("C16.c", F_M, "        query = \"&\".join(_quote_for_query(q) for q in query)", "        query = \";\".join(_quote_for_query(q) for q in query)", "writer joins with ';'")
# C16.d
R.seed("C16.d", F_M, "                ).translate(_ascii_lowercase)\n", "                )\n", "host not lower-cased")
R.seed("C16.d", F_M, "_ascii_lowercase = str.maketrans(string.ascii_uppercase, string.ascii_lowercase)", "_ascii_lowercase = str.maketrans(string.ascii_lowercase, string.ascii_uppercase)", "table maps the wrong way")
R.seed("C16.d", F_M, "            parsed.hostname.count(\".\") == 3\n", "            parsed.hostname.count(\".\") >= 3\n", "1.2.3.4.5 treated as IPv4 literal")
R.seed("C16.d", F_M, "        if set_uri_host and not is_ip_literal:", "        if set_uri_host and is_ip_literal:", "Uri-Host sent for literals only")
R.seed("C16.d", F_M, "self.remote = UndecidedRemote(parsed.scheme, parsed.netloc)", "self.remote = UndecidedRemote(parsed.scheme, parsed.hostname)", "port lost from the remote")
R.seed("C16.d", F_M, "                self.opt.uri_host = urllib.parse.unquote(\n                    parsed.hostname, errors=\"strict\"\n                )", "                self.opt.uri_host = urllib.parse.unquote(\n                    parsed.hostname\n                )", "invalid UTF-8 in the host replaced instead of rejected")
# C16.e
R.seed("C16.e", F_U, "    if \":\" in host and not (host.startswith(\"[\") and host.endswith(\"]\")):", "    if \":\" in host and not host.startswith(\"[\"):", "weaker already-bracketed test")
R.seed("C16.e", F_U, "    if \":\" in host and not (host.startswith(\"[\") and host.endswith(\"]\")):", "    if \":\" in host:", "double bracketing")
R.seed("C16.e", F_U, "        return pseudoparsed.hostname, pseudoparsed.port", "        return pseudoparsed.netloc, pseudoparsed.port", "split keeps brackets and port in the host")
R.seed("C16.e", F_M, "            hostinfo = hostportjoin(host, port)\n", "            hostinfo = hostportjoin(host)\n", "port dropped when normalising a literal")
R.seed("C16.e", F_M, "            host = str(ip)\n", "            host = str(host)\n", "literal not normalised through ipaddress")

R.seed("C16.c", "aiocoap/message.py", "                    for x in parsed.path.split(\"/\")[1:]", "                    for x in parsed.path.lstrip(\"/\").split(\"/\")", "all leading slashes stripped: //a and /a collapse")

R.seed("C16.f", "aiocoap/message.py", "urllib.parse.uses_netloc.extend(coap_schemes)\n", "urllib.parse.uses_netloc.extend(coap_schemes)\nurllib.parse.uses_params.extend(coap_schemes)\n", "';params' split off the last path segment and dropped")
R.seed("C16.c", "aiocoap/util/uri.py", "def quote_factory(safe_characters):", "def quote_factory(safe_characters, _memo={}):", "memo shared between the path and the query quoter")
