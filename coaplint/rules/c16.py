"""C16 CoAP URIs and Uri-* options convert into each other without loss."""

import ast
import string as _string
import urllib.parse as _up

from ..rulekit import *
from ..norm import Normalizer, NormError
from ..exc import EscapeAnalysis
from ..model import BUILTIN_EXC, Program
from ._c16c17kit import *
from ._kit_c16 import Exec, Evaluator, EvalRaised, BoolSpace, St, Closure, txt, src_of, mk_not, mk_and, mk_or, qual_name, contexts, flat_facts, callable_normal_form, free_names, Frame, RAISE, raise_leaf, tree_of
from ._kit_c16 import _BUILTINS as EVAL_BUILTINS
from ._kit_c16 import Interp, InterpFunction, StatefulEvaluator

R = Rules(
    "C16",
    explanation=(
        "Clauses over Message.set_request_uri / get_request_uri and their helpers, decided on the syntax trees of message.py, "
        "util/__init__.py, util/uri.py and error.py.  The functions are summarised by symbolic execution (locals substituted by "
        "their definitions, helper functions that are not anchors of the confirmed tree executed in place, search / accumulation "
        "loops turned into any() / comprehensions, conditional expressions hoisted into path conditions), so every clause is "
        "phrased over outcomes (path condition, field stores, evaluated expressions, return value / raised class) and is "
        "indifferent to early returns, nesting, hoisted locals, extracted helpers and guard order.  Conditions are compared by "
        "truth tables over normalised atoms with finite universes for the URL components; values that are closed over one URL "
        "component or over (host, port) are decided by evaluating them with the checker's own expression evaluator on a fixed "
        "representative set covering every combination of the atoms of the specification (degenerate / empty / doubled "
        "separators, valid, reserved and non-UTF-8 escapes, upper-case and non-ASCII letters; every byte value for the quoting "
        "function).  (a) the exception-escape set of set_request_uri (closure over UndecidedRemote.__new__, from_pathless_uri, "
        "hostportsplit, hostportjoin) is contained in {MalformedUrlError, IncompleteUrlError}, with the lemma DIGIT-LABEL "
        "re-checked on the summarised form; (b) a fragment, a missing scheme, a missing host or user-info are rejected with the "
        "documented class before anything is stored, a non-CoAP scheme stores Proxy-Uri and nothing else, the port is read "
        "(hence validated) and remote, Uri-Path and Uri-Query are set on every accepted CoAP path; (c) Uri-Path / Uri-Query are "
        "the strictly percent-decoded split('/')[1:] / split('&') of the component and empty exactly for '', '/' / '', the "
        "writer -- over all outcomes of get_request_uri, a constant component such as '/' being admitted for exactly the segment lists its "
        "path condition selects; loops with several / conditional appends, string accumulation and join idioms are given their closed form "
        "by the executor -- composes, for segment lists with empty and reserved-character segments, exactly the quoted segments joined with "
        "the same separators (checked once with tagging quote functions and once with the specified quoting, so post-processing of the "
        "joined text is seen), the quoting function (nested function, lambda, functools.partial of a helper, with or without a precomputed "
        "per-byte table) keeps exactly the bytes of its safe set, and "
        "the safe sets never contain the separator, '%', '?', '#'; (d) Uri-Host is the strictly percent-decoded host passed "
        "through the ASCII lower-casing table and is stored exactly when not opted out and the IP-literal predicate (bracketed, "
        "or three dots / digits and dots only / every label <= 255) is false, the remote keeps scheme and netloc; (e) hostportjoin "
        "brackets exactly hosts that contain ':' and are not bracketed, hostportsplit delegates to SplitResult, UndecidedRemote "
        "normalises bracketed literals through ipaddress.ip_address and re-joins with hostportjoin; (g) the authority get_request_uri "
        "composes, evaluated per outcome on scenarios over request / response, group / unicast destination, client / server side, "
        "Uri-Host and Uri-Port present / absent: the remote's hostinfo with the options taking the place of host / port, except for "
        "a response to a group request, whose authority is the responder's own endpoint untouched by the request's options; "
        "quote_nonascii by evaluation; (h) the quote functions of message.py as they are wired there (a module-level object is one "
        "object, a default argument is evaluated once) are run alternately on the checker's own interpreter: every result is the "
        "quoting of the function's own safe set whatever was quoted before (a memo must be private to a safe set or keyed by it); "
        "a quote function with state is decided by interpretation in (c) as well; (i) for every remote whose hostinfo is joined "
        "from a stored (host, port) pair filled from the socket's names, and every class that creates it and hands itself in as "
        "the object scheme and default port are read from, the port the pair denotes under the remote's own scheme is the socket's "
        "port; (j) the Uri-Host / Uri-Path / Uri-Query options hold exactly the text stored into them -- value of the option object, the "
        "Options property both conversions use, and a trip through the wire form (UTF-8) -- decided by running the repository's option "
        "classes in the interpreter of C01 on text that is not in a normalisation form, mixed case, padded, reserved; (k) no outcome of "
        "set_request_uri that raises by a test of its own applies to a URI without a documented defect: the path conditions are "
        "evaluated (regular expressions included) on acceptable URIs covering names, IPv4 / IPv6 literals with zone identifiers and "
        "ports, escapes and reserved characters.  Not decided: value-level round-trip equality over Unicode beyond the representative set, RFC 3986 validity of host "
        "names, hostinfo of the datagram transports (constant scheme and constant elided port in one class)."
    ),
    rule_text="symbolic summaries (outcomes) of the anchored functions, exception-escape analysis with one re-checked lemma, truth-table comparison of path conditions with reference predicates, finite-domain evaluation of component-closed values, constant evaluation of safe sets, scenario evaluation over the facts a function reads, concrete interpretation of functions with state",
)

MSG = "message.Message."
SET = MSG + "set_request_uri"
GET = MSG + "get_request_uri"
URL_ERRORS = ("aiocoap.error.MalformedUrlError", "aiocoap.error.IncompleteUrlError")
DIGITS_DOT = set("0123456789.")
URLPARSE = ("urllib.parse.urlparse", "urllib.parse.urlsplit")
P = "P__"  # canonical name of urlparse(<uri parameter>) in summarised expressions

# external callees inside the escape region whose behaviour is tabulated (exc.EXT_RAISES plus the
# entry below) or that cannot raise on the str/tuple values they are applied to here
BENIGN_EXTERNALS = {
    "all", "any", "str", "len", "isinstance", "bool", "tuple", "list", "set", "sorted", "repr", "min", "max",
    "enumerate", "zip", "range", "getattr", "hasattr", "super", "super.__new__", "super.__init__", "ord", "chr", "dict",
    "frozenset", "type", "cls", "print", "warnings.warn", "urllib.parse.SplitResult", "urllib.parse.unquote",
    "urllib.parse.urlparse", "urllib.parse.urlsplit", "ipaddress.ip_address", "str.maketrans", "urllib.parse.unquote_plus", "bytes",
}
EXTRA_RAISES = {"urllib.parse.unquote": ["UnicodeDecodeError"]}  # errors="strict" on non-UTF-8 escapes


# ---------------------------------------------------------------------------
# expression utilities


def rewrite(e, fn):
    """Bottom-up copy of expression e; fn(node) -> replacement or None."""
    if isinstance(e, list):
        return [rewrite(x, fn) for x in e]
    if not isinstance(e, ast.AST):
        return e
    if isinstance(e, (ast.expr_context, ast.operator, ast.unaryop, ast.boolop, ast.cmpop)):
        return e
    kw = {}
    changed = False
    for f, v in ast.iter_fields(e):
        nv = rewrite(v, fn) if isinstance(v, (ast.AST, list)) else v
        if nv is not v and not (isinstance(v, list) and all(a is b for a, b in zip(v, nv)) and len(v) == len(nv)):
            changed = True
        kw[f] = nv
    if changed:
        c = type(e)(**kw)
        for a in ("_src", "_mod", "_local", "_loop", "_closure", "_opaque"):
            if hasattr(e, a):
                setattr(c, a, getattr(e, a))
    else:
        c = e
    r = fn(c)
    return c if r is None else r


def pexpr(src):
    """Reference expression written over P__ (and other free local names)."""
    e = ast.parse(src, mode="eval").body
    for n in ast.walk(e):
        if isinstance(n, ast.Name):
            n._local = True
    return e


def local_name(name):
    n = ast.Name(id=name, ctx=ast.Load())
    n._local = True
    return n


def contains_name(e, name):
    return any(isinstance(n, ast.Name) and n.id == name for n in ast.walk(e))


# ---------------------------------------------------------------------------
# the summarised setter


class SetterModel:
    """Outcomes of set_request_uri with every `urlparse(<uri parameter>)`
    replaced by the canonical name P__, the condition space over the URL
    components, and the reference facts."""

    def __init__(self, ctx, prog=None):
        prog = prog or ctx.prog
        self.ctx = ctx
        self.prog = prog
        self.fi = fi = prog.func(SET)
        p = params(fi)
        ctx.need(len(p) >= 1, "set_request_uri has no uri parameter")
        self.uri = p[0]
        self.optout = [x for x in p[1:] + [a.arg for a in fi.node.args.kwonlyargs]]
        self.ex = Exec(prog)
        self.ev = Evaluator(prog)
        raw = self.ex.run(fi)
        self.nP = 0
        self.outs = [self._canon_state(o) for o in raw]
        ctx.need(self.nP > 0, "set_request_uri: no urlparse(<uri parameter>) found")
        for o in self.outs:
            for e in o.exprs():
                for n in ast.walk(e):
                    if isinstance(n, ast.Call) and qual_name(prog, fi.module, n) in URLPARSE:
                        raise AnalysisError("%s: set_request_uri parses something other than its uri parameter: `%s`" % (ctx.clause, txt(n, 80)))
        self.coap = self.ev.try_ev(ast.Name(id="coap_schemes", ctx=ast.Load()), fi.module)
        ctx.need(isinstance(self.coap, (list, tuple, set, frozenset)) and len(self.coap) >= 1 and all(isinstance(s, str) and s.startswith("coap") for s in self.coap),
                 "message.coap_schemes does not evaluate to a list of coap* scheme names")
        self.sp = BoolSpace(lambda e: self.ev.ev(e, fi.module, {}), domain=self._domain, special=self._special)
        self._octet_cache = {}
        # reference facts
        self.FRAG = self.sp.formula(pexpr("P__.fragment"))
        self.SCHEME = self.sp.formula(pexpr("P__.scheme"))
        self.HOST = self.sp.formula(pexpr("P__.hostname"))
        self.USER = self.sp.formula(pexpr("P__.username"))
        self.PW = self.sp.formula(pexpr("P__.password"))
        scheme_e = pexpr("P__.scheme")
        self.COAP = self.sp.formula(ast.Compare(left=scheme_e, ops=[ast.In()], comparators=[ast.Constant(value=tuple(sorted(self.coap)))]))
        self.LIT = ("or", (("atom", "IPLIT:bracket"), ("and", (self.sp.formula(pexpr("P__.hostname.count('.') == 3")), ("atom", "IPLIT:digits"), ("atom", "IPLIT:octets")))))

    # -- canonicalisation --------------------------------------------------------
    def _is_P(self, n):
        return isinstance(n, ast.Call) and qual_name(self.prog, self.fi.module, n) in URLPARSE and len(n.args) == 1 and not n.keywords \
            and isinstance(n.args[0], ast.Name) and n.args[0].id == self.uri and getattr(n.args[0], "_local", False)

    def canon(self, e):
        def fn(n):
            if self._is_P(n):
                self.nP += 1
                c = local_name(P)
                c._src = src_of(n)
                return c
            return None
        return rewrite(e, fn)

    def _canon_state(self, o):
        s = St({}, [])
        s.end = o.end
        s.flags = set(o.flags)
        if o.end is not None and isinstance(o.end[1], ast.AST):
            s.end = (o.end[0], self.canon(o.end[1]), o.end[2])
        for ev in o.trace:
            if ev[0] == "cond":
                e = self.canon(ev[1])
                s.trace.append(("cond", e, ev[2], ev[3], dump(e)))
            elif ev[0] == "store":
                s.trace.append(("store", ev[1], self.canon(ev[2]) if ev[2] is not None else None, ev[3], ev[4]))
            elif ev[0] == "eval":
                s.trace.append(("eval", self.canon(ev[1]), None, ev[3]))
            else:
                s.trace.append(ev)
        return s

    # -- condition space -----------------------------------------------------------------
    @staticmethod
    def comp(e):
        """name of the URL component `P__.<name>`, or None"""
        if isinstance(e, ast.Attribute) and isinstance(e.value, ast.Name) and e.value.id == P:
            return e.attr
        return None

    def _domain(self, e):
        # urllib facts: the six components of urlparse(str) are str (never None); hostname is None when absent (never '');
        # username / password are None when absent and may be ''
        c = self.comp(e)
        if c in ("scheme", "netloc", "path", "params", "query", "fragment"):
            return [""]
        if c == "hostname":
            return [None]
        if c in ("username", "password"):
            return [None, ""]
        return None

    def _const(self, e):
        return self.ev.try_ev(e, self.fi.module, {}, default=_NOVAL)

    def _special(self, e):
        """The atoms of the IP-literal predicate, whatever their spelling."""
        # bracketed netloc
        if isinstance(e, ast.Call) and isinstance(e.func, ast.Attribute) and e.func.attr == "startswith" and self.comp(e.func.value) == "netloc" and len(e.args) == 1 and not e.keywords:
            if self._const(e.args[0]) == "[":
                return ("atom", "IPLIT:bracket")
        if isinstance(e, ast.Compare) and len(e.ops) == 1 and isinstance(e.ops[0], (ast.Eq, ast.NotEq)):
            for a, b in ((e.left, e.comparators[0]), (e.comparators[0], e.left)):
                if isinstance(a, ast.Subscript) and self.comp(a.value) == "netloc" and isinstance(a.slice, ast.Slice) and a.slice.lower is None and a.slice.step is None \
                        and a.slice.upper is not None and self._const(a.slice.upper) == 1 and self._const(b) == "[":
                    f = ("atom", "IPLIT:bracket")
                    return f if isinstance(e.ops[0], ast.Eq) else ("not", f)
                # len(H.split('.')) == n  <=>  H.count('.') == n - 1
                if isinstance(a, ast.Call) and chain(a.func) == "len" and len(a.args) == 1 and isinstance(a.args[0], ast.Call) and isinstance(a.args[0].func, ast.Attribute) \
                        and a.args[0].func.attr == "split" and len(a.args[0].args) == 1 and isinstance(self._const(b), int) and isinstance(self._const(a.args[0].args[0]), str):
                    h, sep = a.args[0].func.value, a.args[0].args[0]
                    cnt = ast.Call(func=ast.Attribute(value=h, attr="count", ctx=ast.Load()), args=[ast.Constant(value=self._const(sep))], keywords=[])
                    return self.sp.formula(ast.Compare(left=cnt, ops=[e.ops[0]], comparators=[ast.Constant(value=self._const(b) - 1)]))
        # quantified atoms over the host
        q = self._quantified(e)
        if q is not None:
            kind, var, it, elt = q  # all(elt for var in it)
            pol = True
            if kind == "any":
                elt, pol = mk_not(elt), False
            f = None
            if self.comp(it) == "hostname":
                d = self._member_set(elt, var)
                if d is not None and d == DIGITS_DOT:
                    f = ("atom", "IPLIT:digits")
            elif isinstance(it, ast.Call) and isinstance(it.func, ast.Attribute) and it.func.attr == "split" and self.comp(it.func.value) == "hostname" \
                    and len(it.args) == 1 and not it.keywords and self._const(it.args[0]) == ".":
                if self._octet_predicate(elt, var):
                    f = ("atom", "IPLIT:octets")
            if f is not None:
                return f if pol else ("not", f)
        # set(H) <= set(D)
        if isinstance(e, ast.Compare) and len(e.ops) == 1 and isinstance(e.ops[0], ast.LtE):
            a, b = e.left, e.comparators[0]
            if isinstance(a, ast.Call) and chain(a.func) in ("set", "frozenset") and len(a.args) == 1 and self.comp(a.args[0]) == "hostname":
                d = self._const(b)
                if isinstance(d, (set, frozenset)) and set(d) == DIGITS_DOT:
                    return ("atom", "IPLIT:digits")
        if isinstance(e, ast.Call) and isinstance(e.func, ast.Attribute) and e.func.attr == "issubset" and len(e.args) == 1 and not e.keywords:
            a = e.func.value
            if isinstance(a, ast.Call) and chain(a.func) in ("set", "frozenset") and len(a.args) == 1 and self.comp(a.args[0]) == "hostname":
                d = self._const(e.args[0])
                if isinstance(d, (str, set, frozenset, list, tuple)) and set(d) == DIGITS_DOT:
                    return ("atom", "IPLIT:digits")
        # a comparison of something COUNTED over the host (`len([x for x in H.split('.') if ok(x)]) == 4`, a counter
        # incremented in a loop, `sum(..)`): the atoms of the reference predicate are quantified statements, and a count
        # equals one only relative to the number of labels -- not decided here; an uninterpreted atom would surface
        # as a bogus counterexample, so the shape is refused instead
        if isinstance(e, ast.Compare):
            for side in [e.left] + list(e.comparators):
                for n in ast.walk(side):
                    if isinstance(n, (ast.ListComp, ast.GeneratorExp, ast.SetComp)) and any(self.comp(x) in ("hostname", "netloc") for g in n.generators for x in ast.walk(g.iter)):
                        raise AnalysisError("set_request_uri: a condition compares a count / aggregate over the host (`%s`): outside the vocabulary of the IP-literal predicate" % txt(e, 90))
        return None

    @staticmethod
    def _quantified(e):
        if isinstance(e, ast.Call) and isinstance(e.func, ast.Name) and e.func.id in ("all", "any") and len(e.args) == 1 and not e.keywords \
                and isinstance(e.args[0], (ast.GeneratorExp, ast.ListComp)) and len(e.args[0].generators) == 1:
            g = e.args[0].generators[0]
            if isinstance(g.target, ast.Name) and not g.is_async:
                elt = e.args[0].elt
                if g.ifs:
                    # all(c for x in it if f) == all(not f or c ...); any(c ... if f) == any(f and c ...)
                    f = mk_and(g.ifs)
                    elt = mk_or([mk_not(f), elt]) if e.func.id == "all" else mk_and([f, elt])
                return e.func.id, g.target.id, g.iter, elt
        return None

    def _member_set(self, elt, var):
        """elt == `var in D` (any spelling of the polarity) -> set(D)"""
        pol = True
        while isinstance(elt, ast.UnaryOp) and isinstance(elt.op, ast.Not):
            elt, pol = elt.operand, not pol
        if isinstance(elt, ast.Compare) and len(elt.ops) == 1 and isinstance(elt.ops[0], (ast.In, ast.NotIn)) and isinstance(elt.left, ast.Name) and elt.left.id == var:
            if isinstance(elt.ops[0], ast.NotIn):
                pol = not pol
            d = self._const(elt.comparators[0])
            if pol and isinstance(d, (str, tuple, list, set, frozenset)) and d and all(isinstance(c, str) and len(c) == 1 for c in d):
                return set(d)
        return None

    def _octet_predicate(self, elt, var):
        """Does `elt` (over the label `var`, a string of decimal digits) say "a non-empty label of value <= 255"?
        Decided by evaluating it on every digit string of length 0..4: for up to three digits it must equal
        (label != '' and int(label) <= 255); for four digits it may only accept values <= 255 (a length limit of
        three or more digits removes no label <= 255 written without leading zeros)."""
        k = dump(elt) + "|" + var
        if k in self._octet_cache:
            return self._octet_cache[k]
        ok = True
        try:
            for n in range(0, 5):
                for v in range(10 ** n if n else 1):
                    x = "%0*d" % (n, v) if n else ""
                    try:
                        got = bool(self.ev.ev(elt, self.fi.module, {var: x}))
                    except EvalRaised:
                        got = None
                    want = x != "" and int(x) <= 255
                    if n <= 3:
                        if got is not want:
                            ok = False
                    elif got is None or (got and not want):
                        ok = False
                    if not ok:
                        break
                if not ok:
                    break
        except NormError:
            ok = False
        self._octet_cache[k] = ok
        return ok

    # -- outcome classes -----------------------------------------------------------------------
    def conj(self, o, upto=None):
        return self.sp.conj(o.conds(upto))

    def plain(self):
        """outcomes on which no exception handler was entered"""
        return [o for o in self.outs if not o.exceptional]

    def accepted(self):
        return [o for o in self.outs if o.normal]

    def arm(self, o):
        """'coap' / 'other' / None (the scheme is not decided on the path)"""
        c = self.conj(o)
        if self.sp.implies(c, self.COAP):
            return "coap"
        if self.sp.implies(c, ("not", self.COAP)):
            return "other"
        return None


_NOVAL = object()


def _model(ctx):
    m = getattr(ctx, "_c16_model", None)
    if m is None:
        m = SetterModel(ctx)
        ctx._c16_model = m
    m.ctx = ctx
    return m


def _is_url_error(prog, cls):
    return cls is not None and any(prog.is_subclass(cls, a) for a in URL_ERRORS)


# ---------------------------------------------------------------------------
# C16.a


def _only_referenced_from(prog, helper, allowed):
    """Every reference to the helper's name in the package lies in one of the allowed functions."""
    name = helper.name
    refs = set()
    for m in prog.modules.values():
        for n in ast.walk(m.tree):
            if (isinstance(n, ast.Name) and n.id == name and isinstance(n.ctx, ast.Load)) or (isinstance(n, ast.Attribute) and n.attr == name):
                refs.add(id(n))
    for f in prog.funcs.values():
        for x in walk_no_nested(f.node):
            if id(x) in refs:
                if f.qn not in allowed:
                    return False
                refs.discard(id(x))
    return not refs  # anything left is referenced at module / class level


def _int_label_lemma(ctx, M):
    """Lemma DIGIT-LABEL: `int(x)` cannot raise when, at the moment it is evaluated,
    (1) x ranges over S.split(".") (comprehension variable, or the variable of a
    search loop, which the summary turns into any(..)), (2) x is known to be
    non-empty, (3) len(x) is bounded by at most 4300 (CPython's int-max-str-digits)
    and (4) `all(c in D for c in S)` is known to hold for the same S with D a
    subset of the decimal digits and '.'.  "Known" = an earlier operand of an
    enclosing `and` (true) / `or` (false), the test of an enclosing conditional
    expression, an `if` clause of the comprehension, or a condition of the path
    on which the expression is evaluated -- all read off the summarised form of
    set_request_uri, so the premises may sit in the function itself or in any
    helper executed in place.  Returns the int() call nodes of the analysed tree
    all of whose occurrences in the summary satisfy the premises."""
    N = Normalizer()
    occ = {}  # id(original call) -> [original node, all proven]

    def is_int(n):
        return isinstance(n, ast.Call) and isinstance(n.func, ast.Name) and n.func.id == "int" and len(n.args) == 1 and not n.keywords

    def digits_fact(e, pol, S):
        q = M._quantified(e)
        if q is None:
            return False
        kind, var, it, elt = q
        if kind == "any":
            elt, pol = mk_not(elt), not pol
        if not pol or dump(it) != dump(S):
            return False
        d = M._member_set(elt, var)
        return d is not None and d <= DIGITS_DOT

    for o in M.outs:
        prefix = []
        for ev in o.trace:
            e = ev[1] if ev[0] in ("cond", "eval") else (ev[2] if ev[0] == "store" else None)
            if e is not None:
                for call, facts, binders in contexts(e, is_int):
                    rec = occ.setdefault(id(src_of(call)), [src_of(call), True])
                    arg = call.args[0]
                    # an operand known true that is the constant False (a flag the path has decided, substituted into
                    # an `and`): the call is not evaluated on this path at all
                    ok = any(isinstance(fe, ast.Constant) and bool(fe.value) != pol for fe, pol in flat_facts(list(prefix) + list(facts)))
                    if not ok and isinstance(arg, ast.Name) and binders and binders[-1][0] is not None:
                        tgt, it = binders[-1]
                        if isinstance(tgt, ast.Name) and tgt.id == arg.id and isinstance(it, ast.Call) and isinstance(it.func, ast.Attribute) and it.func.attr == "split" \
                                and len(it.args) == 1 and not it.keywords and M._const(it.args[0]) == ".":
                            S = it.func.value
                            x = arg.id
                            known = flat_facts(list(prefix) + list(facts))
                            nonempty = bounded = digits = False
                            for fe, pol in known:
                                if isinstance(fe, ast.Name) and fe.id == x and pol:
                                    nonempty = True
                                    continue
                                if digits_fact(fe, pol, S):
                                    digits = True
                                    continue
                                try:
                                    c_ = N.cmp(fe)
                                    if not pol:
                                        c_ = N.negate(c_)
                                except Exception:
                                    continue
                                if c_ == N.cmp(ast.parse("%s != ''" % x, mode="eval").body) or c_ == N.cmp(ast.parse("len(%s) >= 1" % x, mode="eval").body):
                                    nonempty = True
                                if c_[0] == "lt":
                                    p_ = c_[1]
                                    k = p_.t.get((), None)
                                    la = (("len(%s)" % x, 1),)
                                    if set(p_.t) == {la, ()} and p_.t[la] == 1 and k is not None and -4301 <= k < 0:
                                        bounded = True  # len(x) + k < 0, i.e. len(x) <= -k - 1 <= 4300
                                    if set(p_.t) == {la, ()} and p_.t[la] == -1 and k is not None and k >= 0:
                                        nonempty = True  # k - len(x) < 0, i.e. len(x) > k >= 0
                            ok = nonempty and bounded and digits
                    if not ok:
                        rec[1] = False
            if ev[0] == "cond":
                prefix.append((ev[1], ev[2]))
    proven = []
    allowed = {M.fi.qn} | set(M.ex.inlined)
    for node, ok in occ.values():
        if not ok:
            continue
        owner = [f for f in M.prog.funcs.values() if f.qn in allowed and any(x is node for x in ast.walk(f.node))]
        if not owner:
            continue
        own = min(owner, key=lambda f: (f.node.end_lineno or 0) - f.node.lineno)
        if own.qn != M.fi.qn and not _only_referenced_from(M.prog, own, allowed):
            continue  # the helper is also reached from elsewhere: its int() is not covered by this summary
        proven.append(node)
    return proven


def _origin_node(fi, esc):
    for n in ast.walk(fi.node):
        if getattr(n, "lineno", None) == esc.line and isinstance(n, (ast.expr, ast.stmt)):
            for lim in (80, 100, 60):
                if stmt_text(n, lim) == esc.text:
                    return n
    return None


def _total_star_unpack(node):
    """`a, *rest = S.split(sep)` (at most one plain target besides the starred one, a constant non-empty separator, S a
    plain name / attribute chain): str.split with a separator returns at least one element, so the unpacking cannot
    fail and nothing else in the statement can raise ValueError.  (The escape analysis tabulates every tuple-unpacking
    of a split() as a ValueError site and has no exemption hook for it: engine limitation, worked around here.)"""
    if not (isinstance(node, ast.Assign) and len(node.targets) == 1 and isinstance(node.targets[0], (ast.Tuple, ast.List))):
        return False
    elts = node.targets[0].elts
    if sum(isinstance(x, ast.Starred) for x in elts) != 1 or len(elts) > 2:
        return False
    if not all(isinstance(x.value if isinstance(x, ast.Starred) else x, ast.Name) for x in elts):
        return False
    v = node.value
    if not (isinstance(v, ast.Call) and isinstance(v.func, ast.Attribute) and v.func.attr in ("split", "rsplit") and chain(v.func.value) and not v.keywords and 1 <= len(v.args) <= 2):
        return False
    sep = v.args[0]
    if not (isinstance(sep, ast.Constant) and isinstance(sep.value, str) and sep.value):
        return False
    return len(v.args) == 1 or (isinstance(v.args[1], ast.Constant) and isinstance(v.args[1].value, int))


@R.clause("C16.a", "escape(set_request_uri) is contained in {MalformedUrlError, IncompleteUrlError}")
def a(ctx):
    prog = ctx.prog
    # the escape analysis follows direct calls only: local lambdas / functools.partial / map(f, ..) in the region are
    # first applied at their uses (behaviour-preserving source rewrite, analysed as a program of its own)
    region = {prog.func(SET).module.name} | {prog.func(x).module.name for x in ("util.hostportsplit", "util.hostportjoin", "util.uri.quote_factory")}
    ov = callable_normal_form(prog, sorted(region))
    if ov:
        merged = dict(getattr(prog, "overrides", {}) or {})
        merged.update(ov)
        prog = Program(prog.root, overrides=merged)
        ctx.note("local callables used as values were applied at their uses before the escape analysis: %s" % sorted(ov))
        M = SetterModel(ctx, prog)
    else:
        M = _model(ctx)
    fi = prog.func(SET)
    for anchor in ("message.UndecidedRemote.__new__", "message.UndecidedRemote.from_pathless_uri", "util.hostportsplit", "util.hostportjoin"):
        prog.func(anchor)
    for c in ("error.MalformedUrlError", "error.IncompleteUrlError"):
        prog.cls(c)
    EA = EscapeAnalysis(prog, ext_raises=EXTRA_RAISES)
    proven = _int_label_lemma(ctx, M)
    for call in proven:
        EA.dead_nodes.add(id(call))
        ctx.note("lemma DIGIT-LABEL applied to `%s` reached from set_request_uri (premise re-checked on the summarised form: non-empty label of bounded length of a "
                 "digits-and-dots string; assumes int() is total on non-empty decimal strings of at most 4300 digits)" % stmt_text(call))
    try:
        escs = EA.escapes(fi)
    except RecursionError:
        # engine limitation: Resolver.infer does not terminate on `x = x.method()` re-bindings
        raise AnalysisError("C16.a: type inference of the escape analysis does not terminate on this tree")
    ctx.need(not EA.unresolved, "unresolved calls inside the escape region of set_request_uri: %s" % EA.unresolved[:4])
    unknown = sorted(n for n in EA.external_calls if n not in BENIGN_EXTERNALS and n not in EA.ext and n not in BUILTIN_EXC
                     and not n.startswith(("logging.", "self.log.", "log.")) and n.split(".")[-1] not in BUILTIN_EXC)
    ctx.need(not unknown, "external callees without a tabulated exception behaviour inside the escape region: %s" % unknown)
    ctx.floor("escape origins of set_request_uri (explicit and implicit raisers reached)", len(escs), 6)
    n_allowed = 0
    for e in sorted(escs, key=lambda e: (e.func, e.line, e.cls)):
        ctx.need(not e.cls.startswith("?"), "raise of a class the analysis cannot name: %r" % (e,))
        ofi = prog.funcs.get("aiocoap." + e.func)
        ctx.need(ofi is not None, "origin function %s of an escape is not in the program model" % e.func)
        node = _origin_node(ofi, e)
        if e.cls == "ValueError" and _total_star_unpack(node):
            ctx.note("`%s`: a starred unpacking of str.split(sep) cannot fail (at least one element)" % stmt_text(node))
            continue
        ok = _is_url_error(prog, e.cls)
        n_allowed += ok
        ctx.ob("an exception leaving set_request_uri is a documented URL error", ok, ofi, node if node is not None else ofi.node,
               detail="%s raised at `%s`%s" % (e.cls, e.text, (" reached via " + " > ".join(e.via)) if e.via else ""),
               construct=stmt_text(node) if node is not None else e.text)
    ctx.floor("documented URL error sites of set_request_uri", n_allowed, 5)
    ctx.extra["C16.a"] = {
        "implicit_raiser_sites": sorted(set(EA.implicit_sites)),
        "external_calls": dict(sorted(EA.external_calls.items())),
        "extra_raiser_table": EXTRA_RAISES,
        "lemmas": ["DIGIT-LABEL `%s`" % stmt_text(c) for c in proven],
        "resolved_by_unique_name": sorted(set(EA.res.by_unique_name)),
        "resolved_edges": EA.resolved_edges,
    }


# ---------------------------------------------------------------------------
# C16.b

REJECTIONS = (
    # key, what the URI lacks / has, class it must be rejected with
    ("fragment", "a URI with a fragment", "aiocoap.error.MalformedUrlError"),
    ("scheme", "a reference without a scheme", "aiocoap.error.IncompleteUrlError"),
    ("host", "a CoAP URI without a host", "aiocoap.error.MalformedUrlError"),
    ("username", "a URI with a user name", "aiocoap.error.MalformedUrlError"),
    ("password", "a URI with a password", "aiocoap.error.MalformedUrlError"),
)


def _store_label(target):
    return "self.remote" if target == "self.remote" else target.replace("self.opt.", "opt.")


def _is_field_store(target):
    return target == "self.remote" or target.startswith("self.opt.") or target.startswith("self.opt[")


@R.clause("C16.b", "rejection guards (fragment, scheme, host, user-info) dominate every option store; a non-CoAP scheme stores Proxy-Uri only; the port is read on every CoAP path")
def b(ctx):
    M = _model(ctx)
    fi, sp = M.fi, M.sp
    for o in M.outs:
        for ev in o.trace:
            for e in ([ev[1]] if ev[0] in ("cond", "eval") else [ev[2]] if ev[0] == "store" and ev[2] is not None else []):
                for n in ast.walk(e):
                    if isinstance(n, ast.Call) and chain(n.func) == "setattr" and n.args and (chain(n.args[0]) or "").startswith("self"):
                        raise AnalysisError("C16.b: set_request_uri stores options through setattr(): outside the rule's vocabulary")
    # acceptability of the URI: OK[key] holds when the URI does not have the defect
    OK = {"fragment": ("not", M.FRAG), "scheme": M.SCHEME, "host": M.HOST, "username": ("not", M.USER), "password": ("not", M.PW)}
    coap_only = ("host", "username", "password")

    def required(key):
        f = OK[key]
        return ("or", (("not", M.COAP), f)) if key in coap_only else f

    # (1) every store to an option / the remote happens only after the rejecting tests have passed
    sites = {}  # (id of the store statement, target) -> [node, target, {key: [ok, counterexample]}, arms]
    for o in M.outs:
        for i, target, val, node in o.stores():
            if not _is_field_store(target):
                continue
            rec = sites.setdefault((id(src_of(node)), target), [node, target, {}, set()])
            pre = M.conj(o, upto=i)
            arm = "coap" if sp.implies(pre, M.COAP) else ("other" if sp.implies(pre, ("not", M.COAP)) else None)
            rec[3].add(arm)
            for key, what, cls in REJECTIONS:
                if arm == "other" and key in coap_only:
                    continue
                want = OK[key] if arm == "coap" or key not in coap_only else required(key)
                cex = sp.counterexample(pre, want)
                r = rec[2].setdefault(key, [True, None])
                if cex is not None:
                    r[0] = False
                    r[1] = sp.show(cex)
    ctx.floor("option / remote store sites in set_request_uri", len(sites), 5)
    ctx.floor("store sites on the CoAP arm", len([1 for r in sites.values() if "coap" in r[3]]), 4)
    ctx.floor("store sites on the non-CoAP (proxy) arm", len([1 for r in sites.values() if "other" in r[3]]), 1)
    for node, target, res, arms in sites.values():
        label = _store_label(target)
        for key, what, cls in REJECTIONS:
            if key not in res:
                continue
            ok, cex = res[key]
            ctx.ob("store of %s happens only after %s was rejected" % (label, what), ok, fi, node,
                   detail=None if ok else "reachable with: %s" % cex)
        if target != "self.opt.proxy_uri":
            ctx.ob("store of %s happens only for a scheme in coap_schemes" % label, arms == {"coap"}, fi, node)
    # (2) each defect alone is rejected, with the documented class
    plain = M.plain()
    for key, what, cls in REJECTIONS:
        others = [required(k) for k in OK if k != key]
        only = ("and", tuple([("not", OK[key])] + others + ([M.COAP] if key in coap_only else [])))
        hit = 0
        for o in plain:
            c = M.conj(o)
            if not sp.sat(("and", (c, only))):
                continue
            hit += 1
            node = o.end[2] if o.end is not None and o.end[2] is not None else fi.node
            if o.normal:
                ctx.ob("%s is rejected" % what, False, fi, node, detail="set_request_uri returns normally on the path: %s" % o.describe(), construct="accepts %s" % what)
            else:
                got = o.end[1]
                ctx.ob("%s is rejected with %s" % (what, cls.split(".")[-1]), got is not None and ctx.prog.is_subclass(got, cls), fi, node, detail="raises %s" % got)
        ctx.need(hit > 0, "set_request_uri: no path for %s found" % what)
    # (3) what an accepted URI stores
    acc = [o for o in M.accepted()]
    n_coap = n_other = 0
    for o in acc:
        node = o.end[2] if o.end is not None and o.end[2] is not None else fi.node
        if "partial" in o.flags:
            ctx.ob("no exception handler of set_request_uri swallows the exception (invalid input is rejected, not accepted half-way)", False, fi, node,
                   detail="path: %s" % o.describe(), construct="handler completes normally")
            continue
        c = M.conj(o)
        cex = sp.counterexample(c, ("and", tuple(required(k) for k in OK)))
        ctx.ob("set_request_uri returns normally only for a URI with scheme, without fragment and (CoAP) with host and without user-info", cex is None, fi, node,
               detail=None if cex is None else "returns with: %s" % sp.show(cex), construct="normal return of set_request_uri")
        field_stores = [(i, t, v, n) for i, t, v, n in o.stores() if _is_field_store(t)]
        arm = M.arm(o)
        if arm is None:
            ctx.ob("what is stored depends on whether the scheme is a CoAP scheme", not field_stores, fi, field_stores[0][3] if field_stores else node,
                   detail="path: %s" % o.describe(), construct="stores independent of the scheme")
            continue
        if arm == "other":
            n_other += 1
            okp = len(field_stores) == 1 and field_stores[0][1] == "self.opt.proxy_uri" and isinstance(field_stores[0][2], ast.Name) and field_stores[0][2].id == M.uri \
                and getattr(field_stores[0][2], "_local", False)
            ctx.ob("a non-CoAP scheme stores Proxy-Uri (the complete URI) and nothing else", okp, fi, field_stores[0][3] if field_stores else node,
                   detail="stores: %s" % ["%s := %s" % (_store_label(t), txt(v, 60) if v is not None else "<deleted>") for _, t, v, _ in field_stores],
                   construct="non-CoAP arm stores")
            continue
        n_coap += 1
        reads_port = any(isinstance(n, ast.Attribute) and n.attr == "port" and isinstance(n.value, ast.Name) and n.value.id == P for e in o.exprs() for n in ast.walk(e))
        ctx.ob("the port component is evaluated (and thereby validated) on every normal path of the CoAP arm", reads_port, fi, node, detail="path: %s" % o.describe(), construct="%s.port" % P)
        ts = [t for _, t, _, _ in field_stores]
        ctx.ob("the remote is set on every normal path of the CoAP arm", "self.remote" in ts, fi, node, construct="self.remote = ...")
        for opt in ("uri_path", "uri_query"):
            ctx.ob("opt.%s is (re)set on every normal path of the CoAP arm" % opt, "self.opt.%s" % opt in ts, fi, node, construct="self.opt.%s = ..." % opt)
    ctx.floor("accepted CoAP paths of set_request_uri", n_coap, 1)
    ctx.floor("accepted non-CoAP paths of set_request_uri", n_other, 1)


# ---------------------------------------------------------------------------
# C16.c

# representative component values: degenerate, plain, empty segments in every position, reserved characters,
# valid / reserved / incomplete / non-UTF-8 escapes, '+' (not a space), ';' (no parameter splitting), non-ASCII text
PATH_SAMPLES = {
    "degenerate": ["", "/"],
    "plain": ["/a", "/a/b", "/a/b/c/d", "//", "//a", "///a", "/a/", "/a//", "/a//b", "/a/b/", "/;p", "/a;b/c;d", "/a&b/c=d", "/+/a+b", "/a:b@c", "/."],
    "escaped": ["/%41", "/%2F", "/a%2Fb/c", "/%2f%2F", "/a%20b/c%3Fd", "/%25", "/%C3%A9/x", "/é", "/%zz", "/%4", "/%", "/%E2%82%AC"],
    "invalid": ["/%FF", "/a/%C3", "/%C3%28/b", "/ok/%80"],
}
QUERY_SAMPLES = {
    "degenerate": [""],
    "plain": ["a", "a&b", "a=b&c=d", "&", "a&", "&a", "a&&b", "&&", "a;b", "a/b?c", "a+b", "a=b=c", "a:b@c"],
    "escaped": ["%26", "a%26b&c", "%3D=%3d", "a%20b", "%25", "%C3%A9&x", "é", "%zz", "%4", "%E2%82%AC=1"],
    "invalid": ["%FF", "a&%C3", "%C3%28&b", "ok&%80"],
}


def _spec_segments(comp, s):
    """RFC 7252 6.4 steps 8/9 on the component as urllib delivers it (raises UnicodeDecodeError for non-UTF-8 escapes)."""
    if comp == "path":
        raw = [] if s in ("", "/") else s.split("/")[1:]
    else:
        raw = [] if s == "" else s.split("&")
    return [_up.unquote(x, errors="strict") for x in raw]


def _component_closed(M, e, comp, var):
    """e with P__.<comp> replaced by the local `var`; None when e reads anything else of the parsed URL or any other local."""
    def fn(n):
        if M.comp(n) == comp:
            return local_name(var)
        return None
    r = rewrite(e, fn)
    for n in ast.walk(r):
        if isinstance(n, ast.Name) and n.id == P:
            return None
    return r


def _applies(M, o, comp, var, value):
    """Is the outcome's path condition compatible with the component having `value`?  Conditions that do not
    depend on the component alone are left open."""
    for e, pol in o.conds():
        ce = _component_closed(M, e, comp, var)
        if ce is None or not contains_name(ce, var):
            continue
        try:
            v = M.ev.ev(ce, M.fi.module, {var: value})
        except (NormError, EvalRaised):
            continue
        if bool(v) != pol:
            return False
    return True


def _run_value(M, ce, var, value):
    """('ok', list) / ('raise', exception class name) / ('?', reason)"""
    try:
        v = M.ev.ev(ce, M.fi.module, {var: value})
    except EvalRaised as ex:
        return ("raise", type(ex.exc).__name__)
    except NormError as ex:
        return ("?", str(ex))
    if isinstance(v, (list, tuple)):
        return ("ok", list(v))
    return ("?", "value of type %s" % type(v).__name__)


def _factory_params(fi):
    a = fi.node.args
    return [x.arg for x in a.posonlyargs + a.args], [x.arg for x in a.kwonlyargs]


def _quote_functions(ctx):
    """{name in message.py: (safe set string, defining statement, {further factory parameter: argument expr})} for
    module constants built by quote_factory (arguments bound to the factory's parameters by position or keyword)."""
    mod = ctx.prog.module("message")
    out = {}
    pos, kwonly = _factory_params(ctx.prog.func("util.uri.quote_factory"))
    for st in mod.tree.body:
        tgt = st.targets[0] if isinstance(st, ast.Assign) and len(st.targets) == 1 else (st.target if isinstance(st, ast.AnnAssign) else None)
        val = getattr(st, "value", None)
        if isinstance(tgt, ast.Name) and isinstance(val, ast.Call):
            q = ctx.prog.resolve_in_module(mod, chain(val.func) or "?")
            if q == "aiocoap.util.uri.quote_factory" and pos:
                if any(isinstance(a, ast.Starred) for a in val.args) or any(k.arg is None for k in val.keywords) or len(val.args) > len(pos):
                    continue
                bound = dict(zip(pos, val.args))
                ok = True
                for k in val.keywords:
                    if k.arg in bound or k.arg not in pos + kwonly:
                        ok = False
                    bound[k.arg] = k.value
                if ok and pos[0] in bound:
                    arg = bound.pop(pos[0])
                    out[tgt.id] = (module_eval(ctx.prog, mod, arg), st, bound)
    return mod, out


def _utf8_cover():
    """Strings whose UTF-8 encodings contain every byte value that can occur in UTF-8, each next to different neighbours."""
    two = "".join(chr(i) for i in range(0x80, 0x800))
    three = "ࠀ࿿က€퟿￿" + "".join(chr(0x1000 * k + 0x123) for k in range(1, 16) if not 0xD800 <= 0x1000 * k + 0x123 <= 0xDFFF)
    four = "\U00010000\U0001f600\U0003ffff\U00040000\U000fffff\U00100000\U0010ffff"
    ascii_all = "".join(chr(i) for i in range(0x80))
    return ["", "a", "a/b?c&d=e#f%g", ascii_all, two, three + four, ascii_all[::-1] + "é/€&\U0001f600"]


def _spec_quote(safe, s):
    keep = {ord(c) for c in safe}
    return "".join(chr(b) if b in keep else "%%%02X" % b for b in s.encode("utf8"))


QUOTE_WHAT = "quote_factory(S) keeps exactly the bytes of S and percent-encodes every other UTF-8 byte"


def _quote_safes(qf):
    return sorted({v[0] for v in qf.values() if isinstance(v[0], str)}) + ["", "aZ%/", "".join(chr(i) for i in range(0x21, 0x7F))]


_MUTATING_METHODS = {"pop", "append", "extend", "remove", "add", "update", "setdefault", "insert", "clear", "popitem", "discard", "popleft", "appendleft", "sort", "reverse",
                     "extendleft", "rotate", "difference_update", "intersection_update", "symmetric_difference_update", "__setitem__", "__delitem__", "move_to_end"}


def _state_sites(fnode):
    """Where a function (nested functions included) can keep something from one call to the next: it changes, in
    place, an object that is not one of the locals of the very function doing it (a variable of the enclosing
    function, a module-level object), a nested function has default arguments (evaluated once), or a nested function
    re-binds a variable of the enclosing function.  Building up a local (`pieces.append(..)`, `table[i] = ..` in the
    function that created `table`) is not state.  -> list of descriptions (empty: none)."""
    out = []

    def own_locals(fn):
        a = fn.args
        names = {x.arg for x in a.posonlyargs + a.args + a.kwonlyargs}
        for x in walk_no_nested(fn):
            if isinstance(x, ast.Name) and isinstance(x.ctx, ast.Store):
                names.add(x.id)
        return names

    def root_of(n):
        while isinstance(n, (ast.Attribute, ast.Subscript)):
            n = n.value
        return n

    def visit(fn, nested):
        if isinstance(fn, ast.Lambda):
            if nested and (fn.args.defaults or any(d is not None for d in fn.args.kw_defaults)):
                out.append("has a lambda with default arguments")
            locs = {x.arg for x in fn.args.posonlyargs + fn.args.args + fn.args.kwonlyargs}
        else:
            if nested and (fn.args.defaults or any(d is not None for d in fn.args.kw_defaults)):
                out.append("has a nested function with default arguments (%s)" % fn.name)
            locs = own_locals(fn)
        params_ = {x.arg for x in fn.args.posonlyargs + fn.args.args + fn.args.kwonlyargs}
        for x in walk_no_nested(fn):
            if x is fn:
                continue
            if isinstance(x, (ast.FunctionDef, ast.AsyncFunctionDef, ast.Lambda)):
                visit(x, True)
                continue
            if isinstance(x, ast.Nonlocal) or isinstance(x, ast.Global):
                out.append("re-binds %s of an enclosing scope" % ", ".join(x.names))
            tgt = None
            if isinstance(x, ast.Call) and isinstance(x.func, ast.Attribute) and x.func.attr in _MUTATING_METHODS:
                tgt = x.func.value
            elif isinstance(x, (ast.Subscript, ast.Attribute)) and isinstance(x.ctx, (ast.Store, ast.Del)):
                tgt = x.value
            elif isinstance(x, ast.NamedExpr):
                out.append("uses an assignment expression (decided by interpretation for its vocabulary, not for state)")
            if tgt is not None:
                r = root_of(tgt)
                if not (isinstance(r, ast.Name) and r.id in locs and (r.id not in params_ or not nested)) and not isinstance(r, (ast.Constant, ast.JoinedStr, ast.Call, ast.List, ast.Dict, ast.Set, ast.ListComp)):
                    out.append("changes `%s` in place" % txt(tgt, 40))
    visit(fnode, False)
    return out


def _quote_factory_shape(ctx):
    """How the quote functions are decided.  'symbolic': the factory takes the safe set and nothing else and the function
    it returns neither stores anything nor handles exceptions -- it is a function of (closure computed from the safe set,
    input), decided on its summarised form.  'interpreted': anything with state or further parameters (a memo, a lazily
    filled table, an optional cache argument) -- decided by running factory and quote function on the checker's own
    interpreter, where a history of calls has a meaning."""
    got = getattr(ctx, "_c16_qshape", None)
    if got is not None and got[0] is ctx.prog:
        return got[1]
    prog = ctx.prog
    fi = prog.func("util.uri.quote_factory")
    pos, kwonly = _factory_params(fi)
    ctx.need(len(pos) >= 1, "quote_factory signature changed")
    shape = {"fi": fi, "S": pos[0], "kind": "symbolic", "why": None}
    state = _state_sites(fi.node)
    if len(pos) + len(kwonly) != 1:
        shape["kind"], shape["why"] = "interpreted", "quote_factory takes further parameters (%s)" % ", ".join(pos[1:] + kwonly)
    elif state:
        shape["kind"], shape["why"] = "interpreted", "quote_factory or the function it returns %s" % state[0]
    else:
        ex = Exec(prog)
        outs = [o for o in ex.run(fi) if o.normal]
        shape["ex"], shape["outs"] = ex, outs
        for o in outs:
            rv = o.end[1] if o.end is not None and o.end[0] == "return" else None
            clo = getattr(rv, "_closure", None) if isinstance(rv, ast.Name) else None
            if clo is not None:
                inner = ex.run(clo.fi, binding={k: v for k, v in clo.env.items() if isinstance(v, Closure)})
                if any(i.exceptional or i.stores() or "partial" in i.flags for i in inner):
                    shape["kind"], shape["why"] = "interpreted", "the quote function %s stores values or handles exceptions" % clo.fi.name
    ctx._c16_qshape = (prog, shape)
    return shape


def _interp_call(what, f, *args):
    """('ok', value) / ('raise', exception); a NormError (outside the interpreter's vocabulary) is a refusal"""
    try:
        return ("ok", f(*args))
    except EvalRaised as ex_:
        return ("raise", ex_.exc)
    except NormError as ex_:
        raise AnalysisError("C16: %s is outside the interpreter's vocabulary: %s" % (what, ex_))


def _diff_detail(safe, s, got, want):
    k = next((i for i, (x, y) in enumerate(zip(str(got), want)) if x != y), min(len(str(got)), len(want)))
    return "for safe set %r the result differs from the specification at offset %d of a %d-byte input (got ...%r, expected ...%r)" % (
        safe[:20], k, len(s.encode("utf8")), str(got)[max(0, k - 3):k + 6], want[max(0, k - 3):k + 6])


def _check_quote_factory_interpreted(ctx, qf, shape):
    """Every quote function on its own: a fresh interpreter per safe set (so nothing is shared), the products of
    message.py built from their own call expressions (further arguments as written there), synthetic safe sets with the
    factory's defaults; every sample is quoted twice, so a result remembered by the function itself is seen as well."""
    prog = ctx.prog
    fi = shape["fi"]
    mod = prog.module("message")
    samples = _utf8_cover()
    in_use = {}
    for name, v in qf.items():
        if isinstance(v[0], str):
            in_use.setdefault(v[0], v[1].value)
    bad = None
    missing = []
    construct = None
    n = 0
    for safe in _quote_safes(qf):
        I = Interp(prog)
        if safe in in_use:
            r = _interp_call("the construction of a quote function", lambda: I.ev.ev(in_use[safe], mod, {}))
        else:
            factory = I.function(fi)
            r = _interp_call("quote_factory", factory, safe)
        if r[0] == "raise":
            if safe in in_use:
                missing.append((safe, r[1]))
            elif not any(ord(c) >= 128 for c in safe) and bad is None:
                bad = "quote_factory(%r) raises %r" % (safe[:20], r[1])
            continue
        q = r[1]
        ctx.need(callable(q), "quote_factory does not return a callable")
        if construct is None:
            construct = "quote_factory.<locals>.%s" % q.name if isinstance(q, InterpFunction) else "quote_factory: returned callable"
        for rnd in (0, 1):
            for s in samples:
                r = _interp_call("the quote function", q, s)
                n += 1
                got = r[1] if r[0] == "ok" else "<raises %r>" % (r[1],)
                want = _spec_quote(safe, s)
                if got != want and bad is None:
                    bad = _diff_detail(safe, s, got, want) + (" when the same input is quoted a second time" if rnd else "")
    ctx.ob(QUOTE_WHAT, bad is None, fi, fi.node, detail=bad or "interpreted (%s): %d calls covering every UTF-8 byte value for %d safe sets" % (shape["why"], n, len(_quote_safes(qf))),
           construct=construct or "quote_factory: returned callable")
    ctx.ob("quote_factory returns a quote function for the safe sets in use", not missing, fi, fi.node, detail=("for safe set %r: raises %r" % (missing[0][0][:30], missing[0][1])) if missing else None,
           construct="quote_factory: accepts the safe sets in use")


def _check_quote_factory(ctx, qf):
    """quote_factory(S) returns f with f(s) = every UTF-8 byte of s kept iff it is in {ord(c) for c in S}, else %XX.
    Decided by evaluating the summarised nested function on strings covering every UTF-8 byte value, for the
    safe sets actually in use and three synthetic ones."""
    prog = ctx.prog
    shape = _quote_factory_shape(ctx)
    if shape["kind"] == "interpreted":
        return _check_quote_factory_interpreted(ctx, qf, shape)
    fi = shape["fi"]
    S = shape["S"]
    ex = shape["ex"]
    ev = Evaluator(prog)
    outs = shape["outs"]
    ctx.need(len(outs) >= 1, "quote_factory never returns")
    what = QUOTE_WHAT
    safes = _quote_safes(qf)
    samples = _utf8_cover()
    covered = {safe: False for safe in safes}
    for o in outs:
        rv = o.end[1] if o.end is not None and o.end[0] == "return" else None
        ctx.need(rv is not None, "quote_factory returns nothing on some path")
        clo = getattr(rv, "_closure", None) if isinstance(rv, ast.Name) else None
        cenv_exprs = {}
        if clo is not None:
            # a nested function: its outcomes as one expression (several returns -> a tree of conditional expressions)
            q = clo.fi
            qp = params(q)
            ctx.need(len(qp) == 1 and not q.node.args.kwonlyargs and not q.node.args.defaults, "quote_factory's nested function signature changed")
            for d_ in q.node.decorator_list:
                # memoisation does not change the function computed (the key is the argument, the closure is fixed)
                dn = qual_name(prog, fi.module, d_.func if isinstance(d_, ast.Call) else d_)
                ctx.need(dn in ("functools.lru_cache", "functools.cache"), "quote_factory's nested function is decorated with something other than a functools cache: %s" % txt(d_, 60))
            construct = "quote_factory.<locals>.%s" % q.name
            qnode, qparam, cenv_exprs = q.node, qp[0], clo.env
            inner = ex.run(q, binding={k: v for k, v in clo.env.items() if isinstance(v, Closure)})
            if any(i.exceptional or i.stores() or "partial" in i.flags for i in inner):
                raise AnalysisError("C16.c: a quote function with state reached the symbolic decision (it is decided by interpretation)")
            items = []
            for i in inner:
                if i.end is not None and i.end[0] == "raise":
                    leaf = raise_leaf(i.end[1] or "?")
                else:
                    leaf = i.end[1] if i.end is not None and i.end[0] == "return" and i.end[1] is not None else ast.Constant(value=None)
                items.append((i.conds(), leaf))
            V = tree_of(items)
            ctx.need(V is not None, "quote_factory's nested function has no decision-tree form")
        elif isinstance(rv, ast.Lambda):
            # a lambda: its body is already closed over the factory's parameter (the factory's locals were substituted)
            la = rv.args
            ctx.need(len(la.args) == 1 and not (la.posonlyargs or la.kwonlyargs or la.defaults or la.vararg or la.kwarg), "quote_factory returns a lambda of unexpected signature")
            qnode, qparam, V, construct = src_of(rv), la.args[0].arg, rv.body, "quote_factory.<lambda>"
        else:
            # any other callable value (functools.partial(f, table), a module-level function, ...): what it returns when
            # applied to one argument, with package helpers that are not anchors executed in place
            qparam = "__input"
            fr = Frame(fi, 0, frozenset({fi.qn}), ex._locals_of(fi))
            app = ast.Call(func=rv, args=[local_name(qparam)], keywords=[])
            V = ex.clone(ex._simplify_call(app, fr), {}, fr)
            qnode, construct = src_of(o.end[2]) if o.end[2] is not None else fi.node, "quote_factory: returned callable"
        bad = None
        needed = free_names(V)
        raiser = lambda cls: (_ for _ in ()).throw(RuntimeError("raises %s" % cls))
        mine = []
        for safe in safes:
            # does this outcome of the factory apply to the safe set?  (conditions the evaluator cannot decide stay open)
            applies = True
            for ce, pol in o.conds():
                try:
                    if bool(ev.ev(ce, fi.module, {S: safe})) != pol:
                        applies = False
                        break
                except (NormError, EvalRaised):
                    pass
            if applies:
                mine.append(safe)
                covered[safe] = True
        for safe in mine:
            cenv = {}
            try:
                for k, v in cenv_exprs.items():
                    # only what the quote function reads: other locals of the factory (loop variables, temporaries of
                    # the table construction) are dead once it returns
                    if isinstance(v, ast.AST) and k != S and k in needed:
                        cenv[k] = ev.ev(v, fi.module, {S: safe})
            except EvalRaised as ex_:
                if any(ord(c) >= 128 for c in safe):
                    continue
                bad = "evaluating the closure for safe set %r raises %r" % (safe, ex_.exc)
                break
            except NormError as ex_:
                raise AnalysisError("C16.c: quote_factory: a closure variable is outside the evaluator's vocabulary: %s" % ex_)
            cenv[S] = safe
            cenv[RAISE] = raiser
            for s in samples:
                env = dict(cenv)
                env[qparam] = s
                try:
                    got = ev.ev(V, fi.module, env)
                except EvalRaised as ex_:
                    got = "<raises %r>" % (ex_.exc,)
                except NormError as ex_:
                    raise AnalysisError("C16.c: the quote function's result `%s` is outside the evaluator's vocabulary: %s" % (txt(V, 100), ex_))
                want = _spec_quote(safe, s)
                if got != want:
                    k = next((i for i, (x, y) in enumerate(zip(str(got), want)) if x != y), min(len(str(got)), len(want)))
                    bad = "for safe set %r the result differs from the specification at offset %d of a %d-byte input (got ...%r, expected ...%r)" % (
                        safe[:20], k, len(s.encode("utf8")), str(got)[max(0, k - 3):k + 6], want[max(0, k - 3):k + 6])
                    break
            if bad:
                break
        ctx.ob(what, bad is None, fi, qnode, detail=bad or "evaluated on %d strings covering every UTF-8 byte value for %d safe sets" % (len(samples), len(safes)), construct=construct)
    missing = [safe for safe in safes if not covered[safe] and any(v[0] == safe for v in qf.values())]
    ctx.ob("quote_factory returns a quote function for the safe sets in use", not missing, fi, fi.node, detail=("no normal path for safe set %r" % missing[0][:30]) if missing else None,
           construct="quote_factory: accepts the safe sets in use")


def _leaf_abstract(e, is_const, known_callee, leaves=None):
    """Replace the maximal sub-expressions the evaluator has no value for -- name / attribute / subscript chains that
    are neither constants, nor callees, nor comprehension variables, and calls of functions outside its vocabulary --
    by placeholder locals.  -> (expression, {placeholder: original expr}); `leaves` may be a table {placeholder:
    (dump, expr)} shared by several expressions, so that the same sub-expression gets the same placeholder in all."""
    leaves = {} if leaves is None else leaves

    def leaf(n):
        k = dump(n)
        for name, (kk, _) in leaves.items():
            if kk == k:
                return local_name(name)
        name = "__leaf%d" % len(leaves)
        leaves[name] = (k, n)
        return local_name(name)

    def root_of(n):
        while isinstance(n, (ast.Attribute, ast.Subscript)):
            n = n.value
        return n

    def targets(t):
        return {x.id for x in ast.walk(t) if isinstance(x, ast.Name)}

    def rec(n, bound):
        if isinstance(n, (ast.Name, ast.Attribute, ast.Subscript)) and isinstance(root_of(n), ast.Name):
            r = root_of(n)
            if r.id in bound or is_const(n) or (isinstance(n, ast.Name) and known_callee(n)):
                return n
            return leaf(n)
        if isinstance(n, ast.Call):
            f = n.func
            if isinstance(f, ast.Name) and f.id not in bound and not known_callee(f):
                return leaf(n)
            if isinstance(f, ast.Attribute):
                f2 = ast.Attribute(value=rec(f.value, bound), attr=f.attr, ctx=ast.Load())
            elif isinstance(f, ast.Name):
                f2 = f
            else:
                f2 = rec(f, bound)
            return ast.Call(func=f2, args=[rec(a, bound) for a in n.args], keywords=[ast.keyword(arg=k.arg, value=rec(k.value, bound)) for k in n.keywords])
        if isinstance(n, (ast.ListComp, ast.SetComp, ast.GeneratorExp, ast.DictComp)):
            b = set(bound)
            gens = []
            for g in n.generators:
                it = rec(g.iter, b)
                b |= targets(g.target)
                gens.append(ast.comprehension(target=g.target, iter=it, ifs=[rec(c, b) for c in g.ifs], is_async=g.is_async))
            if isinstance(n, ast.DictComp):
                return ast.DictComp(key=rec(n.key, b), value=rec(n.value, b), generators=gens)
            return type(n)(elt=rec(n.elt, b), generators=gens)
        if isinstance(n, ast.Lambda):
            a = n.args
            b = set(bound) | {x.arg for x in a.posonlyargs + a.args + a.kwonlyargs}
            return ast.Lambda(args=a, body=rec(n.body, b))
        if isinstance(n, ast.AST) and not isinstance(n, (ast.expr_context, ast.operator, ast.unaryop, ast.boolop, ast.cmpop, ast.Constant)):
            kw = {}
            for f, v in ast.iter_fields(n):
                if isinstance(v, list):
                    kw[f] = [rec(x, bound) if isinstance(x, ast.AST) else x for x in v]
                elif isinstance(v, ast.AST):
                    kw[f] = rec(v, bound)
                else:
                    kw[f] = v
            return type(n)(**kw)
        return n

    return rec(e, set()), {k: v[1] for k, v in leaves.items()}


SEGMENT_LISTS = [[], ["a"], ["a", "b"], ["", "a"], ["a", ""], ["", ""], ["x", "y", "z", "", "u", "v", "w"],
                 [""], ["/"], ["&"], ["a/b", "?&=#", "%41", "\u00e9 x", "+;"], ["", "", ""]]


class _Composition:
    """The path (or query) component get_request_uri passes to urlunparse, as a function of the segment list.

    One *case* per outcome of the summarised function: the expression in the component's slot and the path condition.
    Both are abstracted over their leaves (the maximal sub-expressions the evaluator has no value for); the leaves of
    the slots are the *sources of segments* -- every one of them stands for the same list -- and a condition of the
    path is evaluated when it is closed over the sources of its own case (for a case with a constant slot, e.g. the
    '/' of an empty path: over the sources of the component), so `"".join(parts) or "/"`, `J if parts else "/"`,
    `if not segments: path = "/"` with an early assignment, ... are the same function.  Conditions about anything
    else are left open (the case applies for every list)."""

    def __init__(self, ctx, ev, gfi, qf, comp):
        self.ctx, self.ev, self.gfi, self.qf, self.comp = ctx, ev, gfi, qf, comp
        self.table = {}  # placeholder -> (dump, expr), shared by all expressions of the component
        self.cases = []
        # two readings of the quote functions: tagging (which function quotes which segment, how the quoted segments are
        # arranged) and the specified quoting itself (what text results: anything done to the joined text is visible)
        self.env0 = {"tag": {name: (lambda s, _n=name: "\x02%s\x03%s\x04" % (_n, s)) for name in qf},
                     "real": {name: (lambda s, _safe=v[0]: _spec_quote(_safe, s)) for name, v in qf.items() if isinstance(v[0], str)}}
        self._cache = {}

    def _abstract(self, e):
        ae, _ = _leaf_abstract(e, lambda n: self.ev.try_ev(n, self.gfi.module, {}, default=_NOVAL) is not _NOVAL, lambda f: f.id in self.qf or f.id in EVAL_BUILTINS, self.table)
        used = {n.id for n in ast.walk(ae) if isinstance(n, ast.Name) and n.id in self.table}
        return ae, used

    def add(self, o, slot, node):
        ae, used = self._abstract(slot)
        conds = []
        for e, pol in o.conds():
            ce, cused = self._abstract(e)
            if cused:
                conds.append((ce, pol, cused))
        self.cases.append({"o": o, "slot": slot, "aslot": ae, "leaves": used, "conds": conds, "node": node, "results": {}, "real": {}})

    def _eval(self, ae, xs, mode="tag"):
        d = getattr(ae, "_dump", None)
        if d is None:
            d = dump(ae)
            try:
                ae._dump = d
            except AttributeError:
                pass
        k = (d, tuple(xs), mode)
        if k not in self._cache:
            env = dict(self.env0[mode])
            for leaf in self.table:  # every source of segments stands for the same list
                env[leaf] = tuple(xs)
            try:
                self._cache[k] = ("ok", self.ev.ev(ae, self.gfi.module, env))
            except EvalRaised as ex:
                self._cache[k] = ("raise", ex.exc)
            except NormError as ex:
                self._cache[k] = ("?", str(ex))
        return self._cache[k]

    def run(self):
        ctx, comp = self.ctx, self.comp
        sources = set()
        for c in self.cases:
            sources |= c["leaves"]
        ctx.need(len(sources) >= 1, "get_request_uri: the composed %s does not depend on any segment list: `%s`" % (comp, txt(self.cases[0]["slot"], 100)))
        for c in self.cases:
            scope = c["leaves"] or sources
            c["decided"] = [(ce, pol) for ce, pol, used in c["conds"] if used <= scope]
            # a constant component is right for some segment lists only (the '/' of an empty path): the rule must be
            # able to tell for which, i.e. some condition of its path has to be about the segments
            ctx.need(bool(c["leaves"]) or bool(c["decided"]), "get_request_uri: constant %s component `%s` under conditions the rule cannot relate to the segment list (%s)" % (comp, txt(c["slot"], 60), c["o"].describe()[:300]))
        for xs in SEGMENT_LISTS:
            hit = 0
            for c in self.cases:
                applies = True
                for ce, pol in c["decided"]:
                    r = self._eval(ce, xs, "real")  # (a condition on quoted text sees the text, not the tags)
                    if r[0] == "ok" and bool(r[1]) != pol:
                        applies = False
                        break
                if not applies:
                    continue
                hit += 1
                r = self._eval(c["aslot"], xs)
                if r[0] == "?":
                    raise AnalysisError("C16.c: get_request_uri: composed component `%s` is outside the evaluator's vocabulary: %s" % (txt(c["slot"], 100), r[1]))
                c["results"][tuple(xs)] = r[1] if r[0] == "ok" else "<raises %r>" % (r[1],)
                r = self._eval(c["aslot"], xs, "real")
                c["real"][tuple(xs)] = r[1] if r[0] == "ok" else "<%s %r>" % (r[0], r[1])
            ctx.need(hit > 0, "get_request_uri: no path of the function composes the %s of the segments %r" % (comp, xs))
        return self.cases


def _tags(v):
    out = []
    if isinstance(v, str):
        i = v.find("\x02")
        while i >= 0:
            j = v.find("\x03", i)
            if j < 0:
                break
            out.append(v[i + 1:j])
            i = v.find("\x02", j)
    return out


@R.clause("C16.c", "separators are never in a safe set; split and join separators of set_request_uri / get_request_uri agree")
def c(ctx):
    mod, qf = _quote_functions(ctx)
    ctx.floor("quote functions built by quote_factory in message.py", len(qf), 2)
    _check_quote_factory(ctx, qf)
    # --- reader: the stored segment lists as functions of the component
    M = _model(ctx)
    sfi = M.fi
    coap = [o for o in M.accepted() if "partial" not in o.flags and M.arm(o) == "coap"]
    ctx.floor("accepted CoAP paths of set_request_uri", len(coap), 1)
    WHAT = {
        "path": {
            "degenerate": "no Uri-Path option is produced exactly when the path is empty or a single '/'",
            "plain": "the path component is split on '/' and exactly the one leading empty element is dropped (empty segments elsewhere are kept)",
            "escaped": "every path segment is percent-decoded after splitting (reserved and incomplete escapes included)",
            "invalid": "path segments are decoded with errors='strict' (non-UTF-8 escapes raise)",
        },
        "query": {
            "degenerate": "no Uri-Query option is produced exactly when the query is empty",
            "plain": "the query component is split on '&' (empty items are kept)",
            "escaped": "every query item is percent-decoded after splitting (reserved and incomplete escapes included)",
            "invalid": "query items are decoded with errors='strict' (non-UTF-8 escapes raise)",
        },
    }
    for comp, opt, samples in (("path", "uri_path", PATH_SAMPLES), ("query", "uri_query", QUERY_SAMPLES)):
        var = "__component"
        sites = {}
        for o in coap:
            st = o.last_store("self.opt.%s" % opt)
            if st is None:
                continue  # reported by C16.b
            i, val, node = st
            ctx.need(val is not None, "set_request_uri deletes opt.%s" % opt)
            ce = _component_closed(M, val, comp, var)
            ctx.need(ce is not None, "set_request_uri: value stored to opt.%s reads other parts of the parsed URL: `%s`" % (opt, txt(val, 90)))
            sites.setdefault(id(src_of(node)), [node, []])[1].append((o, ce, val))
        ctx.floor("stores of opt.%s in set_request_uri" % opt, len(sites), 1)
        results = {cat: [] for cat in samples}  # cat -> [(node, sample, got, want)] failures
        covered = {cat: 0 for cat in samples}
        first_node = next(iter(sites.values()))[0]
        for node, items in sites.values():
            for o, ce, val in items:
                for cat, ss in samples.items():
                    for s in ss:
                        if not _applies(M, o, comp, var, s):
                            continue
                        covered[cat] += 1
                        got = _run_value(M, ce, var, s)
                        ctx.need(got[0] != "?", "set_request_uri: value stored to opt.%s is outside the evaluator's vocabulary (%s): `%s`" % (opt, got[1], txt(val, 90)))
                        try:
                            want = ("ok", _spec_segments(comp, s))
                        except UnicodeDecodeError:
                            want = ("raise", "UnicodeDecodeError")
                        if got != want:
                            results[cat].append((node, s, got, want))
        for cat in samples:
            ctx.need(covered[cat] > 0, "set_request_uri: no accepted path for a %s %s component" % (cat, comp))
            bad = results[cat]
            ctx.ob(WHAT[comp][cat], not bad, sfi, bad[0][0] if bad else first_node,
                   detail=("%s = %r gives %r, expected %r" % (comp, bad[0][1], bad[0][2][1], bad[0][3][1])) if bad else "%d evaluation(s)" % covered[cat],
                   construct="opt.%s from %s: %s" % (opt, comp, cat))
    # --- writer: per component, the composed text as a function of the segment list, over all outcomes that
    # end in a composition of the URI from its components
    gfi = ctx.prog.func(GET)
    gex = Exec(ctx.prog)
    gev = Evaluator(ctx.prog)
    gouts = gex.run(gfi)
    comps = {"path": _Composition(ctx, gev, gfi, qf, "path"), "query": _Composition(ctx, gev, gfi, qf, "query")}
    for o in gouts:
        if o.end is None or o.end[0] != "return" or not isinstance(o.end[1], ast.Call):
            continue
        slots = _unparse_slots(ctx, gfi, o.end[1])
        if slots is None:
            continue
        node = src_of(o.end[2]) if o.end[2] is not None else gfi.node
        for comp in comps:
            comps[comp].add(o, slots[comp], node)
    nsites = 0
    for comp, rfc_sep, others in (("path", "/", "?#%"), ("query", "&", "#%")):
        C = comps[comp]
        if not C.cases:
            continue
        nsites += 1
        cases = C.run()
        bad = None
        qnames = []
        for cs in cases:
            cs["tags"] = sorted({t for v in cs["results"].values() for t in _tags(v)})
            for t in cs["tags"]:
                if t not in qnames:
                    qnames.append(t)
        # (same requirement as before the cases were introduced: when no segment reaches the URI through a product of
        # quote_factory the composition is outside the rule's vocabulary)
        ctx.need(len(qnames) >= 1 and all(q in qf and isinstance(qf[q][0], str) for q in qnames),
                 "get_request_uri: %s segments are not quoted by a quote_factory product of message.py with a constant safe set: `%s`" % (comp, txt(cases[0]["slot"], 90)))
        for cs in cases:
            # the function this case quotes with; a case that shows none (constant component, segments passed unquoted) is
            # measured against the component's
            qname = cs["tags"][0] if cs["tags"] else qnames[0]
            tag = lambda s: "\x02%s\x03%s\x04" % (qname, s)
            real = lambda s: _spec_quote(qf[qname][0], s)
            for xs in SEGMENT_LISTS:
                if tuple(xs) not in cs["results"]:
                    continue
                for got, q in ((cs["results"][tuple(xs)], tag), (cs["real"][tuple(xs)], real)):
                    if comp == "path":
                        wants = ["".join("/" + q(x) for x in xs)] + (["/"] if not xs else [])  # an empty path may be written '' or '/'
                    else:
                        wants = ["&".join(q(x) for x in xs)]
                    if got not in wants and bad is None:
                        bad = (cs, "segments %r compose to %r, expected %r" % (xs, _untag(got), _untag(wants[-1])))
        shown = bad[0] if bad else cases[0]
        ctx.ob("%s segments are each quoted and joined with %r%s (the separator the reader splits on)" % (comp, rfc_sep, ", every segment preceded by it" if comp == "path" else ""),
               bad is None, gfi, shown["node"], detail="`%s`%s" % (txt(shown["slot"], 100), (": " + bad[1]) if bad else ""), construct="get_request_uri: %s composition" % comp)
        for qname in qnames:
            safe = qf[qname][0]
            where = "safe set of %s (quoting %s segments)" % (qname, comp)
            ctx.ob("the %s separator %r is not in the %s" % (comp, rfc_sep, where), rfc_sep not in safe, gfi, qf[qname][1], detail="safe = %r" % safe,
                   construct="%s: %r safe" % (qname, rfc_sep))
            for ch in others:
                ctx.ob("%r is not in the %s" % (ch, where), ch not in safe, gfi, qf[qname][1], detail="safe = %r" % safe, construct="%s: %r safe" % (qname, ch))
            ctx.ob("the %s is ASCII only" % where, all(ord(ch) < 128 for ch in safe), gfi, qf[qname][1], construct="%s: non-ASCII safe" % qname)
    ctx.floor("composition sites in get_request_uri", nsites, 2)
    ctx.extra["C16.c"] = {"safe_sets": {k: v[0] for k, v in qf.items()}, "helpers_executed_in_place": sorted(set(M.ex.inlined) | set(gex.inlined))}


def _unparse_slots(ctx, gfi, call):
    """{'path': expr, 'query': expr} when `call` composes a URI from its components: urlunparse / urlunsplit of a
    literal sequence, or ParseResult / SplitResult(...).geturl(); None for anything else."""
    prog = ctx.prog
    nm = qual_name(prog, gfi.module, call)
    if nm in ("urllib.parse.urlunparse", "urllib.parse.urlunsplit") and len(call.args) == 1 and not call.keywords:
        t = call.args[0]
        if isinstance(t, ast.Call) and qual_name(prog, gfi.module, t) in ("urllib.parse.ParseResult", "urllib.parse.SplitResult"):
            return _result_slots(ctx, gfi, t)
        want = 6 if nm.endswith("urlunparse") else 5
        ctx.need(isinstance(t, (ast.Tuple, ast.List)) and len(t.elts) == want and not any(isinstance(x, ast.Starred) for x in t.elts),
                 "get_request_uri: %s is not called with a literal sequence of %d components" % (nm.split(".")[-1], want))
        return {"scheme": t.elts[0], "netloc": t.elts[1], "path": t.elts[2], "query": t.elts[4 if want == 6 else 3]}
    if isinstance(call.func, ast.Attribute) and call.func.attr == "geturl" and not call.args and not call.keywords and isinstance(call.func.value, ast.Call):
        return _result_slots(ctx, gfi, call.func.value)
    return None


def _result_slots(ctx, gfi, t):
    nm = qual_name(ctx.prog, gfi.module, t)
    if nm not in ("urllib.parse.ParseResult", "urllib.parse.SplitResult"):
        return None
    fields = ["scheme", "netloc", "path", "params", "query", "fragment"] if nm.endswith("ParseResult") else ["scheme", "netloc", "path", "query", "fragment"]
    ctx.need(not any(isinstance(x, ast.Starred) for x in t.args) and not any(k.arg is None for k in t.keywords), "get_request_uri: %s(..) with star arguments" % nm.split(".")[-1])
    vals = dict(zip(fields, t.args))
    for k in t.keywords:
        vals[k.arg] = k.value
    ctx.need("path" in vals and "query" in vals, "get_request_uri: %s(..) without path and query" % nm.split(".")[-1])
    return {"scheme": vals.get("scheme"), "netloc": vals.get("netloc"), "path": vals["path"], "query": vals["query"]}


def _untag(s):
    return s.replace("\x02", "<").replace("\x03", ":").replace("\x04", ">") if isinstance(s, str) else s


# ---------------------------------------------------------------------------
# C16.d

HOST_SAMPLES = {
    "plain": ["example.com", "a", "a.b-c.d", "xn--nxasmq6b", "1.2.3.4.5", "a_b", "a+b"],
    "case": ["%45xample.com", "ex%41mple.COM", "EXAMPLE.com", "Example.COM", "%5A%7A", "A%2Eb"],
    "nonascii": ["Ä.example", "%C3%84.example", "İx", "ǅ", "ẞ", "%E2%84%AA"],  # str.lower() would change these
    "escaped": ["a%2Eb", "%25", "%zz", "%4", "a%20b", "%C3%A9"],
    "invalid": ["%FF", "a%C3", "%C3%28.b"],
}
_ASCII_LOWER = {ord(a): ord(b) for a, b in zip(_string.ascii_uppercase, _string.ascii_lowercase)}


def _spec_host(s):
    return _up.unquote(s, errors="strict").translate(_ASCII_LOWER)


@R.clause("C16.d", "Uri-Host is the strictly percent-decoded host through the ASCII lower-casing table, omitted iff the IP-literal predicate holds; the remote keeps (scheme, netloc)")
def d(ctx):
    M = _model(ctx)
    fi, sp = M.fi, M.sp
    coap = [o for o in M.accepted() if "partial" not in o.flags and M.arm(o) == "coap"]
    ctx.floor("accepted CoAP paths of set_request_uri", len(coap), 2)
    optout = [p for p in M.optout if is_unwritten_param(fi, p)]
    ctx.need(len(optout) >= 1, "set_request_uri: no opt-out parameter (set_uri_host) found")
    OPT = mk_and([local_name(p) for p in optout]) if len(optout) == 1 else None
    ctx.need(OPT is not None, "set_request_uri has several optional parameters: the rule knows one (set_uri_host)")
    OPT = sp.formula(OPT)
    STORE = ("and", (OPT, ("not", M.LIT)))
    WHAT = {
        "plain": "the stored Uri-Host is the host component",
        "case": "the stored Uri-Host went through the ASCII lower-casing table after percent-decoding (A-Z -> a-z)",
        "nonascii": "only A-Z are lower-cased (no Unicode case mapping of the host)",
        "escaped": "the stored Uri-Host is the percent-decoded host component",
        "invalid": "the host is percent-decoded with errors='strict' (non-UTF-8 escapes raise)",
    }
    sites = {}
    n_with = n_without = 0
    var = "__host"
    for o in coap:
        node = o.end[2] if o.end is not None and o.end[2] is not None else fi.node
        st = o.last_store("self.opt.uri_host")
        c = M.conj(o)
        if st is None:
            n_without += 1
            cex = sp.counterexample(c, ("not", STORE))
            ctx.ob("Uri-Host is omitted under no condition other than the IP-literal predicate and the set_uri_host opt-out", cex is None, fi, node,
                   detail=None if cex is None else "omitted with: %s" % sp.show(cex), construct="Uri-Host omitted")
            continue
        n_with += 1
        i, val, snode = st
        cex = sp.counterexample(c, STORE)
        ctx.ob("Uri-Host is stored only when not opted out and the IP-literal predicate (bracketed netloc, or three dots and digits-and-dots only and every label <= 255) is false",
               cex is None, fi, snode, detail=None if cex is None else "stored with: %s" % sp.show(cex), construct="Uri-Host stored")
        ctx.need(val is not None, "set_request_uri deletes opt.uri_host")
        ce = _component_closed(M, val, "hostname", var)
        ctx.need(ce is not None, "set_request_uri: the value stored to opt.uri_host reads other parts of the parsed URL: `%s`" % txt(val, 90))
        sites.setdefault(id(src_of(snode)), [snode, []])[1].append((ce, val))
    ctx.floor("accepted CoAP paths storing Uri-Host", n_with, 1)
    ctx.floor("accepted CoAP paths omitting Uri-Host", n_without, 1)
    ctx.floor("stores of opt.uri_host in set_request_uri", len(sites), 1)
    for snode, items in sites.values():
        for cat, ss in HOST_SAMPLES.items():
            bad = None
            for ce, val in items:
                for s in ss:
                    got = _run_host(M, ce, var, s)
                    ctx.need(got[0] != "?", "set_request_uri: the value stored to opt.uri_host is outside the evaluator's vocabulary (%s): `%s`" % (got[1], txt(val, 90)))
                    try:
                        want = ("ok", _spec_host(s))
                    except UnicodeDecodeError:
                        want = ("raise", "UnicodeDecodeError")
                    if got != want and bad is None:
                        bad = "host %r gives %r, expected %r" % (s, got[1], want[1])
            ctx.ob(WHAT[cat], bad is None, fi, snode, detail=bad, construct="opt.uri_host value: %s" % cat)
    # remote keeps scheme and netloc (the port stays with the destination)
    rsites = {}
    for o in coap:
        st = o.last_store("self.remote")
        if st is not None:
            rsites.setdefault(id(src_of(st[2])), []).append(st)
    ctx.floor("stores of self.remote in set_request_uri", len(rsites), 1)
    nfi = ctx.prog.func("message.UndecidedRemote.__new__")
    np_ = params(nfi)
    for sts in rsites.values():
        ok = True
        for i, v, node in sts:
            good = isinstance(v, ast.Call) and qual_name(ctx.prog, fi.module, v) == "aiocoap.message.UndecidedRemote" and not any(isinstance(x, ast.Starred) for x in v.args)
            if good:
                args = dict(zip(np_, v.args))
                for k in v.keywords:
                    if k.arg is None or k.arg in args:
                        good = False
                    else:
                        args[k.arg] = k.value
                good = good and len(np_) == 2 and set(args) == set(np_) and M.comp(args[np_[0]]) == "scheme" and M.comp(args[np_[1]]) == "netloc"
            ok = ok and good
        ctx.ob("the remote is UndecidedRemote(scheme, netloc): the port stays with the destination", ok, fi, sts[0][2], construct="self.remote = UndecidedRemote(scheme, netloc)",
               detail="value: %s" % txt(sts[0][1], 100) if sts[0][1] is not None else None)
    port_stores = [(t, n) for o in M.outs for _, t, _, n in o.stores() if t.startswith("self.opt.uri_port")]
    ctx.ob("no Uri-Port option is stored by set_request_uri (the port stays in the remote)", not port_stores, fi, port_stores[0][1] if port_stores else fi.node, construct="self.opt.uri_port")


def _run_host(M, ce, var, value):
    try:
        v = M.ev.ev(ce, M.fi.module, {var: value})
    except EvalRaised as ex:
        return ("raise", type(ex.exc).__name__)
    except NormError as ex:
        return ("?", str(ex))
    if isinstance(v, str):
        return ("ok", v)
    return ("?", "value of type %s" % type(v).__name__)


# ---------------------------------------------------------------------------
# C16.e

JOIN_HOSTS = ["h", "[h", "h]", "[h]", "a:b", "[a:b", "a:b]", "[a:b]", "::1", "[::1]", "[fe80::1%eth0]", "fe80::1%eth0", "1.2.3.4", "example.com", "[v1.x]", ":", "[:]", "]:[", "a]:[b",
              "", "[", "]", "[]", "a-rather-long-host-name.example.com", "2001:db8:85a3:8d3:1319:8a2e:370:7348", "[2001:db8:85a3:8d3:1319:8a2e:370:7348]", "a:b:c", "[a]:b"]
JOIN_PORTS = [None, 0, 1, 5683, 65535]


def _spec_hostportjoin(host, port):
    if ":" in host and not (host.startswith("[") and host.endswith("]")):
        host = "[" + host + "]"
    return host if port is None else "%s:%d" % (host, port)


@R.clause("C16.e", "hostportjoin brackets exactly unbracketed hosts containing ':'; hostportsplit delegates to SplitResult; UndecidedRemote normalises bracketed literals via ipaddress and hostportjoin")
def e(ctx):
    prog = ctx.prog
    ex = Exec(prog)
    ev = Evaluator(prog)
    # --- hostportjoin: its summarised outcomes, evaluated on hosts covering all eight combinations of
    # (contains ':', starts with '[', ends with ']') and on absent / boundary ports
    fi = prog.func("util.hostportjoin")
    p = params(fi)
    ctx.need(len(p) == 2, "hostportjoin signature changed")
    host, port = p
    outs = ex.run(fi)
    ctx.floor("outcomes of hostportjoin", len(outs), 2)
    ctx.need(not any(o.exceptional or o.stores() for o in outs), "hostportjoin has exception handlers or stores: outside the rule's vocabulary")
    fails = {"bracket": None, "bare": None, "joined": None}
    nret = 0
    for h in JOIN_HOSTS:
        for pt in JOIN_PORTS:
            env = {host: h, port: pt}
            hit = []
            for o in outs:
                try:
                    if all(bool(ev.ev(ce, fi.module, env)) == pol for ce, pol in o.conds()):
                        hit.append(o)
                except EvalRaised as ex_:
                    hit.append(o)
                except NormError as ex_:
                    raise AnalysisError("C16.e: a condition of hostportjoin is outside the evaluator's vocabulary: %s" % ex_)
            ctx.need(len(hit) == 1, "hostportjoin: %d outcomes apply to (%r, %r)" % (len(hit), h, pt))
            o = hit[0]
            want = _spec_hostportjoin(h, pt)
            if o.end is None or o.end[0] != "return" or o.end[1] is None:
                got = "<%s>" % (o.end[0] if o.end else "falls off the end")
            else:
                nret += 1
                try:
                    got = ev.ev(o.end[1], fi.module, env)
                except EvalRaised as ex_:
                    got = "<raises %r>" % (ex_.exc,)
                except NormError as ex_:
                    raise AnalysisError("C16.e: a result of hostportjoin is outside the evaluator's vocabulary: %s" % ex_)
            if got != want:
                node = o.end[2] if o.end is not None and o.end[2] is not None else fi.node
                kind = "bracket" if ":" in h else ("bare" if pt is None else "joined")
                if fails[kind] is None:
                    fails[kind] = (node, "hostportjoin(%r, %r) gives %r, expected %r" % (h, pt, got, want))
    ctx.floor("evaluated results of hostportjoin", nret, 20)
    ctx.ob("the host is bracketed iff it contains ':' and is not already enclosed in brackets", fails["bracket"] is None, fi, fails["bracket"][0] if fails["bracket"] else fi.node,
           detail=fails["bracket"][1] if fails["bracket"] else None, construct="hostportjoin: bracketing")
    ctx.ob("the bare host is returned exactly when no port is given", fails["bare"] is None, fi, fails["bare"][0] if fails["bare"] else fi.node,
           detail=fails["bare"][1] if fails["bare"] else None, construct="hostportjoin: port-less result")
    ctx.ob("with a port the result is <host>:<port>", fails["joined"] is None, fi, fails["joined"][0] if fails["joined"] else fi.node,
           detail=fails["joined"][1] if fails["joined"] else None, construct="hostportjoin: host:port result")

    # --- hostportsplit
    fi = prog.func("util.hostportsplit")
    p = params(fi)
    ctx.need(len(p) == 1, "hostportsplit signature changed")
    outs = [o for o in ex.run(fi) if o.normal]
    ctx.floor("normal outcomes of hostportsplit", len(outs), 1)
    for o in outs:
        node = o.end[2] if o.end is not None and o.end[2] is not None else fi.node
        t = o.end[1] if o.end is not None and o.end[0] == "return" else None
        ok = isinstance(t, (ast.Tuple, ast.List)) and len(t.elts) == 2 and all(isinstance(x, ast.Attribute) for x in t.elts) \
            and t.elts[0].attr == "hostname" and t.elts[1].attr == "port" and dump(t.elts[0].value) == dump(t.elts[1].value) and "partial" not in o.flags
        if ok:
            src = t.elts[0].value
            ok = isinstance(src, ast.Call) and qual_name(prog, fi.module, src) in ("urllib.parse.SplitResult", "urllib.parse.ParseResult") and not any(isinstance(x, ast.Starred) for x in src.args)
            if ok:
                netloc = src.args[1] if len(src.args) > 1 else next((k.value for k in src.keywords if k.arg == "netloc"), None)
                ok = isinstance(netloc, ast.Name) and netloc.id == p[0] and getattr(netloc, "_local", False)
        ctx.ob("hostportsplit returns (hostname, port) of a SplitResult whose netloc is its argument", bool(ok), fi, node,
               detail="returns %s" % (txt(t, 100) if t is not None else None), construct="hostportsplit result")

    # --- UndecidedRemote.__new__
    fi = prog.func("message.UndecidedRemote.__new__")
    p = params(fi)
    ctx.need(len(p) == 2, "UndecidedRemote.__new__ signature changed")
    scheme, hostinfo = p
    outs = ex.run(fi)
    sp = BoolSpace(lambda e_: ev.ev(e_, fi.module, {}))
    BR = sp.formula(pexpr("'[' in %s" % hostinfo))
    finals = []
    for o in outs:
        v = o.end[1] if o.end is not None and o.end[0] == "return" else None
        if isinstance(v, ast.Call) and match("super().__new__($*a)", v) is not None:
            finals.append((o, v))
    ctx.floor("constructions through super().__new__ in UndecidedRemote.__new__", len(finals), 2)
    kept = normd = 0
    for o, call in finals:
        node = o.end[2]
        ok_shape = len(call.args) == 3 and not call.keywords and isinstance(call.args[1], ast.Name) and call.args[1].id == scheme and getattr(call.args[1], "_local", False)
        ctx.need(ok_shape, "UndecidedRemote.__new__: super().__new__(cls, scheme, <hostinfo>) expected, found `%s`" % txt(call, 100))
        v = call.args[2]
        c = sp.conj(o.conds())
        if isinstance(v, ast.Name) and v.id == hostinfo and getattr(v, "_local", False):
            kept += 1
            ctx.ob("the hostinfo is kept as given only when it contains no '['", sp.implies(c, ("not", BR)), fi, node, detail="path: %s" % o.describe(), construct="UndecidedRemote: hostinfo kept")
            continue
        normd += 1
        ctx.ob("normalisation applies to hostinfo containing '['", sp.implies(c, BR), fi, node, detail="path: %s" % o.describe(), construct="UndecidedRemote: hostinfo normalised")
        m = match("$f($h, $pt)", v)
        okj = m is not None and not v.keywords and qual_name(prog, fi.module, v) == "aiocoap.util.hostportjoin"
        ctx.ob("the normalised hostinfo is hostportjoin(<normalised host>, <port>)", okj, fi, node, detail="value: %s" % txt(v, 120), construct="UndecidedRemote: re-joined with hostportjoin")
        if not okj:
            continue

        def split_part(x, idx):
            """x == hostportsplit(hostinfo)[idx]"""
            return isinstance(x, ast.Subscript) and isinstance(x.slice, ast.Constant) and x.slice.value == idx and isinstance(x.value, ast.Call) \
                and qual_name(prog, fi.module, x.value) == "aiocoap.util.hostportsplit" and len(x.value.args) == 1 and not x.value.keywords \
                and isinstance(x.value.args[0], ast.Name) and x.value.args[0].id == hostinfo and getattr(x.value.args[0], "_local", False)
        mh = match("str($ip)", m["h"]) or match("$ip.compressed", m["h"])  # IPv4/IPv6Address.compressed is str(address)
        ip = mh["ip"] if mh is not None else None
        oks = ip is not None and isinstance(ip, ast.Call) and qual_name(prog, fi.module, ip) == "ipaddress.ip_address" and len(ip.args) == 1 and not ip.keywords and split_part(ip.args[0], 0)
        ctx.ob("the host part of hostportsplit(hostinfo) is normalised by str(ipaddress.ip_address(..))", bool(oks), fi, node, detail="host argument: %s" % txt(m["h"], 100),
               construct="UndecidedRemote: host through ipaddress.ip_address")
        ctx.ob("the port re-joined is the port part of the same hostportsplit(hostinfo)", split_part(m["pt"], 1), fi, node, detail="port argument: %s" % txt(m["pt"], 80),
               construct="UndecidedRemote: port of the same split")
    ctx.ob("an unbracketed hostinfo is kept as given", kept >= 1, fi, fi.node, construct="UndecidedRemote: hostinfo kept (exists)")
    ctx.ob("a normalised hostinfo reaches the constructor", normd >= 1, fi, fi.node, construct="UndecidedRemote: hostinfo normalised (exists)")
    ci = prog.cls("message.UndecidedRemote")
    okp = False
    if "from_pathless_uri" in ci.methods:
        pfi = ci.methods["from_pathless_uri"]
        for o in ex.run(pfi):
            v = o.end[1] if o.end is not None and o.end[0] == "return" else None
            if isinstance(v, ast.Call) and len(v.args) + len(v.keywords) == 2 and not any(isinstance(x, ast.Starred) for x in v.args) and (
                    (isinstance(v.func, ast.Name) and v.func.id == "cls" and getattr(v.func, "_local", False)) or qual_name(prog, pfi.module, v) == ci.qn):
                okp = True
    ctx.ob("UndecidedRemote.from_pathless_uri exists and constructs through the same __new__", okp, None, None, construct="UndecidedRemote.from_pathless_uri")


# ---------------------------------------------------------------------------
@R.clause("C16.f", "urllib is taught only that CoAP URIs are hierarchical (uses_relative, uses_netloc); no CoAP scheme is registered for ;parameters, so a ';' stays part of its path segment")
def f_urllib(ctx):
    """Added after an independently written breaking change also registered the CoAP schemes in urllib.parse.uses_params:
    urlparse() then splits `;params` off the last path segment, set_request_uri never looks at parsed.params, and
    `/temp;unit=C` and `/temp` collapse."""
    mod = ctx.prog.module("message")
    touched = {}
    for st in mod.tree.body:
        for n in ast.walk(st):
            if isinstance(n, ast.Attribute) and n.attr.startswith("uses_") and (chain(n) or "").startswith("urllib.parse."):
                touched.setdefault(n.attr, st)
            if isinstance(n, ast.Constant) and isinstance(n.value, str) and n.value.startswith("uses_") and any(isinstance(x, ast.Attribute) and (chain(x) or "") == "urllib.parse" or (isinstance(x, ast.Name) and x.id == "urllib") for x in ast.walk(st)):
                touched.setdefault(n.value, st)
    ctx.ob("the CoAP schemes are registered as hierarchical URIs", {"uses_relative", "uses_netloc"} <= set(touched), None, None, construct="message.py: urllib.parse registrations %s" % sorted(touched))
    extra = sorted(set(touched) - {"uses_relative", "uses_netloc"})
    fi0 = None
    ctx.ob("no further urllib scheme table is modified (uses_params would split ';...' off the last segment)", not extra, None, None,
           construct="message.py: urllib.parse.%s" % (extra[0] if extra else "uses_* (none besides relative/netloc)"))
    sfi = ctx.prog.func("message.Message.set_request_uri")
    reads_params = any(isinstance(n, ast.Attribute) and n.attr == "params" for n in ast.walk(sfi.node))
    if extra and "uses_params" in extra:
        ctx.ob("if parameters are split off they are put back", reads_params, sfi, sfi.node, construct="set_request_uri: parsed.params")


# ---------------------------------------------------------------------------
# C16.g -- the authority get_request_uri composes

_DIRECTION = "aiocoap.message.Direction"
_SPLIT, _JOIN, _QNA = "aiocoap.util.hostportsplit", "aiocoap.util.hostportjoin", "aiocoap.util.quote_nonascii"


def _spec_hostportsplit(hostport):
    r = _up.SplitResult(None, hostport, None, None, None)
    return (r.hostname, r.port)


def _spec_quote_nonascii(s):
    return "".join(chr(b) if b < 128 else "%%%02X" % b for b in s.encode("utf8"))


class _Facts:
    """Expressions of a summarised function as functions of the *facts* the function reads.

    The facts are attribute chains (`self.remote.hostinfo`, `self.request.opt.uri_host`, `self.code.is_response()`,
    `self._ctx._default_port`, ...): every maximal chain rooted at a local of the function (a zero-argument method call
    at its end included; `getattr(x, 'a'[, d])` is the chain `x.a`; `t.get_extra_info('name')` of an asyncio transport
    is the fact `extra:name`) is replaced by a placeholder named after the chain -- a parameter of the function as root
    is written `$<position>`, so the parameter's name is immaterial --, a member of the Direction enumeration by a
    token, and the three host / port helpers of util (hostportsplit and hostportjoin are decided by C16.e,
    quote_nonascii by C16.g) by their specification.  A *scenario* assigns values to chains; a path condition that is
    closed over assigned chains is evaluated, one that reads none of them is left open, so an outcome is compared on
    exactly the scenarios it can be taken in."""

    def __init__(self, ctx, ev, fi):
        self.ctx, self.ev, self.fi, self.prog = ctx, ev, fi, ctx.prog
        self.names = {}  # chain text -> placeholder name
        self.keys = {}  # placeholder name -> chain text
        a = fi.node.args
        self.params = {x.arg: "$%d" % i for i, x in enumerate(a.posonlyargs + a.args) if x.arg not in ("self", "cls")}

    def ph(self, key):
        if key not in self.names:
            self.names[key] = "__f%d" % len(self.names)
            self.keys[self.names[key]] = key
        return local_name(self.names[key])

    @staticmethod
    def _root(n):
        while isinstance(n, ast.Attribute):
            n = n.value
        return n

    def _rooted_local(self, n, bound):
        if chain(n) is None:
            return False
        r = self._root(n)
        return isinstance(r, ast.Name) and (getattr(r, "_local", False) or r.id == "self") and r.id not in bound

    def _key(self, n):
        """chain text with a parameter root canonicalised; a placeholder root stands for its own key"""
        c = chain(n)
        r = self._root(n)
        root = self.keys.get(r.id) or self.params.get(r.id) or r.id
        return root + c[len(r.id):]

    def abstract(self, e, bound=frozenset()):
        rec = lambda x: self.abstract(x, bound)
        if isinstance(e, ast.Attribute):
            # an attribute chain over a conditional expression (`(self.request if R else self).opt.uri_port`, what a
            # conditionally bound local becomes where the executor does not hoist): attribute access is strict in its
            # base, so it distributes over the arms
            path, b = [], e
            while isinstance(b, ast.Attribute):
                path.append(b.attr)
                b = b.value
            if isinstance(b, ast.IfExp):
                def over(x):
                    for a_ in reversed(path):
                        x = ast.Attribute(value=x, attr=a_, ctx=ast.Load())
                    return x
                return ast.IfExp(test=rec(b.test), body=rec(over(b.body)), orelse=rec(over(b.orelse)))
        if isinstance(e, ast.Call) and isinstance(e.func, ast.Attribute) and not e.args and not e.keywords:
            b = e.func.value
            while isinstance(b, ast.Attribute):
                b = b.value
            if isinstance(b, ast.IfExp):
                d = rec(e.func)  # distributed: IfExp of chains
                if isinstance(d, ast.IfExp):
                    return ast.IfExp(test=d.test, body=self._recall(d.body), orelse=self._recall(d.orelse))
        if isinstance(e, ast.Call) and isinstance(e.func, ast.Attribute):
            f = e.func
            if f.attr == "get_extra_info" and e.args and isinstance(e.args[0], ast.Constant) and isinstance(e.args[0].value, str) and self._rooted_local(f.value, bound):
                return self.ph("extra:" + e.args[0].value)
            if not e.args and not e.keywords and self._rooted_local(f.value, bound) and isinstance(f.value, ast.Attribute):
                return self.ph(self._key(f) + "()")
        if isinstance(e, ast.Call) and isinstance(e.func, ast.Name) and e.func.id == "getattr" and not getattr(e.func, "_local", False) and 2 <= len(e.args) <= 3 and not e.keywords \
                and isinstance(e.args[1], ast.Constant) and isinstance(e.args[1].value, str):
            inner = rec(e.args[0])
            if isinstance(inner, ast.Name) and (inner.id in self.keys or self._rooted_local(inner, bound)):
                return self.ph(self._key(ast.Attribute(value=inner, attr=e.args[1].value, ctx=ast.Load())))
        if isinstance(e, ast.Attribute) and chain(e) is not None:
            if self._rooted_local(e, bound):
                return self.ph(self._key(e))
            q = qual_name(self.prog, self.fi.module, e)
            if q and q.startswith(_DIRECTION + "."):
                return ast.Constant(value=q)
            return e
        if isinstance(e, ast.Call):
            q = qual_name(self.prog, self.fi.module, e) if chain(e.func) else None
            if q in (_SPLIT, _JOIN, _QNA):
                return ast.Call(func=local_name("__fn:" + q), args=[rec(a) for a in e.args], keywords=[ast.keyword(arg=k.arg, value=rec(k.value)) for k in e.keywords])
            f = e.func if isinstance(e.func, ast.Name) else (ast.Attribute(value=rec(e.func.value), attr=e.func.attr, ctx=ast.Load()) if isinstance(e.func, ast.Attribute) else rec(e.func))
            return ast.Call(func=f, args=[rec(a) for a in e.args], keywords=[ast.keyword(arg=k.arg, value=rec(k.value)) for k in e.keywords])
        if isinstance(e, (ast.ListComp, ast.SetComp, ast.GeneratorExp, ast.DictComp)):
            b = set(bound)
            gens = []
            for g in e.generators:
                it = self.abstract(g.iter, frozenset(b))
                b |= {x.id for x in ast.walk(g.target) if isinstance(x, ast.Name)}
                gens.append(ast.comprehension(target=g.target, iter=it, ifs=[self.abstract(c, frozenset(b)) for c in g.ifs], is_async=g.is_async))
            if isinstance(e, ast.DictComp):
                return ast.DictComp(key=self.abstract(e.key, frozenset(b)), value=self.abstract(e.value, frozenset(b)), generators=gens)
            return type(e)(elt=self.abstract(e.elt, frozenset(b)), generators=gens)
        if isinstance(e, ast.Lambda):
            a = e.args
            return ast.Lambda(args=a, body=self.abstract(e.body, frozenset(set(bound) | {x.arg for x in a.posonlyargs + a.args + a.kwonlyargs})))
        if isinstance(e, ast.AST) and not isinstance(e, (ast.expr_context, ast.operator, ast.unaryop, ast.boolop, ast.cmpop, ast.Constant, ast.Name)):
            kw = {}
            for f, v in ast.iter_fields(e):
                if isinstance(v, list):
                    kw[f] = [rec(x) if isinstance(x, ast.AST) else x for x in v]
                elif isinstance(v, ast.AST):
                    kw[f] = rec(v)
                else:
                    kw[f] = v
            return type(e)(**kw)
        return e

    def _recall(self, x):
        """zero-argument call of an already abstracted chain (placeholder or conditional expression of placeholders)"""
        if isinstance(x, ast.IfExp):
            return ast.IfExp(test=x.test, body=self._recall(x.body), orelse=self._recall(x.orelse))
        if isinstance(x, ast.Name) and x.id in self.keys:
            return self.ph(self.keys[x.id] + "()")
        return ast.Call(func=x, args=[], keywords=[])

    def env_of(self, facts, extra=()):
        env = {"__fn:" + _SPLIT: _spec_hostportsplit, "__fn:" + _JOIN: _spec_hostportjoin, "__fn:" + _QNA: _spec_quote_nonascii}
        for k, v in facts.items():
            if k in self.names:
                env[self.names[k]] = v
        env.update(extra)
        return env

    def known(self, ae, facts, extra=()):
        """does the abstracted expression read a fact the scenario assigns?"""
        assigned = {self.names[k] for k in facts if k in self.names} | set(extra)
        return any(isinstance(n, ast.Name) and n.id in assigned for n in ast.walk(ae))

    def reads(self, ae):
        """keys of the facts an abstracted expression reads"""
        return {self.keys[n.id] for n in ast.walk(ae) if isinstance(n, ast.Name) and n.id in self.keys}

    def applies(self, conds, facts, env, extra=(), where="?"):
        """Can the path with the (abstracted) conditions be taken in the scenario?  A test that raises ends the path; a
        test about nothing the scenario assigns is open; a test about assigned facts that cannot be evaluated is refused."""
        for ae, pol, e in conds:
            try:
                v = self.ev.ev(ae, self.fi.module, env)
            except EvalRaised:
                return False
            except NormError as ex_:
                if self.known(ae, facts, extra):
                    raise AnalysisError("%s: a condition about assigned facts is outside the evaluator's vocabulary (%s): `%s`" % (where, ex_, txt(e, 100)))
                continue
            if bool(v) != pol:
                return False
        return True


_Authority = _Facts


def _authority_scenarios(lis_param):
    """(facts, parameters, expected netloc, family) over: request / response, group / unicast destination of the request,
    client / server side, the deprecated explicit argument given or not, Uri-Host absent / ASCII / non-ASCII, Uri-Port
    absent / present.  All values are non-degenerate (a host name, a non-zero port, a remote that has a hostinfo)."""
    IN, OUT = _DIRECTION + ".INCOMING", _DIRECTION + ".OUTGOING"
    own = {"hostinfo": "[2001:db8::1]:61616", "hostinfo_local": "[2001:db8::2]"}
    ref = {"hostinfo": "[ff02::fd]:1234", "hostinfo_local": "192.0.2.9:5685"}
    out = []
    for resp in (False, True):
        for mc in (False, True):
            for direction in (IN, OUT):
                server = (direction == IN) != resp
                for given in (None, server):
                    for uh in (None, "sensors.example", "bücher.example"):
                        for up in (None, 8683):
                            r = "self.request" if resp else "self"
                            facts = {"self.code.is_response()": resp, "self.direction": direction,
                                     r + ".remote.is_multicast": mc, r + ".opt.uri_host": uh, r + ".opt.uri_port": up,
                                     r + ".remote.hostinfo": ref["hostinfo"], r + ".remote.hostinfo_local": ref["hostinfo_local"]}
                            if resp:
                                facts["self.remote.hostinfo"] = own["hostinfo"]
                                facts["self.remote.hostinfo_local"] = own["hostinfo_local"]
                            if resp and mc:
                                want, fam = (own["hostinfo_local"] if server else own["hostinfo"]), "group"
                            else:
                                base = ref["hostinfo_local"] if server else ref["hostinfo"]
                                if uh is None and up is None:
                                    want, fam = base, "plain"
                                else:
                                    h, p = _spec_hostportsplit(base)
                                    want, fam = _spec_hostportjoin(_spec_quote_nonascii(uh or h), up or p), "options"
                            out.append((facts, {lis_param: given}, want, fam))
    return out


def _check_quote_nonascii(ctx, ex, ev):
    fi = ctx.prog.func("util.quote_nonascii")
    p = params(fi)
    ctx.need(len(p) == 1, "quote_nonascii signature changed")
    outs = ex.run(fi)
    ctx.need(not any(o.exceptional or o.stores() for o in outs), "quote_nonascii has exception handlers or stores: outside the rule's vocabulary")
    bad = None
    node = fi.node
    n = 0
    for s in _utf8_cover():
        for o in outs:
            try:
                if not all(bool(ev.ev(ce, fi.module, {p[0]: s})) == pol for ce, pol in o.conds()):
                    continue
            except EvalRaised:
                continue
            except NormError as ex_:
                raise AnalysisError("C16.g: a condition of quote_nonascii is outside the evaluator's vocabulary: %s" % ex_)
            if o.end is None or o.end[0] != "return" or o.end[1] is None:
                got = "<%s>" % (o.end[0] if o.end else "falls off the end")
            else:
                try:
                    got = ev.ev(o.end[1], fi.module, {p[0]: s})
                except EvalRaised as ex_:
                    got = "<raises %r>" % (ex_.exc,)
                except NormError as ex_:
                    raise AnalysisError("C16.g: the result of quote_nonascii is outside the evaluator's vocabulary: %s" % ex_)
            n += 1
            want = _spec_quote_nonascii(s)
            if got != want and bad is None:
                k = next((i for i, (x, y) in enumerate(zip(str(got), want)) if x != y), min(len(str(got)), len(want)))
                bad = "result differs from the specification at offset %d of a %d-byte input (got ...%r, expected ...%r)" % (k, len(s.encode("utf8")), str(got)[max(0, k - 3):k + 6], want[max(0, k - 3):k + 6])
                node = o.end[2] if o.end is not None and o.end[2] is not None else fi.node
    ctx.floor("evaluated results of quote_nonascii", n, 5)
    ctx.ob("quote_nonascii keeps every ASCII byte and writes every other UTF-8 byte as %XX", bad is None, fi, node, detail=bad, construct="quote_nonascii result")


class _AuthorityEvaluator(StatefulEvaluator):
    """The evaluator of the composed authority.  On top of the closed expressions of `Evaluator` it *executes* (never
    assumes a specification for) whatever package callable the authority is passed through: a module-level function
    called by name (StatefulEvaluator), and a module-level *constant* whose value is a callable built by package code
    (`_q = quote_factory(...)`: the closure a package factory returns; a module-level lambda).  This is
    sound in both directions: the callable's own body decides the result on the concrete scenario values, so an
    escaping step that is the identity on the scenarios' hosts (any spelling of it) stays silent and one that rewrites
    an IP literal taken from the remote (or fails to escape a non-ASCII name) shows up as a wrong authority.  Only
    hostportsplit / hostportjoin / quote_nonascii are taken by specification (placeholders in the environment); each of
    them is checked against that specification by its own clause (C16.e, C16.g)."""

    def _call(self, e, module, env):
        f = e.func
        if isinstance(f, ast.Name) and f.id not in env and f.id not in EVAL_BUILTINS and not getattr(f, "_local", False):
            try:
                v = self._name(f, module, env)
            except NormError:
                v = None
        elif isinstance(f, ast.Call):
            # the product of a factory called on the spot: `quote_factory(S)(host)`
            v = self._ev(f, module, env)
        else:
            v = None
        if v is not None:
            if isinstance(v, InterpFunction) or (callable(v) and getattr(v, "__qualname__", "").startswith("Evaluator._ev.<locals>")):
                if any(isinstance(a, ast.Starred) for a in e.args) or any(k.arg is None for k in e.keywords):
                    raise NormError("star arguments")
                return v(*[self._ev(a, module, env) for a in e.args], **{k.arg: self._ev(k.value, module, env) for k in e.keywords})
            if isinstance(f, ast.Call):
                raise NormError("call of the result of %s" % txt(f, 40))
        return StatefulEvaluator._call(self, e, module, env)


@R.clause("C16.g", "the authority composed by get_request_uri is the remote's hostinfo with Uri-Host / Uri-Port taking the place of host / port -- except for a response to a request sent to a group, whose authority is the responder's own endpoint, untouched by the request's options")
def g(ctx):
    """Added after an independently written breaking change let the Uri-Host / Uri-Port override also rewrite the
    responder's endpoint chosen for responses to multicast requests (all responders collapse into the group's URI).
    Decided by evaluation: every outcome of get_request_uri that composes a URI is evaluated, in each scenario its path
    condition admits, on concrete endpoint / option values and compared with RFC 7252 section 6.5 steps 3-5 and the
    documented multicast rule."""
    prog = ctx.prog
    gfi = prog.func(GET)
    gex = Exec(prog)
    # quote_nonascii's result, the conditions and the authority itself: package callables on the way are executed (see
    # _AuthorityEvaluator) -- a quote_nonascii that delegates to a module-level callable built by a package factory
    # (`_q = quote_factory(S)`; a lambda) is decided by running that callable's own body on the byte cover, so any
    # spelling that keeps exactly the ASCII bytes stays silent and one that escapes ':' / '%' of an (unbracketed, as
    # hostportsplit delivers it) IP literal or keeps a non-ASCII byte is a wrong result
    gev = _AuthorityEvaluator(prog, Interp(prog))
    _check_quote_nonascii(ctx, gex, gev)
    extra_params = params(gfi) + [a.arg for a in gfi.node.args.kwonlyargs]
    ctx.need(len(extra_params) == 1, "get_request_uri has parameters other than the (deprecated) local_is_server: %s" % extra_params)
    lis = extra_params[0]
    A = _Authority(ctx, gev, gfi)
    cases = []
    for o in gex.run(gfi):
        if o.end is None or o.end[0] != "return" or not isinstance(o.end[1], ast.Call):
            continue
        slots = _unparse_slots(ctx, gfi, o.end[1])
        if slots is None or slots.get("netloc") is None:
            continue
        node = src_of(o.end[2]) if o.end[2] is not None else gfi.node
        cases.append({"o": o, "slot": slots["netloc"], "aslot": A.abstract(slots["netloc"]), "conds": [(A.abstract(e), pol, e) for e, pol in o.conds()], "node": node})
    ctx.floor("outcomes of get_request_uri that compose a URI", len(cases), 3)
    WHAT = {
        "group": "the authority of a response to a request that was sent to a group is the responder's own endpoint (hostinfo on the client, hostinfo_local on the server), whatever Uri-Host / Uri-Port the request carried",
        "plain": "without Uri-Host and Uri-Port the authority is the hostinfo of the remote the request is (was) exchanged with (hostinfo_local on the server)",
        "options": "Uri-Host / Uri-Port take the place of the host / port of the remote's hostinfo (other part kept, non-ASCII host escaped, re-joined with hostportjoin)",
    }
    bad = {k: None for k in WHAT}
    hits = {k: 0 for k in WHAT}
    cache = {}
    for facts, extra, want, fam in _authority_scenarios(lis):
        env = A.env_of(facts, extra)
        hit = 0
        for cs in cases:
            if not A.applies(cs["conds"], facts, env, extra, "C16.g: get_request_uri"):
                continue
            hit += 1
            try:
                got = gev.ev(cs["aslot"], gfi.module, env)
            except EvalRaised as ex_:
                got = "<raises %r>" % (ex_.exc,)
            except NormError as ex_:
                raise AnalysisError("C16.g: get_request_uri: the composed authority `%s` is outside the evaluator's vocabulary: %s" % (txt(cs["slot"], 120), ex_))
            hits[fam] += 1
            if got != want and bad[fam] is None:
                r = "response" if facts["self.code.is_response()"] else "request"
                shown = {k.split(".", 1)[1]: v for k, v in facts.items() if k.endswith((".uri_host", ".uri_port", ".is_multicast"))}
                bad[fam] = (cs, "%s, %s side, %s: composed %r, expected %r (`%s`)" % (r, "server" if facts["self.direction"].endswith("INCOMING") != facts["self.code.is_response()"] else "client", shown, got, want, txt(cs["slot"], 120)))
        ctx.need(hit > 0, "get_request_uri: no path composes a URI for the scenario %s" % sorted(facts.items()))
    for fam, what in WHAT.items():
        ctx.need(hits[fam] > 0, "get_request_uri: no evaluation for the %s family" % fam)
        b = bad[fam]
        ctx.ob(what, b is None, gfi, b[0]["node"] if b else cases[0]["node"], detail=b[1] if b else "%d evaluation(s)" % hits[fam], construct="get_request_uri: authority, %s" % fam)


# ---------------------------------------------------------------------------
# C16.h -- quote functions and their state

@R.clause("C16.h", "what a quote function returns depends on its safe set and its argument only: whatever the quote functions of message.py remember (a memo, a cache handed to the factory, a default argument) is private to one safe set or keyed by it")
def h(ctx):
    """Added after two independently written breaking changes gave the path and the query quoter (safe sets differing
    in '&', '/' and '?') one memo keyed by the input string alone: once through a mutable default argument of the
    factory, once through an optional cache parameter of the factory (harmless alone: every product may get its own
    dictionary) to which message.py passes one module-level dictionary for both (harmless alone: the key could include
    the safe set).  The invariant the two sites maintain jointly is stated over histories, and decided by running them:
    all quote functions of message.py are constructed in ONE interpreter, exactly as written there (a module-level
    object is one object, a default argument is evaluated once per function, a display is a new object each time), then
    called alternately on inputs on which their safe sets disagree; every result must be the specified quoting for the
    function's own safe set, in both orders and again on the second round (when every memo is warm)."""
    prog = ctx.prog
    mod, qf = _quote_functions(ctx)
    ctx.floor("quote functions built by quote_factory in message.py", len(qf), 2)
    shape = _quote_factory_shape(ctx)
    fi = shape["fi"]
    what = "every quote function of message.py returns the quoting of its own safe set whatever any of them quoted before"
    construct = "quote functions of message.py: results independent of earlier calls"
    if shape["kind"] == "symbolic":
        # C16.c decides the function on its summarised form, which exists only for a function without stores and
        # handlers over a closure computed from the safe set: there is no history to depend on
        ctx.ob(what, True, fi, fi.node, construct=construct, detail="quote_factory(S) returns a function without state (decided symbolically by C16.c)")
        return
    names = [n for n, v in qf.items() if isinstance(v[0], str)]
    ctx.need(len(names) >= 2, "fewer than two quote functions with a constant safe set")
    # inputs on which at least two of the safe sets in use disagree, plus the byte-covering samples
    differing = sorted({c for a in names for b in names for c in set(qf[a][0]) ^ set(qf[b][0])})
    samples = ["".join(differing), "a" + "b".join(differing) + "c"] + [c for c in differing] + _utf8_cover()
    bad = None
    node = fi.node
    ncalls = 0
    for order in (names, names[::-1]):
        I = Interp(prog)
        prods = {}
        for n in names:  # construction in module order, whatever the order of the calls
            r = _interp_call("the construction of %s" % n, lambda n=n: I.ev.ev(qf[n][1].value, mod, {}))
            ctx.need(r[0] == "ok" and callable(r[1]), "construction of %s fails in the interpreter: %r" % (n, r[1]))
            prods[n] = r[1]
        for rnd in (0, 1):
            for s in samples:
                for n in order:
                    r = _interp_call("the quote function %s" % n, prods[n], s)
                    ncalls += 1
                    got = r[1] if r[0] == "ok" else "<raises %r>" % (r[1],)
                    want = _spec_quote(qf[n][0], s)
                    if got != want and bad is None:
                        others = [x for x in order if x != n]
                        bad = "%s(%r) gives %r, expected %r, after %s quoted the same input%s" % (n, s[:24], str(got)[:40], want[:40], " / ".join(others), " (second round)" if rnd else "")
                        node = qf[n][1]
    ctx.ob(what, bad is None, fi, fi.node, construct=construct, detail=bad or "interpreted (%s): %d alternating calls" % (shape["why"], ncalls))


# ---------------------------------------------------------------------------
# C16.i -- the port a connection-oriented remote leaves out of its hostinfo

# default ports of the CoAP schemes (RFC 7252 section 6.1 / 6.2, RFC 8323 section 8)
DEFAULT_PORTS = {"coap": 5683, "coaps": 5684, "coap+tcp": 5683, "coaps+tcp": 5684, "coap+ws": 80, "coaps+ws": 443}
_SOCK_PORTS = (5683, 5684, 80, 443, 61616)


def _pair_field(prog, ex, fi):
    """F when every normal outcome of the hostinfo accessor `fi` returns hostportjoin(*self.F) / hostportjoin(self.F[0], self.F[1])"""
    fields = set()
    for o in ex.run(fi):
        if not o.normal:
            continue
        v = o.end[1] if o.end is not None and o.end[0] == "return" else None
        if not (isinstance(v, ast.Call) and qual_name(prog, fi.module, v) == _JOIN and not v.keywords):
            return None
        if len(v.args) == 1 and isinstance(v.args[0], ast.Starred):
            c = chain(v.args[0].value)
        elif len(v.args) == 2 and all(isinstance(a, ast.Subscript) and isinstance(a.slice, ast.Constant) and a.slice.value == i for i, a in enumerate(v.args)) \
                and chain(v.args[0].value) == chain(v.args[1].value):
            c = chain(v.args[0].value)
        else:
            return None
        if not c or not c.startswith("self.") or c.count(".") != 1:
            return None
        fields.add(c)
    return fields.pop() if len(fields) == 1 else None


def _field_states(o, fields):
    """Replay the events of an outcome in order, reading a tracked field as the value last assigned to it on the path:
    -> (conditions [(expr, polarity)], {field: final value expr}); None when a tracked field is changed other than by
    assignment."""
    state = {}

    def sub(e):
        def fn(n):
            if isinstance(n, ast.Attribute) and chain(n) in state:
                return state[chain(n)]
            return None
        return rewrite(e, fn) if state else e

    conds = []
    for ev in o.trace:
        if ev[0] == "cond":
            conds.append((sub(ev[1]), ev[2]))
        elif ev[0] == "store":
            tgt = ev[1]
            hit = [f for f in fields if tgt == f or tgt.startswith(f + "[") or tgt.startswith(f + ".")]
            if hit:
                if tgt not in fields or ev[4] != "assign" or ev[2] is None:
                    return None
                state[tgt] = sub(ev[2])
    return conds, state


def _context_classes(prog, conn_ci, attr):
    """Classes whose instances are stored as self.<attr> of the connection class: the constructor parameter assigned to
    the attribute, and the classes (with their subclasses) that pass `self` for it wherever the class is constructed.
    None when some construction passes anything else."""
    init = prog.lookup_method(conn_ci.qn, "__init__")
    if init is None:
        return None
    pnames = params(init) + [a.arg for a in init.node.args.kwonlyargs]
    src = None
    for kind, n in stores_to(init.node, "self." + attr):
        if kind != "assign" or not isinstance(n, ast.Assign):
            return None
        v = resolve_local(init.node, n.value)
        if not (isinstance(v, ast.Name) and v.id in pnames):
            return None
        src = v.id
    if src is None:
        return None
    pos = params(init).index(src) if src in params(init) else None
    out = set()
    for f in prog.funcs.values():
        for c in ast.walk(f.node) if f.parent is None else ():
            if not (isinstance(c, ast.Call) and chain(c.func)):
                continue
            q = prog.resolve_in_module(f.module, chain(c.func))
            if q is None or q not in prog.classes or conn_ci.qn not in prog.mro(q) or prog.lookup_method(q, "__init__") is not init:
                continue
            arg = c.args[pos] if pos is not None and pos < len(c.args) and not any(isinstance(a, ast.Starred) for a in c.args) else next((k.value for k in c.keywords if k.arg == src), None)
            if not (isinstance(arg, ast.Name) and arg.id == "self" and f.cls is not None):
                return None
            out |= set(prog.subclasses(f.cls.qn)) | {f.cls.qn}
    return sorted(out)


@R.clause("C16.i", "a remote whose hostinfo is joined from a stored (host, port) pair taken from the socket leaves the port out only when it is the default port of the scheme the same remote reports (for every context class the connection is created by)")
def i_hostinfo(ctx):
    """Added after an independently written breaking change made every TCP-family connection elide port 5683 from its
    hostinfo -- also the coaps+tcp ones, whose scheme's default is 5684: get_request_uri composes scheme://hostinfo, and
    a URI without port denotes the default port of ITS scheme.  Necessary condition, per stored pair: the port the pair
    denotes under the remote's scheme (its port component, or the scheme's default when that is None) is the port of
    the socket.  Decided by evaluation of the summarised writer (fields read as last assigned on the path) for every
    class that creates the connection and hands itself in as the object the scheme / default port are read from."""
    prog = ctx.prog
    ex = Exec(prog)
    ev = Evaluator(prog)
    nsites = 0
    seen_fields = set()
    for ci in sorted(prog.classes.values(), key=lambda c: c.qn):
        if not ("hostinfo" in ci.methods and "hostinfo_local" in ci.methods):
            continue
        pair = {side: _pair_field(prog, ex, ci.methods[name]) for side, name in (("peername", "hostinfo"), ("sockname", "hostinfo_local"))}
        if not all(pair.values()):
            continue  # hostinfo is not joined from a stored pair: not this clause's business
        fields = sorted(set(pair.values()))
        for sub in sorted(prog.subclasses(ci.qn)):
            sci = prog.classes[sub]
            for mname, wfi in sorted(sci.methods.items()):
                if not any(stores_to(wfi.node, f) for f in fields) or (sub, mname) in seen_fields:
                    continue
                seen_fields.add((sub, mname))
                if not is_plain_sync(wfi):
                    ctx.note("%s writes %s but is not a plain synchronous method: not analysed" % (wfi.short, fields))
                    continue
                nsites += _check_pair_writer(ctx, ex, ev, sci, wfi, pair)
    ctx.floor("methods that fill a (host, port) pair of a hostinfo from the socket", nsites, 1)


def _check_pair_writer(ctx, ex, ev, sci, wfi, pair):
    prog = ctx.prog
    fields = sorted(set(pair.values()))
    F = _Facts(ctx, ev, wfi)
    cases = []
    for o in ex.run(wfi):
        if not o.normal:
            continue
        ctx.need(not o.exceptional and "partial" not in o.flags, "%s: a path through an exception handler fills the hostinfo pair: outside the rule's vocabulary" % wfi.short)
        r = _field_states(o, fields)
        ctx.need(r is not None, "%s changes %s other than by assignment: outside the rule's vocabulary" % (wfi.short, fields))
        conds, state = r
        if not state:
            continue
        node = next((ev_[3] for ev_ in reversed(o.trace) if ev_[0] == "store" and ev_[1] in fields), wfi.node)
        cases.append({"o": o, "conds": [(F.abstract(e), pol, e) for e, pol in conds], "state": {f: (F.abstract(v), v) for f, v in state.items()}, "node": src_of(node)})
    if not cases:
        return 0
    # is the pair taken from the socket?  (a pair handed in by the caller -- e.g. split from a URI -- is what it is)
    from_socket = {f for cs in cases for f, (av, v) in cs["state"].items() if any(k.startswith("extra:") for k in F.reads(av))}
    if not from_socket:
        ctx.note("%s fills %s from something other than the socket's names: not analysed" % (wfi.short, fields))
        return 0
    # the scheme the same remote reports
    sfi = prog.lookup_method(sci.qn, "scheme")
    scheme_expr = None
    if sfi is not None:
        souts = [o for o in ex.run(sfi) if o.normal]
        if len(souts) == 1 and souts[0].end is not None and souts[0].end[0] == "return" and souts[0].end[1] is not None and not souts[0].conds():
            scheme_expr = F.abstract(souts[0].end[1])
    else:
        a_, c_ = prog.class_attr(sci.qn, "scheme")
        scheme_expr = a_
    ctx.need(scheme_expr is not None, "%s: the scheme of the remote is not a class constant or an unconditional accessor" % sci.qn)
    # objects the facts are read through: self.<attr>.<name> with <attr> set from a constructor argument
    through = {}
    for k in list(F.names):
        parts = k.split(".")
        if len(parts) == 3 and parts[0] == "self" and not k.endswith("()"):
            through.setdefault(parts[1], set()).add(parts[2])
    ctx.need(len(through) <= 1, "%s reads class-level facts through several objects (%s): outside the rule's vocabulary" % (wfi.short, sorted(through)))
    contexts = [None]
    attr = None
    if through:
        attr = next(iter(through))
        ks = _context_classes(prog, sci, attr)
        ctx.need(ks, "%s: the classes of self.%s cannot be determined from the constructions of %s" % (wfi.short, attr, sci.qn.split(".")[-1]))
        contexts = ks
    what = "the port a hostinfo pair denotes under the remote's own scheme (its port, or the scheme's default when left out) is the port of the socket"
    bad = None
    n = 0
    used_contexts = []
    for K in contexts:
        facts0 = {}
        if K is not None:
            skip = False
            for name in through[attr]:
                aexpr, aci = prog.class_attr(K, name)
                if aexpr is None:
                    skip = True  # an abstract base that does not define the attribute is never the context itself
                    break
                try:
                    facts0["self.%s.%s" % (attr, name)] = ev.ev(aexpr, aci.module, {})
                except (NormError, EvalRaised) as ex_:
                    raise AnalysisError("C16.i: %s.%s is outside the evaluator's vocabulary: %s" % (K, name, ex_))
            if skip:
                continue
        used_contexts.append(K)
        try:
            scheme = ev.ev(scheme_expr, sci.module, F.env_of(facts0))
        except (NormError, EvalRaised) as ex_:
            raise AnalysisError("C16.i: the scheme of %s%s is outside the evaluator's vocabulary: %s" % (sci.qn, " created by %s" % K if K else "", ex_))
        ctx.need(scheme in DEFAULT_PORTS, "C16.i: %r is not a CoAP scheme with a known default port" % (scheme,))
        for server in (False, True):
            for sni in (None, "sni.example"):
                for lp in _SOCK_PORTS:
                    for rp in _SOCK_PORTS:
                        if lp != rp and lp != _SOCK_PORTS[0] and rp != _SOCK_PORTS[0]:
                            continue  # every port on each side, against one fixed port on the other
                        facts = dict(facts0)
                        facts.update({"extra:sockname": ("2001:db8::2", lp, 0, 0), "extra:peername": ("2001:db8::1", rp, 0, 0), "self._local_is_server": server,
                                      "extra:ssl_object": None if sni is None else "<ssl object>", "extra:ssl_object.indicated_server_name": sni})
                        env = F.env_of(facts)
                        hit = 0
                        for cs in cases:
                            if not F.applies(cs["conds"], facts, env, (), "C16.i: %s" % wfi.short):
                                continue
                            hit += 1
                            for side, f in pair.items():
                                if f not in cs["state"] or f not in from_socket:
                                    continue
                                av, v = cs["state"][f]
                                try:
                                    got = ev.ev(av, wfi.module, env)
                                except EvalRaised as ex_:
                                    got = "<raises %r>" % (ex_.exc,)
                                except NormError as ex_:
                                    raise AnalysisError("C16.i: %s: the value of %s `%s` is outside the evaluator's vocabulary: %s" % (wfi.short, f, txt(v, 100), ex_))
                                n += 1
                                actual = lp if side == "sockname" else rp
                                ok = isinstance(got, (tuple, list)) and len(got) == 2 and (got[1] if got[1] is not None else DEFAULT_PORTS[scheme]) == actual
                                if not ok and bad is None:
                                    bad = (cs, "%s of a %s remote%s with socket port %d is %r: that denotes port %s" % (
                                        f, scheme, (" created by %s" % K.split(".")[-1]) if K else "", actual, got,
                                        (got[1] if got[1] is not None else "%d, the default of %s" % (DEFAULT_PORTS[scheme], scheme)) if isinstance(got, (tuple, list)) and len(got) == 2 else "?"))
                        ctx.need(hit > 0, "%s: no path for the scenario %s" % (wfi.short, sorted(facts.items(), key=str)))
    ctx.need(n > 0, "%s: nothing evaluated" % wfi.short)
    ctx.ob(what, bad is None, wfi, bad[0]["node"] if bad else cases[0]["node"], detail=bad[1] if bad else "%d evaluation(s) over the contexts %s" % (n, [k.split(".")[-1] if k else None for k in used_contexts]),
           construct="%s: port of the stored hostinfo pairs" % wfi.short)
    return 1



# ---------------------------------------------------------------------------
# C16.j -- the options hold exactly the text they are given

# percent-decoded segments / host names as set_request_uri stores them: plain, reserved characters, text that is not in
# a Unicode normalisation form (combining sequences, singleton decompositions, compatibility ideographs and ligatures),
# mixed case, white space, characters outside the BMP
_TEXT_SAMPLES = ("", "a", "temp", "A/b?c&d=e#f%g", "\u00e9", "e\u0301", "A\u030a", "\u00c5", "\u212b", "\u2126", "\uf900", "\ufb01", "n\u0303",
                 " x ", "\u4e16\u754c", "\U0001f600", "%41", "\u1e9b\u0323", "\u0130", "\u017f")


@R.clause("C16.j", "Uri-Host / Uri-Path / Uri-Query options hold exactly the text stored into them (no normalisation, folding or trimming on the way in or out), locally and on the wire")
def j_options_verbatim(ctx):
    """Added after an independently written breaking change made StringOption.value a property whose setter stores the NFC
    form: set_request_uri / get_request_uri were untouched, but the options no longer were the percent-decoded segments,
    and URIs that differ in a segment's normalisation form collapsed onto one option set.  Necessary condition: both
    conversions go through the option objects, so for the three options the value read back (from the option object, from
    the Options property the two functions use, and after a trip through the wire form) is the text stored, and the wire
    form is its UTF-8.  Decided by running the repository's own classes in the checker's interpreter (the one of C01, whose
    codec clause C01.e decides the same condition for all value formats) on a sample set -- nothing about the spelling of
    the classes is assumed."""
    from . import c01
    K = c01.K
    I = c01.interp(ctx)
    ON = c01.g_(I, "numbers.optionnumbers", "OptionNumber")
    Options = c01.g_(I, "options", "Options")
    n = 0
    for number, prop, plural in ((3, "uri_host", False), (11, "uri_path", True), (15, "uri_query", True)):
        num = I.call(ON, [number], {})
        fmt = I.getattr(num, "format")
        fi = None
        rows = []
        for s_ in _TEXT_SAMPLES:
            raw = s_.encode("utf-8")

            def direct():
                o = I.call(fmt, [num, s_], {})
                return I.getattr(o, "value"), bytes(I.call(I.getattr(o, "encode"), [], {}))

            def wire():
                o = I.call(fmt, [num], {})
                I.call(I.getattr(o, "decode"), [raw], {})
                return I.getattr(o, "value")

            def through_options():
                opt = I.call(Options, [], {})
                I.setattr(opt, prop, (s_, s_ + "x") if plural else s_)
                v = I.getattr(opt, prop)
                return tuple(v) if plural else v
            r = K.attempt(I, direct)
            rows.append(("option %d created with %a" % (number, s_), "%a, wire form %s" % (r.value[0], r.value[1].hex()) if r.ok else r.describe(), "%a, wire form %s" % (s_, raw.hex())))
            r = K.attempt(I, wire)
            rows.append(("option %d read from %s" % (number, raw.hex()), "%a" % (r.value,) if r.ok else r.describe(), "%a" % (s_,)))
            r = K.attempt(I, through_options)
            rows.append(("opt.%s = %a; opt.%s" % (prop, (s_, s_ + "x") if plural else s_, prop), "%a" % (r.value,) if r.ok else r.describe(), "%a" % ((s_, s_ + "x") if plural else s_,)))
            n += 3
        df = None
        for what, got, want in rows:
            if got != want:
                df = "%s: got %s, expected %s" % (what, got, want)
                break
        # location: the constructor (first method) of the option's value format class, when the model knows it
        ci = ctx.prog.classes.get(getattr(fmt, "qn", None))
        while ci is not None and not ci.methods:
            ci = next((ctx.prog.classes[b] for b in ctx.prog.mro(ci.qn)[1:] if b in ctx.prog.classes and ctx.prog.classes[b].methods), None)
        fi = None if ci is None else ci.methods.get("__init__") or sorted(ci.methods.values(), key=lambda f: f.node.lineno)[0]
        ctx.ob("opt.%s is exactly the text stored (value, Options property and wire form)" % prop, df is None, fi, fi.node if fi is not None else None,
               detail=df, construct="opt.%s verbatim" % prop)
    ctx.floor("evaluations of string-valued Uri-* options", n, 100)



# ---------------------------------------------------------------------------
# C16.k -- acceptable URIs are accepted

# URIs with none of the documented defects (scheme present, no fragment; CoAP: host present, no user-info, port absent
# or numeric, every escape complete and valid UTF-8), covering what the property quantifies over: names, IPv4 and
# bracketed IPv6 literals with and without zone identifier (spelled the way hostinfo / get_request_uri spell them, and
# with the RFC 6874 escape) and port, mixed case, reserved characters and empty segments in path and query, escapes.
ACCEPTABLE_URIS = (
    "coap://example.com", "coap://example.com/", "coap://Example.COM:5683/a/b?c=d", "coaps://198.51.100.7:61616/.well-known/core?rt=x*",
    "coap+tcp://[2001:db8::1]/x", "coaps+tcp://[2001:db8::1]:5684/x//y/?a&&b", "coap://[fe80::1%eth0]/x", "coap://[fe80::1%lo]:5683/",
    "coap://[fe80::abcd%wlan0]", "coap://[fe80::1%25eth0]/x", "coap+ws://h/a;b/c=d?x=y;z", "coaps+ws://h/%2F%25%C3%A9?%26=%3D",
    "coap://h/a+b/a:b@c/~._-!$'()*,", "coap://xn--bcher-kva.example/b\u00fccher?\u20ac", "coap://h?q", "http://example.com/x?y=z", "coap://b%C3%BCcher.example/x",
)


def _acceptable(w, coap):
    """The reference reading of "acceptable" (checker's own urllib; never the repository's code)."""
    try:
        u = _up.urlparse(w)
        u.port
        for x in u.path.split("/") + u.query.split("&") + [u.hostname or ""]:
            _up.unquote(x, errors="strict")
    except ValueError:
        return None
    if not u.scheme or u.fragment:
        return None
    if u.scheme in coap and (not u.hostname or u.username is not None or u.password is not None):
        return None
    return u


class _TextEvaluator(Evaluator):
    """Evaluator that also runs regular expressions: `re.compile(<constant>)` (also as a module-level constant) and the
    module-level `re.search / match / fullmatch / findall` are evaluated by the checker's own `re` on the pattern text,
    the methods of the resulting pattern / match objects likewise.  Exact by construction (same pattern language)."""

    _FUNCS = ("compile", "search", "match", "fullmatch", "findall")
    _PMETH = ("search", "match", "fullmatch", "findall")
    _MMETH = ("start", "end", "span", "group", "groups", "groupdict")

    def _call(self, e, module, env):
        import re as _re
        if not (any(isinstance(a, ast.Starred) for a in e.args) or any(k.arg is None for k in e.keywords)):
            f = e.func
            fn = None
            q = qual_name(self.prog, module, f) if chain(f) else None
            if q is not None and q.startswith("re.") and q[3:] in self._FUNCS:
                fn = getattr(_re, q[3:])
            elif isinstance(f, ast.Attribute) and f.attr in self._PMETH + self._MMETH:
                try:
                    recv = self._ev(f.value, module, env)
                except NormError:
                    recv = None
                if (isinstance(recv, _re.Pattern) and f.attr in self._PMETH) or (isinstance(recv, _re.Match) and f.attr in self._MMETH):
                    fn = getattr(recv, f.attr)
            if fn is not None:
                args = [self._ev(a, module, env) for a in e.args]
                kw = {k.arg: self._ev(k.value, module, env) for k in e.keywords}
                if not all(isinstance(a, (str, int, _re.Pattern)) for a in args + list(kw.values())):
                    raise NormError("regular expression applied to a value of the wrong kind")
                return fn(*args, **kw)
        return Evaluator._call(self, e, module, env)


@R.clause("C16.k", "a URI with none of the documented defects is accepted: no rejecting path of set_request_uri applies to it")
def k_accepts(ctx):
    """Added after an independently written breaking change rejected every '%' not followed by two hex digits -- tested on
    the whole URI text, so the zone identifier of a link-local literal ('[fe80::1%eth0]', the spelling hostinfo and
    get_request_uri produce) made the URI "malformed".  Necessary condition ("rejected with the documented URL errors and
    nothing else" / "for every CoAP URI ... decomposing"): the URIs set_request_uri refuses by a test of its own are
    those with a documented defect.  Decided by evaluation, not by the shape of the tests: every path condition of every
    outcome that raises outside an exception handler is evaluated (components of urlparse(uri) as the checker's urllib
    delivers them, everything else -- module constants, regular expressions, helper predicates the executor has expanded
    -- by the evaluator) on acceptable URIs; an outcome all of whose conditions hold for one of them is a rejection of an
    acceptable URI.  A condition outside the evaluator's vocabulary leaves that (URI, outcome) pair undecided (noted; the
    escape analysis of C16.a still refuses what it cannot resolve), so no spelling of the existing tests can be
    reported: an evaluated condition is the condition's own truth on that URI."""
    M = _model(ctx)
    fi = M.fi
    ev = _TextEvaluator(ctx.prog)
    rejecting = [o for o in M.plain() if not o.normal and o.end is not None and o.end[0] == "raise"]
    ctx.floor("outcomes of set_request_uri that reject by a test of their own", len(rejecting), 4)
    bad = {}
    decided = undecided = 0
    for w in ACCEPTABLE_URIS:
        u = _acceptable(w, M.coap)
        ctx.need(u is not None, "the rule's own witness %r is not an acceptable URI for the reference reading" % w)

        def close(e):
            def fn(n):
                c = M.comp(n)
                if c is not None and c in ("scheme", "netloc", "path", "params", "query", "fragment", "hostname", "username", "password", "port"):
                    return ast.Constant(value=getattr(u, c))
                return None
            return rewrite(e, fn)
        env = {M.uri: w}
        for k, o in enumerate(rejecting):
            verdict = True
            for e, pol in o.conds():
                try:
                    v = bool(ev.ev(close(e), fi.module, env))
                except (NormError, EvalRaised):
                    verdict = None
                    break
                if v != pol:
                    verdict = False
                    break
            if verdict is None:
                undecided += 1
                continue
            decided += 1
            if verdict and k not in bad:
                bad[k] = w
    ctx.floor("(acceptable URI, rejecting outcome) pairs decided by evaluation", decided, len(ACCEPTABLE_URIS))
    if undecided:
        ctx.note("C16.k: %d (URI, rejecting outcome) pair(s) left undecided: a path condition is outside the evaluator's vocabulary" % undecided)
    for k, o in enumerate(rejecting):
        node = o.end[2] if o.end[2] is not None else fi.node
        ctx.ob("a rejecting path of set_request_uri applies to no URI without a documented defect", k not in bad, fi, node,
               detail=None if k not in bad else "%r is rejected with %s on the path: %s" % (bad[k], (o.end[1] or "?").split(".")[-1], o.describe()))


F_M = "aiocoap/message.py"
F_U = "aiocoap/util/__init__.py"
F_Q = "aiocoap/util/uri.py"

# C16.a (on the unrepaired tree these are masked by finding F6; run the thorough tier against the repaired copy)
R.seed("C16.a", F_M, "        except UnicodeError as e:\n            raise error.MalformedUrlError(\n                \"Percent encoded strings in CoAP URIs need", "        except UnicodeEncodeError as e:\n            raise error.MalformedUrlError(\n                \"Percent encoded strings in CoAP URIs need", "wrong Unicode error class: non-UTF-8 escapes leave as UnicodeDecodeError")
R.seed("C16.a", F_M, "        try:\n            parsed = urllib.parse.urlparse(uri)\n        except ValueError as e:\n            raise error.MalformedUrlError from e\n", "        parsed = urllib.parse.urlparse(uri)\n", "urlparse's ValueError (e.g. 'coap://[::1') escapes")
R.seed("C16.a", F_M, "        try:\n            _ = parsed.port\n        except ValueError as e:\n            raise error.MalformedUrlError(\"Port must be numeric\") from e\n", "        _ = parsed.port\n", "non-numeric port leaves as plain ValueError")
R.seed("C16.a", F_M, "            raise error.MalformedUrlError(\"CoAP URIs need a hostname\")", "            raise ValueError(\"CoAP URIs need a hostname\")", "undocumented exception class")
R.seed("C16.a", F_M, "            except UnicodeError as e:\n                raise error.MalformedUrlError(\n                    \"Percent encoded strings in CoAP URI hosts", "            except KeyError as e:\n                raise error.MalformedUrlError(\n                    \"Percent encoded strings in CoAP URI hosts", "host escapes no longer converted")
# C16.b
R.seed("C16.b", F_M, "        if parsed.fragment:\n            raise error.MalformedUrlError(\n                \"Fragment identifiers can not be set on a request URI\"\n            )\n", "", "fragment guard dropped")
R.seed("C16.b", F_M, "        if parsed.username or parsed.password:\n            raise error.MalformedUrlError(", "        if parsed.username and parsed.password:\n            raise error.MalformedUrlError(", "user name alone is accepted")
R.seed("C16.b", F_M, "        if not parsed.hostname:\n            raise error.MalformedUrlError(\"CoAP URIs need a hostname\")\n", "", "host guard dropped")
R.seed("C16.b", F_M, "        if not parsed.scheme:\n            raise error.IncompleteUrlError()\n\n        if parsed.scheme not in coap_schemes:\n            self.opt.proxy_uri = uri\n            return\n", "        if parsed.scheme not in coap_schemes:\n            self.opt.proxy_uri = uri\n            return\n", "relative reference becomes a Proxy-Uri")
R.seed("C16.b", F_M, "            self.opt.proxy_uri = uri\n            return\n", "            self.opt.proxy_uri = uri\n", "non-CoAP scheme falls through into the Uri-* stores")
R.seed("C16.b", F_M, "        try:\n            _ = parsed.port\n        except ValueError as e:\n            raise error.MalformedUrlError(\"Port must be numeric\") from e\n", "", "port never validated")
R.seed("C16.b", F_M, "        if not parsed.scheme:\n            raise error.IncompleteUrlError()\n", "        if not parsed.scheme:\n            raise error.MalformedUrlError()\n", "missing scheme reported with the wrong documented class")
# C16.c
R.seed("C16.c", F_M, "_quote_for_path = quote_factory(unreserved + sub_delims + \":@\")", "_quote_for_path = quote_factory(unreserved + sub_delims + \":@/\")", "'/' safe in path segments: a/b and [a, b] collapse")
R.seed("C16.c", F_M, "\"\".join(c for c in sub_delims if c != \"&\") + \":@/?\"", "sub_delims + \":@/?\"", "'&' safe in query segments")
R.seed("C16.c", F_M, "                    for x in parsed.query.split(\"&\")", "                    for x in parsed.query.split(\";\")", "query split on ';'")
R.seed("C16.c", F_M, "                    for x in parsed.path.split(\"/\")[1:]", "                    for x in parsed.path.split(\"/\")", "leading empty element kept")
R.seed("C16.c", F_M, "path = \"\".join(\"/\" + _quote_for_path(p) for p in path) or \"/\"", "path = \"\".join(\"/\" + _quote_for_query(p) for p in path) or \"/\"", "path segments quoted with the query function ('/' and '?' safe)")
R.seed("C16.c", F_Q, "unreserved = string.ascii_letters + string.digits + \"-._~\"", "unreserved = string.ascii_letters + string.digits + \"-._~%\"", "'%' never escaped")
R.seed("C16.c", F_Q, "chr(x) if x in safe_set else \"%%%02X\" % x for x in encoded", "chr(x) if x not in safe_set else \"%%%02X\" % x for x in encoded", "quote function inverted")
R.seed("C16.c", F_M, "            if parsed.path not in (\"\", \"/\"):", "            if parsed.path not in (\"\",):", "'coap://h/' yields one empty Uri-Path")
R.seed("C16.c", F_M, "        query = \"&\".join(_quote_for_query(q) for q in query)", "        query = \";\".join(_quote_for_query(q) for q in query)", "writer joins with ';'")
# C16.d
R.seed("C16.d", F_M, "                ).translate(_ascii_lowercase)\n", "                )\n", "host not lower-cased")
R.seed("C16.d", F_M, "_ascii_lowercase = str.maketrans(string.ascii_uppercase, string.ascii_lowercase)", "_ascii_lowercase = str.maketrans(string.ascii_lowercase, string.ascii_uppercase)", "table maps the wrong way")
R.seed("C16.d", F_M, "            parsed.hostname.count(\".\") == 3\n", "            parsed.hostname.count(\".\") >= 3\n", "1.2.3.4.5 treated as IPv4 literal")
R.seed("C16.d", F_M, "        if set_uri_host and not is_ip_literal:", "        if set_uri_host and is_ip_literal:", "Uri-Host sent for literals only")
R.seed("C16.d", F_M, "self.remote = UndecidedRemote(parsed.scheme, parsed.netloc)", "self.remote = UndecidedRemote(parsed.scheme, parsed.hostname)", "port lost from the remote")
R.seed("C16.d", F_M, "                self.opt.uri_host = urllib.parse.unquote(\n                    parsed.hostname, errors=\"strict\"\n                )", "                self.opt.uri_host = urllib.parse.unquote(\n                    parsed.hostname\n                )", "invalid UTF-8 in the host replaced instead of rejected")
# C16.e
R.seed("C16.e", F_U, "    if \":\" in host and not (host.startswith(\"[\") and host.endswith(\"]\")):", "    if \":\" in host and not host.startswith(\"[\"):", "weaker already-bracketed test")
R.seed("C16.e", F_U, "    if \":\" in host and not (host.startswith(\"[\") and host.endswith(\"]\")):", "    if \":\" in host:", "double bracketing")
R.seed("C16.e", F_U, "        return pseudoparsed.hostname, pseudoparsed.port", "        return pseudoparsed.netloc, pseudoparsed.port", "split keeps brackets and port in the host")
R.seed("C16.e", F_M, "            hostinfo = hostportjoin(host, port)\n", "            hostinfo = hostportjoin(host)\n", "port dropped when normalising a literal")
R.seed("C16.e", F_M, "            host = str(ip)\n", "            host = str(host)\n", "literal not normalised through ipaddress")

R.seed("C16.c", "aiocoap/message.py", "                    for x in parsed.path.split(\"/\")[1:]", "                    for x in parsed.path.lstrip(\"/\").split(\"/\")", "all leading slashes stripped: //a and /a collapse")

R.seed("C16.f", "aiocoap/message.py", "urllib.parse.uses_netloc.extend(coap_schemes)\n", "urllib.parse.uses_netloc.extend(coap_schemes)\nurllib.parse.uses_params.extend(coap_schemes)\n", "';params' split off the last path segment and dropped")
_QF_OLD = ("def quote_factory(safe_characters):\n    \"\"\"Return a quote function that escapes all characters not in the\n    safe_characters iterable.\"\"\"\n"
           "    safe_set = set(ord(x) for x in safe_characters)\n    if any(c >= 128 for c in safe_set):\n        raise ValueError(\"quote_factory does not support non-ASCII safe characters\")\n\n"
           "    def quote(input_string):\n        encoded = input_string.encode(\"utf8\")\n        return \"\".join(chr(x) if x in safe_set else \"%%%02X\" % x for x in encoded)\n\n    return quote\n")
_QF_HEAD = ("    safe_set = set(ord(x) for x in safe_characters)\n    if any(c >= 128 for c in safe_set):\n        raise ValueError(\"quote_factory does not support non-ASCII safe characters\")\n\n")
R.seed("C16.h", F_Q, _QF_OLD,
       "def quote_factory(safe_characters, _memo={}):\n" + _QF_HEAD +
       "    def quote(input_string):\n        if input_string not in _memo:\n            encoded = input_string.encode(\"utf8\")\n"
       "            _memo[input_string] = \"\".join(chr(x) if x in safe_set else \"%%%02X\" % x for x in encoded)\n        return _memo[input_string]\n\n    return quote\n",
       "memo in a mutable default argument of the factory, keyed by the input only: shared between the path and the query quoter")
R.seed("C16.h", F_Q, _QF_OLD,
       "_QUOTED = {}\n\n\ndef quote_factory(safe_characters):\n" + _QF_HEAD +
       "    def quote(input_string):\n        try:\n            return _QUOTED[input_string]\n        except KeyError:\n            pass\n        encoded = input_string.encode(\"utf8\")\n"
       "        return _QUOTED.setdefault(input_string, \"\".join(chr(x) if x in safe_set else \"%%%02X\" % x for x in encoded))\n\n    return quote\n",
       "module-level memo (try / except KeyError, setdefault) keyed by the input only")
R.seed("C16.c", F_Q, _QF_OLD,
       "def quote_factory(safe_characters):\n" + _QF_HEAD +
       "    memo = {}\n\n    def quote(input_string):\n        if input_string not in memo:\n            encoded = input_string.encode(\"utf8\")\n"
       "            memo[input_string] = \"\".join(chr(x) if x in safe_set else \"%%%02x\" % x for x in encoded)\n        return memo[input_string]\n\n    return quote\n",
       "a memo private to each quote function (harmless) with lower-case escapes (the fault): decided by interpretation")

# seeds for the generalised (evaluation / outcome based) clauses
R.seed("C16.c", F_M, "                    urllib.parse.unquote(x, errors=\"strict\")\n                    for x in parsed.query.split(\"&\")", "                    urllib.parse.unquote_plus(x, errors=\"strict\")\n                    for x in parsed.query.split(\"&\")", "'+' in a query item decoded as a space")
R.seed("C16.c", F_M, "                    for x in parsed.query.split(\"&\")\n", "                    for x in parsed.query.split(\"&\") if x\n", "empty query items dropped: a&&b and a&b collapse")
R.seed("C16.c", F_M, "        query = \"&\".join(_quote_for_query(q) for q in query)", "        query = \"&\".join(_quote_for_query(q) for q in query if q)", "writer drops empty query items")
R.seed("C16.c", F_Q, "\"%%%02X\" % x for x in encoded", "\"%%%X\" % x for x in encoded", "one-digit escapes for bytes below 0x10")
R.seed("C16.d", F_M, "                ).translate(_ascii_lowercase)\n", "                ).lower()\n", "Unicode lower-casing instead of the ASCII table")
R.seed("C16.d", F_M, "x != \"\" and len(x) <= 3 and int(x) <= 255", "x != \"\" and len(x) <= 3 and int(x) <= 256", "1.2.3.256 treated as an IPv4 literal")
R.seed("C16.d", F_M, "all(c in \"0123456789.\" for c in parsed.hostname)", "any(c in \"0123456789.\" for c in parsed.hostname)", "digits test weakened to any()")
R.seed("C16.b", F_M, "            raise error.MalformedUrlError(\"Port must be numeric\") from e\n", "            pass\n", "non-numeric port silently accepted")
R.seed("C16.b", F_M, "        if not parsed.hostname:\n            raise error.MalformedUrlError(\"CoAP URIs need a hostname\")\n", "        self.opt.uri_path = []\n        if not parsed.hostname:\n            raise error.MalformedUrlError(\"CoAP URIs need a hostname\")\n", "options modified before the host is checked")
R.seed("C16.e", F_U, "    if port is None:\n        hostinfo = host", "    if not port:\n        hostinfo = host", "port 0 dropped")
R.seed("C16.e", F_M, "        if \"[\" in hostinfo:\n            (host, port)", "        if hostinfo.startswith(\"[v\"):\n            (host, port)", "only IPvFuture literals normalised")

# seeds for the loop vocabulary of the executor (second hardening pass): each combines a behaviour-preserving respelling
# (several appends per iteration, conditional appends, a precomputed table, string accumulation) with one fault
_W_PATH = "        path = \"\".join(\"/\" + _quote_for_path(p) for p in path) or \"/\"\n"
_W_QUERY = "        query = \"&\".join(_quote_for_query(q) for q in query)\n"
R.seed("C16.c", F_M, _W_PATH, "        parts = []\n        for p in path:\n            parts.append(_quote_for_path(p))\n            parts.append(\"/\")\n        path = \"\".join(parts) or \"/\"\n",
       "two appends per iteration, separator after the segment instead of before it")
R.seed("C16.c", F_M, _W_PATH, "        parts = []\n        for p in path:\n            parts.append(\"/\")\n            parts.append(_quote_for_path(p))\n        path = \"\".join(parts) if len(parts) > 2 else \"/\"\n",
       "list of parts joined, but a single segment collapses to '/'")
R.seed("C16.c", F_M, _W_PATH, "        segs = path\n        path = \"\"\n        for p in segs:\n            path += \"/\" + _quote_for_path(p)\n        path = path.rstrip(\"/\") or \"/\"\n",
       "string accumulation, trailing empty segments stripped from the composed text")
R.seed("C16.c", F_M, _W_QUERY, "        pieces = []\n        for i, q in enumerate(query):\n            if i > 1:\n                pieces.append(\"&\")\n            pieces.append(_quote_for_query(q))\n        query = \"\".join(pieces)\n",
       "conditional append of the separator, off by one")
# (fourth pass) a handler that completes normally BEFORE an accumulation loop (`hasattr` respelled as try / except
# AttributeError) is not an effect of the loop: the loop keeps its closed form on the handler's path, and the fault is seen
R.seed("C16.c", F_M, _W_PATH, "        try:\n            path = self._original_request_path\n        except AttributeError:\n            pass\n        parts = []\n        for p in path:\n            parts.append(_quote_for_path(p))\n            parts.append(\"/\")\n        path = \"\".join(parts) or \"/\"\n",
       "try / except AttributeError with a normally completing handler before the loop; separator after the segment instead of before it")
R.seed("C16.c", F_M, _W_QUERY, "        try:\n            query = self._original_request_query\n        except AttributeError:\n            query = tuple(query)\n        pieces = []\n        for q in query:\n            if q:\n                pieces.append(_quote_for_query(q))\n        query = \"&\".join(pieces)\n",
       "normally completing handler before the loop; empty query items dropped by a conditional append")
R.seed("C16.c", F_Q, "    def quote(input_string):\n        encoded = input_string.encode(\"utf8\")\n        return \"\".join(chr(x) if x in safe_set else \"%%%02X\" % x for x in encoded)\n",
       "    table = []\n    for x in range(256):\n        if x in safe_set:\n            table.append(chr(x))\n        else:\n            table.append(\"%%%02x\" % x)\n\n    def quote(input_string):\n        return \"\".join([table[x] for x in input_string.encode(\"utf8\")])\n",
       "precomputed 256-entry table with lower-case escapes")
R.seed("C16.d", F_M, "        is_ip_literal = parsed.netloc.startswith(\"[\") or (\n            parsed.hostname.count(\".\") == 3\n            and all(c in \"0123456789.\" for c in parsed.hostname)\n",
       "        digits_and_dots = False\n        for c in parsed.hostname:\n            if c in \"0123456789.\":\n                digits_and_dots = True\n        is_ip_literal = parsed.netloc.startswith(\"[\") or (\n            parsed.hostname.count(\".\") == 3\n            and digits_and_dots\n",
       "flag loop without break: set when SOME character is a digit or dot")

# seeds for the clauses added in the fifth pass (authority composition, state of the quote functions, elided ports)
R.seed("C16.g", F_M, "                if local_is_server:\n                    multicast_netloc_override = self.remote.hostinfo_local\n", "                if not local_is_server:\n                    multicast_netloc_override = self.remote.hostinfo_local\n",
       "response to a group request: the local and the remote end of the responder's endpoint swapped")
R.seed("C16.g", F_M, "            if refmsg.remote.is_multicast:\n", "            if refmsg.remote.is_multicast and refmsg.opt.uri_host is None:\n",
       "a group request that names the group by Uri-Host keeps the group's authority: all responders collapse")
R.seed("C16.g", F_M, "            if local_is_server:\n                netloc = refmsg.remote.hostinfo_local\n", "            if not local_is_server:\n                netloc = refmsg.remote.hostinfo_local\n",
       "the server composes the URI from the client's address")
R.seed("C16.g", F_M, "                host = refmsg.opt.uri_host or host\n", "                host = host or refmsg.opt.uri_host\n", "Uri-Host never takes the place of the remote's host")
R.seed("C16.g", F_M, "                port = refmsg.opt.uri_port or port\n", "                port = refmsg.opt.uri_port\n", "the remote's port is lost when only Uri-Host is present")
R.seed("C16.g", F_M, "                escaped_host = quote_nonascii(host)\n", "                escaped_host = host\n", "non-ASCII Uri-Host reaches the URI unescaped")
R.seed("C16.g", F_M, "                escaped_host = quote_nonascii(host)\n", "                escaped_host = quote_factory(unreserved + sub_delims)(host)\n", "a reg-name quoter also applied to the IP literal taken from the remote: '[ff02::fd]' + Uri-Port composes 'ff02%3A%3Afd:8683'")
R.seed("C16.g", F_U, "chr(c) if c <= 127 else \"%%%02X\" % c for c in s.encode(\"utf8\")", "chr(c) if c <= 128 else \"%%%02X\" % c for c in s.encode(\"utf8\")", "quote_nonascii keeps the byte 0x80")
F_T = "aiocoap/transports/tcp.py"
R.seed("C16.i", F_T, "None if sockname[1] == self._ctx._default_port else sockname[1]", "None if sockname[1] == COAP_PORT else sockname[1]",
       "port 5683 elided whatever the scheme of the connection's context")
R.seed("C16.i", F_T, "None if sockname[1] == self._ctx._default_port else sockname[1]", "None if sockname[1] != self._ctx._default_port else sockname[1]", "elision inverted")
R.seed("C16.i", "aiocoap/transports/tls.py", "    _default_port = COAPS_PORT\n", "    _default_port = 5683\n", "the TLS contexts elide (and fill in) the port of the plain TCP scheme")
F_O = "aiocoap/optiontypes.py"
R.seed("C16.j", F_O, "    def __init__(self, number, value=\"\"):\n        self.value = value\n        self.number = number\n\n    def encode(self):\n        # FIXME",
       "    def __init__(self, number, value=\"\"):\n        self.value = value.strip()\n        self.number = number\n\n    def encode(self):\n        # FIXME", "string option values trimmed on construction: 'a%20' and 'a' collapse")
R.seed("C16.j", F_O, "        rawdata = self.value.encode(\"utf-8\")\n        return rawdata", "        rawdata = self.value.casefold().encode(\"utf-8\")\n        return rawdata", "string options case-folded on the wire: /A and /a reach the same resource")
R.seed("C16.j", F_O, "        self.value = rawdata.decode(\"utf-8\")", "        self.value = rawdata.decode(\"utf-8\", \"replace\").lower()", "received string options lower-cased")
R.seed("C16.g", F_U, "    return \"\".join(chr(c) if c <= 127 else \"%%%02X\" % c for c in s.encode(\"utf8\"))\n",
       "    return _quote_regname(s)\n\n\nfrom .uri import quote_factory, unreserved, sub_delims  # noqa: E402\n\n_quote_regname = quote_factory(unreserved + sub_delims + \"/?#[]@\")\n",
       "quote_nonascii delegates to a factory-built reg-name quoter: ':' and '%' of the unbracketed IPv6 literal hostportsplit delivers are escaped")
R.seed("C16.k", F_M, "        if parsed.username or parsed.password:\n            raise error.MalformedUrlError(", "        if parsed.username or parsed.password or \"%\" in parsed.netloc:\n            raise error.MalformedUrlError(",
       "any '%' in the authority refused: zone identifiers and escaped host names can not be addressed")
R.seed("C16.k", F_M, "        if not parsed.scheme:\n            raise error.IncompleteUrlError()\n", "        if not parsed.scheme or \"+\" in parsed.scheme:\n            raise error.IncompleteUrlError()\n",
       "scheme test too strict: coap+tcp / coap+ws URIs are refused as incomplete")
R.seed("C16.k", F_M, "        if not parsed.hostname:\n            raise error.MalformedUrlError(\"CoAP URIs need a hostname\")\n",
       "        if not parsed.hostname or (parsed.netloc.startswith(\"[\") and len(parsed.hostname.split(\"%\")) > 1):\n            raise error.MalformedUrlError(\"CoAP URIs need a hostname\")\n",
       "zoned IPv6 literals refused")

