"""C14 NSTART=1: one open confirmable exchange per peer, FIFO backlog, none forgotten."""

import ast

from ..rulekit import *

R = Rules(
    "C14",
    explanation=(
        "Structural clauses behind the invariant `remote in _backlogs <=> an exchange with that remote is active`, "
        "decided on every function of MessageManager that touches _active_exchanges or _backlogs: all of them are "
        "plain defs without await/yield (so the invariant only has to hold at function exits); the insertion of an "
        "exchange is preceded on every path by the existence of the backlog entry; every removal of an exchange is "
        "followed on every normal path by _continue_backlog(same remote), re-insertion, or removal of the backlog "
        "entry; send_message queues exactly the CONs whose remote has a backlog entry and sends everything else; "
        "enqueue and dequeue address opposite ends (FIFO); _continue_backlog sends the head only while no exchange "
        "with that remote is active and deletes only an empty entry; exchanges are started only from the guarded "
        "sites; a non-empty backlog is only dropped together with a dispatch_error for the same remote.  Liveness "
        "under arbitrary timing is not decided."
    ),
    rule_text="ownership / pairing rules over all writers of two fields, dominance and must-pass path rules on per-function CFGs",
)

MM = "messagemanager.MessageManager."
AX = "self._active_exchanges"
BL = "self._backlogs"


def pseudo(cfg, pattern, polarity=True):
    """Pseudo-nodes (branch outcomes) on which `pattern` has `polarity`."""
    out = []
    for n in cfg.nodes:
        if n.kind not in ("T", "F") or n.ast is None:
            continue
        pol = n.kind == "T"
        if match(pattern, n.ast) is not None and pol == polarity:
            out.append(n.id)
        else:
            from ..rulekit import _negated
            ne = _negated(n.ast)
            if ne is not None and match(pattern, ne) is not None and pol != polarity:
                out.append(n.id)
    return out


def mm_funcs(prog):
    ci = prog.cls("messagemanager.MessageManager")
    out = []
    for fi in prog.funcs.values():
        f = fi
        while f is not None and f.cls is None:
            f = f.parent
        if f is not None and f.cls is ci:
            out.append(fi)
    return out


def touches(fi, field):
    return any(chain(n) == field for n in ast.walk(fi.node) if isinstance(n, ast.Attribute))


@R.clause("C14.a", "invariant backlog entry <=> active exchange: atomic functions, entry created before the exchange, every removal compensated")
def a(ctx):
    funcs = [f for f in mm_funcs(ctx.prog) if touches(f, AX) or touches(f, BL)]
    ctx.floor("functions touching _active_exchanges/_backlogs", len(funcs), 7)
    for fi in funcs:
        writes = stores_to(fi.node, AX, nested=False) + stores_to(fi.node, BL, nested=False)
        if not writes:
            continue
        ctx.ob("%s mutates the tables atomically (plain def, no await/yield)" % fi.name, is_plain_sync(fi) or fi.name == "shutdown", fi, fi.node, construct="def " + fi.name)
    # shutdown is async: its writes must precede its first await
    sh = ctx.prog.func(MM + "shutdown")
    scfg = cfg_of(sh)
    awaits = [scfg.loc1(n) for n in walk_no_nested(sh.node) if isinstance(n, ast.Await)]
    for kind, n in stores_to(sh.node, AX, nested=False) + stores_to(sh.node, BL, nested=False):
        nid = scfg.loc1(n)
        ctx.ob("shutdown retires the tables before its first suspension point", not any(nid in scfg.reach({a}) for a in awaits), sh, n)

    # insertion side
    fi = ctx.prog.func(MM + "_add_exchange")
    m = params(fi)[0]
    cfg = cfg_of(fi)
    ins = [n for k, n in stores_to(fi.node, AX) if k == "setitem"]
    ctx.floor("exchange insertions in _add_exchange", len(ins), 1)
    est = pseudo(cfg, "%s.remote in self._backlogs" % m, True)
    for k, n in stores_to(fi.node, BL):
        if k == "setitem" and isinstance(n, ast.Assign) and match("self._backlogs[%s.remote]" % m, n.targets[0]) is not None:
            est.append(cfg.loc1(n))
    for n in ins:
        nid = cfg.loc1(n)
        ok = bool(est) and not cfg.exists_path(cfg.entry, nid, avoid=set(est))
        ctx.ob("an exchange is recorded only when the remote's backlog entry exists", ok, fi, n)
    # the created entry is an empty list
    for k, n in stores_to(fi.node, BL):
        if k == "setitem":
            ctx.ob("a fresh backlog entry is empty", isinstance(n, ast.Assign) and isinstance(n.value, ast.List) and not n.value.elts, fi, n)

    # removal side
    removals = []
    for f in mm_funcs(ctx.prog):
        for k, n in stores_to(f.node, AX, nested=False):
            if k in ("pop", "delitem", "popitem", "clear"):
                removals.append((f, k, n))
    ctx.floor("removal sites of _active_exchanges", len(removals), 2)
    from . import c03
    c03.retransmit_removes_exchange(ctx)
    for f, k, n in removals:
        cfg = cfg_of(f)
        nid = cfg.loc1(n)
        comp = []
        key = n.args[0] if (k == "pop" and n.args) else None
        keyr = resolve_local(f.node, key) if key is not None else None
        remote_expr = None
        kb = match("($r, $m)", keyr) if keyr is not None else None
        if kb:
            remote_expr = kb["r"]
        for c, b in find("self._continue_backlog($r)", f.node):
            if remote_expr is None or same(b["r"], remote_expr):
                comp.append(cfg.loc1(c))
        for k2, n2 in stores_to(f.node, AX, nested=False):
            if k2 == "setitem" and key is not None and isinstance(n2, ast.Assign) and isinstance(n2.targets[0], ast.Subscript) and same(n2.targets[0].slice, key):
                comp.append(cfg.loc1(n2))
        for k2, n2 in stores_to(f.node, BL, nested=False):
            if k2 in ("delitem", "pop"):
                r2 = n2.args[0] if k2 == "pop" else n2.targets[0].slice
                if remote_expr is None or same(r2, remote_expr):
                    comp.append(cfg.loc1(n2))
        ok = bool(comp) and cfg.must_pass(nid, comp)
        ctx.ob("removing an exchange is followed on every normal path by continuing or dropping that remote's backlog (or re-inserting the exchange)", ok, f, n,
               detail="%d compensating site(s)" % len(comp))
    # dispatch_error: removed keys are those of the reported remote, and its backlog is dropped for that remote
    de = ctx.prog.func(MM + "dispatch_error")
    rp = params(de)[1]
    dcfg = cfg_of(de)
    apps = list(find("$l.append($k)", de.node))
    for c, b in apps:
        if not isinstance(b["l"], ast.Name):
            continue
        nid = dcfg.loc1(c)
        gs = guard_exprs(dcfg, nid)
        ok = any(isinstance(e, ast.Compare) and isinstance(e.ops[0], ast.Eq) and pol and rp in names_in(e) for e, pol in gs)
        ctx.ob("dispatch_error selects only exchanges of the reported remote", ok, de, c)
    for k2, n2 in stores_to(de.node, BL, nested=False):
        r2 = n2.args[0] if k2 == "pop" else (n2.targets[0].slice if k2 == "delitem" else None)
        ctx.ob("dispatch_error drops the backlog of the reported remote", isinstance(r2, ast.Name) and r2.id == rp, de, n2)


@R.clause("C14.b", "send_message queues exactly the CONs whose remote has a backlog entry; everything else is sent at once")
def b(ctx):
    fi = ctx.prog.func(MM + "send_message")
    p = params(fi)
    m, mon = p[0], p[1]
    cfg = cfg_of(fi)
    enq = [(k, n) for k, n in stores_to(fi.node, BL) if k in ("append", "insert", "appendleft", "extend", "setitem")]
    ctx.floor("enqueue sites in send_message", len(enq), 1)
    for k, n in enq:
        nid = cfg.loc1(n)
        gs = guard_exprs(cfg, nid)
        alive, others = mtype_values(gs, "%s.mtype" % m, ("CON", "NON", "ACK", "RST"))
        ctx.ob("only confirmable messages are held back", alive == {"CON"}, fi, n, detail="mtype in %s" % sorted(alive))
        ctx.ob("a message is held back only when its remote has a backlog entry", guarded_by(cfg, nid, "%s.remote in self._backlogs" % m, True), fi, n)
        idx = n.func.value if isinstance(n, ast.Call) else None
        ctx.ob("the message is queued under its own remote", idx is not None and match("self._backlogs[%s.remote]" % m, idx) is not None, fi, n)
        arg = n.args[-1] if isinstance(n, ast.Call) and n.args else None
        tb = match("($a, $b)", arg) if arg is not None else None
        ctx.ob("what is queued is (message, error monitor)", tb is not None and isinstance(tb["a"], ast.Name) and tb["a"].id == m and isinstance(tb["b"], ast.Name) and tb["b"].id == mon, fi, n)
        extra = [e for e, pol in others if match("%s.remote in self._backlogs" % m, e) is None and match("%s.remote not in self._backlogs" % m, e) is None]
        ctx.ob("no further condition lets a CON bypass the queue", not extra, fi, n, detail=str([stmt_text(e) for e in extra]))
    sends = list(find("self._send_initially($*a)", fi.node))
    ctx.floor("_send_initially sites in send_message", len(sends), 1)
    hold = set(pseudo(cfg, "%s.remote in self._backlogs" % m, True))
    con_t = set(pseudo(cfg, "%s.mtype == CON" % m, True)) | set(pseudo(cfg, "%s.mtype is CON" % m, True))
    both = {h for h in hold if any(cfg.dominates(c, h) for c in con_t)}
    if not both:
        ctx.ob("send_message holds a CON back exactly when its remote has a backlog entry (membership, not emptiness)", False, fi, enq[0][1] if enq else fi.node,
               detail="no branch on `mtype == CON and remote in self._backlogs`")
        return
    for c, bnd in sends:
        nid = cfg.loc1(c)
        ctx.ob("nothing is transmitted at once when a CON's remote has an open exchange", nid not in cfg.reach(both), fi, c)
        a = bnd["a"]
        ctx.ob("the transmission carries the message and its error monitor", len(a) == 2 and isinstance(a[0], ast.Name) and a[0].id == m and isinstance(a[1], ast.Name) and a[1].id == mon, fi, c)
    # every normal path ends in a transmission, the queue, or the explicit No-Response suppression return
    sinks = [cfg.loc1(c) for c, _ in sends] + [cfg.loc1(n) for _, n in enq]
    rets = [cfg.loc1(n) for n in walk_no_nested(fi.node) if isinstance(n, ast.Return)]
    ctx.ob("every message that is not suppressed is either transmitted or queued", cfg.must_pass(cfg.entry, sinks + rets), fi, fi.node, construct="def send_message")


@R.clause("C14.c", "FIFO: enqueue and dequeue address opposite ends of the backlog")
def c(ctx):
    enq = []
    deq = []
    for f in mm_funcs(ctx.prog):
        for k, n in stores_to(f.node, BL, nested=False):
            if not (isinstance(n, ast.Call) and isinstance(n.func, ast.Attribute)):
                continue
            recv = resolve_local(f.node, n.func.value) if isinstance(n.func.value, ast.Name) else n.func.value
            if not (isinstance(recv, ast.Subscript) and chain(recv.value) == BL):
                continue  # operations on the table itself, not on a remote's queue
            a = n.func.attr
            if a in ("append", "insert", "appendleft"):
                end = "back" if a == "append" else ("front" if a == "appendleft" or (n.args and isinstance(n.args[0], ast.Constant) and n.args[0].value == 0) else "?")
                enq.append((f, n, end))
            elif a in ("pop", "popleft"):
                if a == "popleft" or (n.args and isinstance(n.args[0], ast.Constant) and n.args[0].value == 0):
                    end = "front"
                elif not n.args or (isinstance(n.args[0], ast.UnaryOp) and ast.unparse(n.args[0]) == "-1"):
                    end = "back"
                else:
                    end = "?"
                deq.append((f, n, end))
    ctx.floor("enqueue sites", len(enq), 1)
    ctx.floor("dequeue sites", len(deq), 1)
    ends = {e for _, _, e in enq}
    for f, n, end in deq:
        ok = end != "?" and "?" not in ends and len(ends) == 1 and end != next(iter(ends))
        ctx.ob("held-back messages are released in submission order (dequeue end opposite to enqueue end)", ok, f, n, detail="enqueue at %s, dequeue at %s" % (sorted(ends), end))


@R.clause("C14.d", "_continue_backlog sends the head only while no exchange with that remote is active; deletes only an empty entry")
def d(ctx):
    fi = ctx.prog.func(MM + "_continue_backlog")
    r = params(fi)[0]
    cfg = cfg_of(fi)
    ctx.ob("_continue_backlog is atomic", is_plain_sync(fi), fi, fi.node, construct="def _continue_backlog")
    sends = list(find("self._send_initially($*a)", fi.node))
    ctx.floor("_send_initially in _continue_backlog", len(sends), 1)

    def is_active_test(e):
        """any(<x> == remote for ... in self._active_exchanges[.keys()])"""
        if not (isinstance(e, ast.Call) and chain(e.func) == "any" and len(e.args) == 1 and isinstance(e.args[0], (ast.GeneratorExp, ast.ListComp))):
            return False
        g = e.args[0]
        if len(g.generators) != 1 or g.generators[0].ifs:
            return False
        it = g.generators[0].iter
        base = it.func.value if (isinstance(it, ast.Call) and isinstance(it.func, ast.Attribute) and it.func.attr == "keys") else it
        if chain(base) != AX:
            return False
        tgt = g.generators[0].target
        first = tgt.elts[0] if isinstance(tgt, ast.Tuple) and len(tgt.elts) == 2 else None
        elt = g.elt
        if not (isinstance(elt, ast.Compare) and len(elt.ops) == 1 and isinstance(elt.ops[0], ast.Eq)):
            return False
        sides = [elt.left, elt.comparators[0]]
        has_r = any(isinstance(x, ast.Name) and x.id == r for x in sides)
        has_first = first is not None and any(same(x, first) for x in sides)
        return has_r and has_first

    for c, bnd in sends:
        nid = cfg.loc1(c)
        gs = guard_exprs(cfg, nid)
        ok = any(is_active_test(e) and not pol for e, pol in gs)
        ctx.ob("a held-back message is released only while no exchange with that remote is active", ok, fi, c, detail="guards: %s" % [stmt_text(e) for e, _ in gs])
        # re-tested before every further release: the send lies on a cycle through the test
        tests = [n.id for n in cfg.nodes if n.kind == "test" and is_active_test(n.ast)]
        ctx.ob("the condition is re-evaluated before each further release", any(t in cfg.reach({nid}) and nid in cfg.reach({t}) for t in tests) or nid not in cfg.reach({nid}), fi, c)
        a = bnd["a"]
        pops = [n for k, n in stores_to(fi.node, BL) if k in ("pop", "popleft")]
        src_ok = False
        if len(a) == 2 and all(isinstance(x, ast.Name) for x in a):
            for w in writes_to_name(fi.node, a[0].id):
                if isinstance(w, ast.Assign) and isinstance(w.targets[0], ast.Tuple) and [getattr(e, "id", None) for e in w.targets[0].elts] == [a[0].id, a[1].id] and any(w.value is p for p in pops):
                    qv = w.value.func.value
                    if isinstance(qv, ast.Name):
                        qv = resolve_local(fi.node, qv)
                    src_ok = match("self._backlogs[%s]" % r, qv) is not None
        ctx.ob("what is released is the head of that remote's backlog together with its error monitor", src_ok, fi, c)
    dels = [(k, n) for k, n in stores_to(fi.node, BL) if k in ("delitem",) or (k == "pop" and chain(n.func.value) == BL)]
    ctx.floor("backlog entry deletions in _continue_backlog", len(dels), 1)

    def is_queue(e):
        if isinstance(e, ast.Name):
            e = resolve_local(fi.node, e)
        return match("self._backlogs[%s]" % r, e) is not None

    def says_empty(e, pol):
        if is_queue(e):
            return not pol
        if isinstance(e, ast.Compare) and len(e.ops) == 1:
            l, rr, op = e.left, e.comparators[0], e.ops[0]
            if is_queue(rr) and not is_queue(l):
                l, rr = rr, l
            if is_queue(l) and isinstance(rr, (ast.List, ast.Tuple)) and not rr.elts:
                return pol if isinstance(op, ast.Eq) else (not pol if isinstance(op, ast.NotEq) else False)
            ln_ = l if (isinstance(l, ast.Call) and chain(l.func) == "len" and len(l.args) == 1 and is_queue(l.args[0])) else None
            if ln_ is not None and isinstance(rr, ast.Constant) and rr.value == 0:
                if isinstance(op, ast.Eq):
                    return pol
                if isinstance(op, (ast.Gt, ast.NotEq)):
                    return not pol
        if isinstance(e, ast.Call) and chain(e.func) == "len" and len(e.args) == 1 and is_queue(e.args[0]):
            return not pol
        return False

    for k, n in dels:
        nid = cfg.loc1(n)
        gs = guard_exprs(cfg, nid)
        empty = any(says_empty(e, pol) for e, pol in gs)
        ctx.ob("the backlog entry is deleted only when it is empty", empty, fi, n, detail="guards: %s" % [stmt_text(e) for e, _ in gs])
        ctx.ob("the entry is deleted only while no exchange with that remote is active", any(is_active_test(e) and not pol for e, pol in gs), fi, n)
        ctx.ob("after deleting the entry nothing more is released", not (set(cfg.reach({nid})) & {cfg.loc1(c) for c, _ in sends}), fi, n)
    # each iteration either sends or deletes: from the loop's T pseudo node, every path back to the test or to exit passes a send or a delete
    heads = [n.id for n in cfg.nodes if n.kind == "F" and is_active_test(n.ast)]
    ctx.need(heads, "_continue_backlog: no loop on `not any(exchange with remote)`")
    acts = [cfg.loc1(c) for c, _ in sends] + [cfg.loc1(n) for _, n in dels]
    tests = [n.id for n in cfg.nodes if n.kind == "test" and is_active_test(n.ast)]
    for h in heads:
        r_ = cfg.reach({h}, avoid=set(acts), skip_labels=("exc",))
        ctx.ob("each round of the loop either releases a message or deletes the empty entry (no spinning)", not (set(tests) & r_) and cfg.exit not in r_, fi, cfg.nodes[h].ast)


@R.clause("C14.e", "exchanges are started only through the guarded sites")
def e(ctx):
    ae = []
    si = []
    for f in ctx.prog.funcs.values():
        for c in calls_in(f.node):
            cn = call_name(c) or ""
            if cn.endswith("._add_exchange"):
                ae.append((f, c))
            elif cn.endswith("._send_initially"):
                si.append((f, c))
    ctx.floor("_add_exchange call sites", len(ae), 1)
    for f, c in ae:
        ok = f.short == MM + "_send_initially"
        cfg = cfg_of(f)
        m = params(f)[0]
        alive, _ = mtype_values(guard_exprs(cfg, cfg.loc1(c)), "%s.mtype" % m, ("CON", "NON", "ACK", "RST"))
        ctx.ob("an exchange is started only by _send_initially and only for CON", ok and alive == {"CON"}, f, c)
        if ok:
            ctx.ob("the exchange is started for the message being sent", c.args and isinstance(c.args[0], ast.Name) and c.args[0].id == m, f, c)
    # the exchange is registered before the message is handed to the transport: a transport that reports a send
    # failure synchronously (udp6: error_received inside send()) must find the exchange it has to fail
    sf = ctx.prog.func(MM + "_send_initially")
    scfg = cfg_of(sf)
    tx = [scfg.loc1(c) for c in calls_in(sf.node) if (call_name(c) or "") in ("self._send_via_transport", "self.message_interface.send")]
    for f_, c_ in ae:
        if f_ is sf:
            ctx.ob("the exchange is registered before the message is handed to the transport", bool(tx) and all(not scfg.exists_path(t, scfg.loc1(c_)) for t in tx), sf, c_)
    ctx.floor("_send_initially call sites", len(si), 6)
    for f, c in si:
        if f.short in (MM + "send_message", MM + "_continue_backlog"):
            continue  # guarded by C14.b / C14.d
        arg = c.args[0] if c.args else None
        v = resolve_local(f.node, arg) if arg is not None else None
        ok = False
        why = stmt_text(v) if v is not None else "?"
        if isinstance(v, ast.Call) and (call_name(v) or "").split(".")[-1] == "Message":
            for kw in v.keywords:
                if kw.arg in ("_mtype", "mtype") and chain(kw.value) in ("ACK", "RST", "NON"):
                    ok = True
        if f.short == MM + "_deduplicate_message" and v is not None and match("self._recent_messages[$k]", v) is not None:
            ok = True  # stored reply to a request: an ACK by construction (C10.d)
        # no monitor passed => _send_initially's own assertion documents non-CON
        ctx.ob("other transmissions bypassing the queue carry ACK/RST/NON messages or a stored reply", ok and len(c.args) == 1 and not c.keywords, f, c, detail=why)


@R.clause("C14.f", "a non-empty backlog is dropped only together with dispatch_error for the same remote")
def f(ctx):
    n_del = 0
    for fi in mm_funcs(ctx.prog):
        dels = [(k, n) for k, n in stores_to(fi.node, BL, nested=False) if k == "delitem" or (k == "pop" and not isinstance(n.func.value, ast.Subscript)) or (k == "assign" and fi.name != "__init__") or k == "clear"]
        for k, n in dels:
            n_del += 1
            if fi.short == MM + "_continue_backlog":
                continue  # emptiness is checked in C14.d
            cfg = cfg_of(fi)
            nid = cfg.loc1(n)
            r = n.args[0] if k == "pop" else (n.targets[0].slice if k == "delitem" else None)
            calls = [(c, b) for c, b in find("self.token_manager.dispatch_error($e, $r)", fi.node)]
            ok = False
            for c, b in calls:
                cn = cfg.loc1(c)
                if r is not None and same(b["r"], r) and (cfg.must_pass(nid, [cn]) or cfg.dominates(cn, nid)):
                    ok = True
            ctx.ob("dropping a backlog fails its requests (dispatch_error for the same remote on every path)", ok, fi, n)
    ctx.floor("backlog deletions", n_del, 3)


@R.clause("C14.g", "an acknowledgement always ends the exchange ahead of the queue: every incoming ACK/RST reaches _remove_exchange (shared with C03.e)")
def g_shared(ctx):
    from . import c03
    c03.e(ctx)


@R.clause("C14.h", "when a backlog is dropped its requests really fail: the token manager fails every outstanding request of that remote, each through its own stopper (shared with C02.e)")
def h_shared(ctx):
    from . import c02
    c02.e(ctx)
    c02.j_forward(ctx)


F_MM = "aiocoap/messagemanager.py"
R.seed("C14.a", F_MM, "        self.log.debug(\"Exchange removed, message ID: %d.\", message.mid)\n\n        self._continue_backlog(message.remote)\n", "        self.log.debug(\"Exchange removed, message ID: %d.\", message.mid)\n", "backlog never continued")
R.seed("C14.a", F_MM, "        if message.remote not in self._backlogs:\n            self._backlogs[message.remote] = []\n", "", "no backlog entry for the new exchange")
R.seed("C14.a", F_MM, "        self._backlogs.pop(remote, ())\n", "", "dispatch_error leaves the backlog behind")
R.seed("C14.a", F_MM, "        if message.mtype is RST:\n            messageerror_monitor()\n", "        if message.mtype is RST:\n            messageerror_monitor()\n            return\n", "RST does not continue the backlog")
R.seed("C14.b", F_MM, "        if message.mtype == CON and message.remote in self._backlogs:", "        if message.remote in self._backlogs:", "NONs queued too")
R.seed("C14.b", F_MM, "        if message.mtype == CON and message.remote in self._backlogs:", "        if message.mtype == CON and message.remote in self._active_exchanges:", "wrong table")
R.seed("C14.b", F_MM, "            self._backlogs[message.remote].append((message, messageerror_monitor))\n        else:\n            self._send_initially(message, messageerror_monitor)", "            self._backlogs[message.remote].append((message, messageerror_monitor))\n        self._send_initially(message, messageerror_monitor)", "sent although queued")
R.seed("C14.c", F_MM, "self._backlogs[remote].pop(0)", "self._backlogs[remote].pop()", "LIFO")
R.seed("C14.b", F_MM, "        if message.mtype == CON and message.remote in self._backlogs:", "        if message.mtype == CON and self._backlogs.get(message.remote):", "truthiness instead of membership: an empty backlog entry (exchange open, nothing queued yet) lets the next CON through")
R.seed("C14.d", F_MM, "        while not any(r == remote for r, mid in self._active_exchanges.keys()):", "        while True:", "releases everything at once")
R.seed("C14.d", F_MM, "            if self._backlogs[remote] != []:\n                next_message", "            if self._backlogs[remote] == []:\n                next_message", "inverted emptiness test")
R.seed("C14.d", F_MM, "                del self._backlogs[remote]\n                break", "                del self._backlogs[remote]", "loop continues after delete")
R.seed("C14.e", F_MM, "        if message.mtype is CON:\n            assert messageerror_monitor is not None", "        if message.mtype is not None:\n            assert messageerror_monitor is not None", "exchange for non-CON")
R.seed("C14.e", F_MM, "        if message.mtype is CON:\n            assert messageerror_monitor is not None, (\n                \"messageerror_monitor needs to be set for CONs\"\n            )\n            self._add_exchange(message, messageerror_monitor)\n\n        self._store_response_for_duplicates(message)\n\n        self._send_via_transport(message)\n", "        self._store_response_for_duplicates(message)\n\n        self._send_via_transport(message)\n\n        if message.mtype is CON:\n            assert messageerror_monitor is not None, (\n                \"messageerror_monitor needs to be set for CONs\"\n            )\n            self._add_exchange(message, messageerror_monitor)\n", "exchange registered after sending: a synchronous send error leaves a zombie exchange")
R.seed("C14.f", F_MM, "            del self._backlogs[message.remote]\n            self.token_manager.dispatch_error(\n                error.ConRetransmitsExceeded(\"Retransmissions exceeded\"), message.remote\n            )", "            del self._backlogs[message.remote]", "queued requests forgotten on give-up")
R.seed("C14.f", F_MM, "        self.token_manager.dispatch_error(error, remote)\n\n        keys_for_removal = []", "        keys_for_removal = []", "queued requests forgotten on transport error")

R.seed("C14.g", F_MM, "        if message.code.is_request():\n            # Responses", "        if not message.code.is_response():\n            # Responses", "empty ACK/RST pass the duplicate filter first: an ACK with a recently seen message ID never ends the exchange")
R.seed("C14.h", "aiocoap/tokenmanager.py", "                    lambda request=request, exception=exception: request.add_exception(\n                        exception\n                    )", "                    lambda: request.add_exception(\n                        exception\n                    )", "held-back requests are neither sent nor failed")
