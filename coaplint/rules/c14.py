"""C14 NSTART=1: one open confirmable exchange per peer, FIFO backlog, none forgotten."""

import ast

from ..rulekit import *

R = Rules(
    "C14",
    explanation=(
        "Structural clauses behind the invariant `remote in _backlogs <=> an exchange with that remote is active`, "
        "decided on every function of MessageManager that touches _active_exchanges or _backlogs: all of them are "
        "plain defs without await/yield (so the invariant only has to hold at function exits); the insertion of an "
        "exchange is preceded on every path by the existence of the backlog entry; every removal of an exchange is "
        "followed on every normal path by _continue_backlog(same remote), re-insertion, or removal of the backlog "
        "entry; send_message queues exactly the CONs whose remote has a backlog entry and sends everything else; "
        "enqueue and dequeue address opposite ends (FIFO); _continue_backlog sends the head only while no exchange "
        "with that remote is active and deletes only an empty entry; exchanges are started only from the guarded "
        "sites; a non-empty backlog is only dropped together with a dispatch_error for the same remote; an exchange "
        "is taken out of the table only under its complete key (remote and message ID handed to the remover) or, "
        "when selected by remote alone, by a function that fails that remote's requests; the remotes that key both "
        "tables hash equally whenever they compare equal (their classes' own constructor, __eq__ and __hash__ run over "
        "a finite domain of addresses).  Liveness "
        "under arbitrary timing is not decided."
    ),
    rule_text=(
        "ownership / pairing rules over all writers of two fields (located by effect: every spelling of insert / remove / "
        "membership on the table and of enqueue / dequeue on its element queues, through aliases), abstract evaluation of "
        "exchange keys (which remote a removed key belongs to, through collected key lists, filters and predicate helpers), "
        "dominance and must-pass path rules on per-function CFGs, finite-domain evaluation (message type x backlog "
        "membership) of the branch facts valid at a site on every path of the path model"
    ),
)

MM = "messagemanager.MessageManager."
AX = "self._active_exchanges"
BL = "self._backlogs"


from . import _kit_c14 as K

ENQ = ("append", "appendleft", "insert", "extend", "extendleft", "aug")
DEQ = ("pop", "popleft", "delitem", "remove")


def mm_funcs(prog):
    ci = prog.cls("messagemanager.MessageManager")
    out = []
    for fi in prog.funcs.values():
        f = fi
        while f is not None and f.cls is None:
            f = f.parent
        if f is not None and f.cls is ci:
            out.append(fi)
    return out


def touches(fi, field):
    return any(chain(n) == field for n in ast.walk(fi.node) if isinstance(n, ast.Attribute))


def _int(e):
    """Constant integer value of an index expression (`0`, `-1`), else None."""
    try:
        v = ast.literal_eval(e)
    except Exception:
        return None
    return v if isinstance(v, int) and not isinstance(v, bool) else None


def _is_clear(op):
    return isinstance(op.node, ast.Call) and isinstance(op.node.func, ast.Attribute) and op.node.func.attr == "clear"


def _empty_collection(e):
    """`[]`, `list()`, `deque()`, `collections.deque()`: a queue nobody waits in."""
    if isinstance(e, (ast.List, ast.Tuple)) and not e.elts:
        return True
    if isinstance(e, ast.Call) and not e.args and not e.keywords and (call_name(e) or "").split(".")[-1] in ("list", "deque"):
        return True
    return False


def _self_calls(fnode, method):
    """Calls `self.<method>(...)` in the function (comprehensions entered, nested defs not)."""
    return [c for c in calls_in(fnode) if isinstance(c.func, ast.Attribute) and c.func.attr == method and isinstance(c.func.value, ast.Name) and c.func.value.id == "self"]


def _bound(call, names):
    """Arguments of a call by parameter name (positional order `names`); None when the call uses * or **."""
    out = {}
    for n_, a_ in zip(names, call.args):
        if isinstance(a_, ast.Starred):
            return None
        out[n_] = a_
    if len(call.args) > len(names):
        return None
    for kw in call.keywords:
        if kw.arg is None:
            return None
        out[kw.arg] = kw.value
    return out


def _nothing_removed(sc, cfg, op):
    """Branch outcomes on which a tolerant removal `d.pop(key, default)` is known to have removed nothing: its
    result (directly, through a walrus or a single-assignment local) is the default (`is default`, `== default`;
    or falsy when the default is a falsy constant -- the stored exchanges are non-empty pairs)."""
    n = op.node
    if not (isinstance(n, ast.Call) and isinstance(n.func, ast.Attribute) and n.func.attr == "pop" and len(n.args) == 2):
        return []
    dflt = n.args[1]
    falsy = (isinstance(dflt, ast.Constant) and not dflt.value) or (isinstance(dflt, (ast.Tuple, ast.List, ast.Dict)) and not (getattr(dflt, "elts", None) or getattr(dflt, "keys", None)))

    def is_result(e):
        if isinstance(e, ast.NamedExpr):
            e = e.value
        if e is n:
            return True
        if isinstance(e, ast.Name):
            v = sc.single_value(e)
            return v is n
        return False

    out = []
    for nd in cfg.nodes:
        if nd.kind not in ("T", "F") or nd.ast is None or isinstance(nd.ast, (ast.For, ast.AsyncFor)):
            continue
        e, pol = K.strip_not(nd.ast)
        holds = None  # e true <=> nothing removed ?
        if isinstance(e, ast.Compare) and len(e.ops) == 1 and isinstance(e.ops[0], (ast.Is, ast.IsNot, ast.Eq, ast.NotEq)):
            l_, r_ = e.left, e.comparators[0]
            if is_result(r_):
                l_, r_ = r_, l_
            if is_result(l_) and same(r_, dflt):
                holds = isinstance(e.ops[0], (ast.Is, ast.Eq))
        elif is_result(e) and falsy:
            holds = False
        if holds is None:
            continue
        if ((nd.kind == "T") == pol) == holds:
            out.append(nd.id)
    return out


def _exchange_call_graph(prog, cls, ke):
    """(starters, removers, callee_name): the methods of the class that record an exchange / take exchanges out of
    the table themselves or through calls they execute (K.transitive_methods), and the resolver of a call to the
    name of the method of the class it runs (self.m / cls.m / Class.m / type(self).m), else None."""

    def callee_name(fi, c_):
        cfi = ke.callee(ke.scope(fi), c_) if isinstance(c_.func, ast.Attribute) else None
        return cfi.name if cfi is not None and cls.methods.get(cfi.name) is cfi else None

    def records(fi):
        return any(o.level == "table" and o.kind in ("set", "ensure") for o in K.table_ops(ke.scope(fi), AX))

    def retires(fi):
        return any(o.level == "table" and (o.kind in ("del", "rebind") or o.kind.startswith("ref:")) for o in K.table_ops(ke.scope(fi), AX))

    return K.transitive_methods(cls, records, callee_name), K.transitive_methods(cls, retires, callee_name), callee_name


@R.clause("C14.a", "invariant backlog entry <=> active exchange: atomic functions, entry created before the exchange, every removal compensated")
def a(ctx):
    prog = ctx.prog
    cls = prog.cls("messagemanager.MessageManager")
    funcs = [f for f in mm_funcs(prog) if touches(f, AX) or touches(f, BL)]
    ctx.floor("functions touching _active_exchanges/_backlogs", len(funcs), 7)
    ke = K.KeyEval(prog, cls, AX)
    ops = {}
    for fi in mm_funcs(prog):
        sc = ke.scope(fi)
        ops[fi.qn] = (K.table_ops(sc, AX), K.table_ops(sc, BL))
    for fi in funcs:
        oa, ob_ = ops[fi.qn]
        if not (oa or ob_):
            continue
        ctx.ob("%s mutates the tables atomically (plain def, no await/yield)" % fi.name, is_plain_sync(fi) or fi.name == "shutdown", fi, fi.node, construct="def " + fi.name)
    # shutdown is async: its writes must precede its first await
    sh = prog.func(MM + "shutdown")
    scfg = cfg_of(sh)
    awaits = [scfg.loc1(n) for n in walk_no_nested(sh.node) if isinstance(n, ast.Await)]
    for o in ops[sh.qn][0] + ops[sh.qn][1]:
        nid = scfg.loc1(o.node)
        ctx.ob("shutdown retires the tables before its first suspension point", not any(nid in scfg.reach({a_}) for a_ in awaits), sh, o.node)

    def remotes_of(sc, key):
        """[(set of abstract remote values, origin)] for a key of the exchange table"""
        if key is None:
            return [(set(), "every key")]
        return ke.key_alternatives(sc, key)

    # insertion side: wherever an exchange is recorded, the remote's backlog entry exists on every path --
    # established by a membership test, by creating the entry (`d[k] = ..`, `setdefault`), or because an exchange
    # with the same remote was taken out just before (its entry is still there: re-arming a retransmission)
    n_ins = 0
    for fi in mm_funcs(prog):
        oa, ob_ = ops[fi.qn]
        ins = [o for o in oa if o.level == "table" and o.kind in ("set", "ensure")]
        if not ins:
            continue
        sc = ke.scope(fi)
        cfg = cfg_of(fi)
        for o in ins:
            n_ins += 1
            alts = remotes_of(sc, o.key)
            ok = bool(alts)
            for rs, origin in alts:
                if not rs:
                    ok = False
                    continue
                keytest = lambda e_, rs=rs: ke.aval(sc, e_) in rs
                present, _absent = K.membership_outcomes(sc, BL, keytest)
                est = list(present)
                for o2 in ob_:
                    if o2.level == "table" and o2.kind in ("set", "ensure") and o2.key is not None and keytest(o2.key):
                        est.extend(cfg.locate(o2.node))
                for o2 in oa:
                    if o2.level == "table" and o2.kind == "del" and o2.key is not None and o2 is not o:
                        a2 = remotes_of(sc, o2.key)
                        if a2 and all(r2 and r2 <= rs for r2, _ in a2):
                            est.extend(cfg.locate(o2.node))
                drops = set()
                for o2 in ob_:
                    if o2.level == "table" and o2.kind in ("del", "rebind") or o2.kind.startswith("ref:"):
                        drops.update(cfg.locate(o2.node))
                nid = cfg.loc1(o.node)
                if not est or cfg.exists_path(cfg.entry, nid, avoid=set(est)) or nid == cfg.entry:
                    ok = False
                # the entry is not dropped again between the evidence and the insertion
                for d_ in drops:
                    if any(cfg.exists_path(e_, d_) for e_ in est) and cfg.exists_path(d_, nid):
                        ok = False
            ctx.ob("an exchange is recorded only when the remote's backlog entry exists", ok, fi, o.node)
    ctx.floor("exchange insertions", n_ins, 1)
    fi = prog.func(MM + "_add_exchange")
    ctx.floor("exchange insertions in _add_exchange", len([o for o in ops[fi.qn][0] if o.level == "table" and o.kind in ("set", "ensure")]), 1)
    # a created entry is an empty queue
    for f_ in mm_funcs(prog):
        if f_.name == "__init__":
            continue
        for o in ops[f_.qn][1]:
            if o.level == "table" and o.kind in ("set", "ensure"):
                ctx.ob("a fresh backlog entry is empty", o.value is not None and _empty_collection(K.Scope(f_).deref(o.value)), f_, o.node)

    # removal side
    removals = []
    for f_ in mm_funcs(prog):
        for o in ops[f_.qn][0]:
            if o.level == "table" and (o.kind == "del" or o.kind.startswith("ref:")):
                removals.append((f_, o))
            elif o.level == "table" and o.kind == "rebind" and f_.name != "__init__" and not (o.value is not None and K.is_none(o.value)):
                # a new table object forgets every exchange (None: the shut-down marker, after which send_message
                # forces NON and nothing is held back any more)
                removals.append((f_, K.Op("table", "del", o.node, key=None)))
    ctx.floor("removal sites of _active_exchanges", len(removals), 2)
    from . import c03
    c03.retransmit_removes_exchange(ctx)
    de = prog.func(MM + "dispatch_error")
    rp = params(de)[1]
    starters, _removers, callee_name = _exchange_call_graph(prog, cls, ke)
    for f_, o in removals:
        sc = ke.scope(f_)
        cfg = cfg_of(f_)
        nid = cfg.loc1(o.node)
        oa, ob_ = ops[f_.qn]
        if o.kind.startswith("ref:"):
            ctx.ob("removing an exchange is followed on every normal path by continuing or dropping that remote's backlog (or re-inserting the exchange)", False, f_, o.node,
                   detail="the removing method is handed on as a value; when it runs is outside the rule's vocabulary")
            continue
        alts = remotes_of(sc, o.key)
        ok = bool(alts)
        ncomp = 0
        known = True
        for rs, origin in alts:
            comp = []
            everything = o.key is None
            if not rs and not everything:
                ok = known = False
                continue
            match_r = (lambda e_: False) if everything else (lambda e_, rs=rs: ke.aval(sc, e_) in rs)
            pre = []
            for o2 in ob_:
                if o2.level == "table" and o2.kind == "del" and ((o2.key is not None and match_r(o2.key)) or (o2.key is None and _is_clear(o2))):
                    pre.extend(cfg.locate(o2.node))
            after_drop = cfg.reach(set(pre)) if pre else set()
            for c_ in _self_calls(f_.node, "_continue_backlog"):
                b_ = _bound(c_, params(prog.func(MM + "_continue_backlog")))
                if b_ and len(b_) == 1 and match_r(list(b_.values())[0]):
                    # continuing a backlog whose entry the function has dropped continues nothing (it trips
                    # _continue_backlog's own assertion)
                    comp.extend(x_ for x_ in cfg.locate(c_) if x_ not in after_drop)
            for o2 in oa:
                if o2.level == "table" and o2.kind in ("set", "ensure") and o2.key is not None:
                    a2 = remotes_of(sc, o2.key)
                    if a2 and all(r2 and r2 <= rs for r2, _ in a2):
                        comp.extend(cfg.locate(o2.node))
            for o2 in ob_:
                if o2.level == "table" and o2.kind == "del":
                    if (o2.key is not None and match_r(o2.key)) or (o2.key is None and _is_clear(o2)):
                        comp.extend(cfg.locate(o2.node))
            if not everything:
                _present, absent = K.membership_outcomes(sc, BL, match_r)
                comp.extend(absent)
            comp.extend(_nothing_removed(sc, cfg, o))
            ncomp += len(comp)
            # ... or *preceded* on every path by dropping that remote's entry, which then stays dropped until the
            # function returns (nothing executed after the drop records an exchange or creates an entry): the
            # function is atomic (first obligation of this clause), so only the state at its exit counts and
            # "entry gone, then exchange gone" leaves the same state as "exchange gone, then entry gone"
            dropped_before = False
            if pre and nid not in pre and not cfg.exists_path(cfg.entry, nid, avoid=set(pre)):
                again = set()
                for o2 in oa + ob_:
                    if o2.level == "table" and o2.kind in ("set", "ensure", "rebind"):
                        again.update(cfg.locate(o2.node))
                for c_ in calls_in(f_.node):
                    if callee_name(f_, c_) in starters:
                        again.update(cfg.locate(c_))
                dropped_before = not (again & (after_drop | set(pre)))
                ncomp += len(pre) if dropped_before else 0
            if not ((comp and cfg.must_pass(nid, comp)) or dropped_before):
                ok = False
        ctx.ob("removing an exchange is followed on every normal path by continuing or dropping that remote's backlog (or re-inserting the exchange), or preceded by dropping it for good", ok, f_, o.node,
               detail="%d compensating site(s)%s" % (ncomp, "" if known else "; the remote of the removed exchange is not determined (%s)" % "; ".join(w for _, w in alts)))
        if f_ is de:
            # removed keys are those of the reported remote
            sel = bool(alts) and all(("param", rp) in rs for rs, _ in alts)
            ctx.ob("dispatch_error selects only exchanges of the reported remote", sel, de, o.node, detail="; ".join(w for _, w in alts))
    # dispatch_error drops the backlog of the reported remote
    dsc = ke.scope(de)
    for o2 in ops[de.qn][1]:
        if o2.level == "table" and o2.kind in ("del", "rebind"):
            ctx.ob("dispatch_error drops the backlog of the reported remote", o2.key is not None and ke.aval(dsc, o2.key) == ("param", rp), de, o2.node)


@R.clause("C14.b", "send_message queues exactly the CONs whose remote has a backlog entry; everything else is sent at once")
def b(ctx):
    prog = ctx.prog
    cls = prog.cls("messagemanager.MessageManager")
    fi = prog.func(MM + "send_message")
    p = params(fi)
    m, mon = p[0], p[1]
    cfg = cfg_of(fi)
    sc = K.Scope(fi)
    enq = [o for o in K.table_ops(sc, BL) if (o.level == "elem" and (o.kind in ENQ or o.kind.startswith("ref:"))) or (o.level == "table" and o.kind in ("set", "ensure"))]
    ctx.floor("enqueue sites in send_message", len(enq), 1)
    # Decided on the path model: for every path through a site, the branch outcomes still valid there (locals
    # replaced by their definitions, facts about reassigned state dropped) are evaluated in every world
    # (message type, remote has a backlog entry).  A path is possible in a world unless a fact is refuted in it.
    sf = K.SiteFacts(fi, tables=(BL, AX), writer_methods=K.transitive_writers(prog, cls, (BL, AX)))
    W = K.Worlds(m, BL)

    def worlds_at(node):
        out = set()
        envs = []
        per_path = sf.at(cfg.loc1(node))
        ctx.need(per_path, "send_message: `%s` lies on no normal-flow path (reached through an exception handler only); deciding it is outside the rule's vocabulary" % stmt_text(node))
        for facts, env, path in per_path:
            ws = W.feasible(facts)
            out.update(ws)
            if ws:
                envs.append(env)
        return out, envs

    def is_name(e, name, envs):
        """e denotes parameter `name` (directly or through a local that holds it on every path)"""
        if isinstance(e, ast.Name) and e.id == name:
            return True
        if isinstance(e, ast.Name) and envs:
            return all(isinstance(env.get(e.id), ast.Name) and env[e.id].id == name for env in envs)
        return False

    for o in enq:
        n = o.node
        ws, envs = worlds_at(n)
        ctx.ob("only confirmable messages are held back", bool(ws) and all(w[0] == "CON" for w in ws), fi, n, detail="mtype in %s" % sorted({w[0] for w in ws}))
        ctx.ob("a message is held back only when its remote has a backlog entry", bool(ws) and all(w[1] for w in ws), fi, n)
        own = o.level == "elem" and o.qkey is not None and chain(sc.deref(o.qkey)) == "%s.remote" % m
        ctx.ob("the message is queued under its own remote", own, fi, n)
        arg = None
        if o.level == "elem" and o.kind in ("append", "appendleft") and len(o.args) == 1:
            arg = o.args[0]
        elif o.level == "elem" and o.kind == "insert" and len(o.args) == 2:
            arg = o.args[1]
        elif o.level == "elem" and o.kind in ("extend", "extendleft", "aug") and len(o.args) == 1:
            l_ = sc.deref(o.args[0])
            if isinstance(l_, (ast.List, ast.Tuple)) and len(l_.elts) == 1:
                arg = l_.elts[0]
        arg = sc.deref(arg) if arg is not None else None
        tup = arg if isinstance(arg, ast.Tuple) and len(arg.elts) == 2 else None
        ctx.ob("what is queued is (message, error monitor)", tup is not None and is_name(tup.elts[0], m, envs) and is_name(tup.elts[1], mon, envs), fi, n)
    sends = _self_calls(fi.node, "_send_initially")
    ctx.floor("_send_initially sites in send_message", len(sends), 1)
    sp = params(prog.func(MM + "_send_initially"))
    for c_ in sends:
        ws, envs = worlds_at(c_)
        ctx.ob("nothing is transmitted at once when a CON's remote has an open exchange (membership of the backlog table, not emptiness; no further condition lets a CON bypass the queue)",
               ("CON", True) not in ws, fi, c_)
        b_ = _bound(c_, sp)
        ctx.ob("the transmission carries the message and its error monitor", b_ is not None and len(b_) == 2 and len(sp) >= 2 and is_name(b_.get(sp[0]), m, envs) and is_name(b_.get(sp[1]), mon, envs), fi, c_)
    # every normal path ends in a transmission, the queue, or the explicit No-Response suppression return
    sinks = [cfg.loc1(c_) for c_ in sends] + [cfg.loc1(o.node) for o in enq]
    rets = [cfg.loc1(n) for n in walk_no_nested(fi.node) if isinstance(n, ast.Return)]
    ctx.ob("every message that is not suppressed is either transmitted or queued", cfg.must_pass(cfg.entry, sinks + rets), fi, fi.node, construct="def send_message")


def _queue_end(o):
    """'front' / 'back' / '?' : the end of the per-remote queue an operation addresses."""
    k = o.kind
    if k in ("append", "extend", "aug"):
        return "back"
    if k in ("appendleft", "extendleft", "popleft"):
        return "front"
    if k == "insert" and len(o.args) == 2:
        i = _int(o.args[0])
        if i == 0:
            return "front"
        a0 = o.args[0]
        if isinstance(a0, ast.Call) and chain(a0.func) == "len" and len(a0.args) == 1 and isinstance(o.node, ast.Call) and same(a0.args[0], o.node.func.value):
            return "back"
        return "?"
    if k == "pop":
        if not o.args:
            return "back"
        i = _int(o.args[0])
        return "front" if i == 0 else ("back" if i == -1 else "?")
    if k == "delitem" and len(o.args) == 1:
        i = _int(o.args[0])
        return "front" if i == 0 else ("back" if i == -1 else "?")
    return "?"


@R.clause("C14.c", "FIFO: enqueue and dequeue address opposite ends of the backlog")
def c(ctx):
    enq = []
    deq = []
    for f_ in mm_funcs(ctx.prog):
        sc = K.Scope(f_)
        for o in K.table_ops(sc, BL):
            if o.level != "elem":
                continue  # operations on the table itself, not on a remote's queue
            if o.kind in ENQ:
                enq.append((f_, o.node, _queue_end(o)))
            elif o.kind in DEQ:
                deq.append((f_, o.node, _queue_end(o)))
            elif o.kind.startswith("ref:") or o.kind in ("sort", "reverse"):
                deq.append((f_, o.node, "?"))
    ctx.floor("enqueue sites", len(enq), 1)
    ctx.floor("dequeue sites", len(deq), 1)
    ends = {e_ for _, _, e_ in enq}
    for f_, n, end in deq:
        ok = end != "?" and "?" not in ends and len(ends) == 1 and end != next(iter(ends))
        ctx.ob("held-back messages are released in submission order (dequeue end opposite to enqueue end)", ok, f_, n, detail="enqueue at %s, dequeue at %s" % (sorted(ends), end))


@R.clause("C14.d", "_continue_backlog sends the head only while no exchange with that remote is active; deletes only an empty entry")
def d(ctx):
    prog = ctx.prog
    cls = prog.cls("messagemanager.MessageManager")
    fi = prog.func(MM + "_continue_backlog")
    r = params(fi)[0]
    cfg = cfg_of(fi)
    ke = K.KeyEval(prog, cls, AX)
    sc = ke.scope(fi)
    rav = ("param", r)
    ctx.ob("_continue_backlog is atomic", is_plain_sync(fi), fi, fi.node, construct="def _continue_backlog")
    sends = _self_calls(fi.node, "_send_initially")
    ctx.floor("_send_initially in _continue_backlog", len(sends), 1)
    bops = K.table_ops(sc, BL)

    # "an exchange with <remote> is active": any(key remote == remote for key in table) in any spelling, also
    # behind a helper (`any(...)`, search loop with early return, `remote in {r for r, _ in table}`)
    _pol = {}

    def active_pol(e):
        if id(e) not in _pol:
            _pol[id(e)] = ke.exists_polarity(sc, e, rav)
        return _pol[id(e)]

    def no_exchange(guards):
        """a dominating branch outcome says that no exchange with the remote is active"""
        for e, pol in guards:
            ap = active_pol(e)
            if ap is not None and pol != ap:
                return True
        return False

    tests = [n.id for n in cfg.nodes if n.kind == "test" and active_pol(n.ast) is not None]
    heads = [n.id for n in cfg.nodes if n.kind in ("T", "F") and n.ast is not None and not isinstance(n.ast, (ast.For, ast.AsyncFor)) and active_pol(n.ast) is not None and (n.kind == "T") != active_pol(n.ast)]

    def own_queue(e):
        ks = K.recv_kinds(sc, e, BL)
        return bool(ks) and all(k == "elem" and key is not None and ke.aval(sc, key) == rav for k, key in ks)

    deqs = [o for o in bops if o.level == "elem" and o.kind in DEQ and o.qkey is not None and ke.aval(sc, o.qkey) == rav]

    def component(e):
        """(source expression, index) when e is component `index` of a tuple-valued source"""
        if isinstance(e, ast.Name):
            bs = sc.resolve(e)
            if len(bs) == 1 and bs[0].kind == "assign" and len(bs[0].path) == 1 and isinstance(bs[0].path[0], int):
                return sc.deref(bs[0].value), bs[0].path[0]
        if isinstance(e, ast.Subscript) and _int(e.slice) is not None:
            return sc.deref(e.value), _int(e.slice)
        return None, None

    def from_queue(src):
        """the source is what a dequeue operation on the remote's own queue yields (its popped value, or the item
        read at an index that the function also deletes)"""
        if src is None:
            return False
        if any(o.node is src for o in deqs if o.kind in ("pop", "popleft")):
            return True
        if isinstance(src, ast.Subscript) and own_queue(src.value) and _int(src.slice) is not None:
            return any(o.kind == "delitem" and len(o.args) == 1 and _int(o.args[0]) == _int(src.slice) for o in deqs)
        return False

    sp = params(prog.func(MM + "_send_initially"))
    for c_ in sends:
        nid = cfg.loc1(c_)
        gs = guard_exprs(cfg, nid)
        ctx.ob("a held-back message is released only while no exchange with that remote is active", no_exchange(gs), fi, c_, detail="guards: %s" % [stmt_text(e) for e, _ in gs])
        # re-tested before every further release: every cycle through the send passes the test
        ctx.ob("the condition is re-evaluated before each further release", nid not in cfg.reach({cfg.loc1(s_) for s_ in sends}, avoid=set(tests)), fi, c_)
        src_ok = False
        if len(c_.args) == 1 and isinstance(c_.args[0], ast.Starred) and not c_.keywords:
            src_ok = from_queue(sc.deref(c_.args[0].value))
        else:
            b_ = _bound(c_, sp)
            if b_ is not None and len(b_) == 2 and len(sp) >= 2 and sp[0] in b_ and sp[1] in b_:
                s0, i0 = component(b_[sp[0]])
                s1, i1 = component(b_[sp[1]])
                src_ok = s0 is not None and s0 is s1 and (i0, i1) == (0, 1) and from_queue(s0)
        ctx.ob("what is released is the head of that remote's backlog together with its error monitor", src_ok, fi, c_)
    dels = [o for o in bops if o.level == "table" and (o.kind in ("del", "rebind") or o.kind.startswith("ref:"))]
    ctx.floor("backlog entry deletions in _continue_backlog", len(dels), 1)

    class _Unk(Exception):
        pass

    def ev(e, n):
        """value of a test about the remote's queue when it holds n items"""
        if isinstance(e, ast.UnaryOp) and isinstance(e.op, ast.Not):
            return not ev(e.operand, n)
        if isinstance(e, ast.Constant) and isinstance(e.value, int):
            return e.value
        if _empty_collection(e):
            return ("items", 0)
        if isinstance(e, ast.Call) and chain(e.func) in ("len", "bool") and len(e.args) == 1:
            v = ev(e.args[0], n)
            if chain(e.func) == "bool":
                return bool(v[1]) if isinstance(v, tuple) else bool(v)
            if isinstance(v, tuple):
                return v[1]
            raise _Unk()
        if isinstance(e, ast.Compare) and len(e.ops) == 1:
            l_, r_ = ev(e.left, n), ev(e.comparators[0], n)
            if isinstance(l_, tuple) != isinstance(r_, tuple):
                raise _Unk()
            if isinstance(l_, tuple):
                l_, r_ = l_[1], r_[1]
                if not isinstance(e.ops[0], (ast.Eq, ast.NotEq)):
                    raise _Unk()
            import operator
            tbl = {ast.Eq: operator.eq, ast.NotEq: operator.ne, ast.Lt: operator.lt, ast.LtE: operator.le, ast.Gt: operator.gt, ast.GtE: operator.ge}
            if type(e.ops[0]) not in tbl:
                raise _Unk()
            return tbl[type(e.ops[0])](l_, r_)
        if own_queue(e):
            return ("items", n)
        raise _Unk()

    def says_empty(e, pol):
        try:
            vals = []
            for n in (0, 1, 2):
                v = ev(e, n)
                vals.append(bool(v[1]) if isinstance(v, tuple) else bool(v))
        except _Unk:
            return False
        return vals[0] == pol and vals[1] != pol and vals[2] != pol

    send_nodes = {cfg.loc1(c_) for c_ in sends}
    for o in dels:
        n = o.node
        nid = cfg.loc1(n)
        gs = guard_exprs(cfg, nid)
        own = o.kind == "del" and o.key is not None and ke.aval(sc, o.key) == rav
        empty = own and any(says_empty(e, pol) for e, pol in gs)
        ctx.ob("the backlog entry is deleted only when it is empty", empty, fi, n, detail="guards: %s" % [stmt_text(e) for e, _ in gs])
        ctx.ob("the entry is deleted only while no exchange with that remote is active", no_exchange(gs), fi, n)
        ctx.ob("after deleting the entry nothing more is released", not (set(cfg.reach({nid})) & send_nodes), fi, n)
    # each iteration either sends or deletes: from the outcome "no exchange active", every path back to the test or to exit passes a send or a delete
    ctx.need(heads, "_continue_backlog: no branch on `no exchange with the remote is active`")
    acts = list(send_nodes) + [cfg.loc1(o.node) for o in dels]
    for h in heads:
        r_ = cfg.reach({h}, avoid=set(acts), skip_labels=("exc",))
        ctx.ob("each round of the loop either releases a message or deletes the empty entry (no spinning)", not (set(tests) & r_) and cfg.exit not in r_, fi, cfg.nodes[h].ast)


@R.clause("C14.e", "exchanges are started only through the guarded sites")
def e(ctx):
    prog = ctx.prog
    cls = prog.cls("messagemanager.MessageManager")
    ae = []
    si = []
    for f_ in prog.funcs.values():
        called = set()
        for c_ in calls_in(f_.node):
            cn = call_name(c_) or ""
            if cn.endswith("._add_exchange"):
                ae.append((f_, c_))
                called.add(id(c_.func))
            elif cn.endswith("._send_initially"):
                si.append((f_, c_))
                called.add(id(c_.func))
        # the methods taken as values (functools.partial, call_later, a stored bound method): who calls them, when
        # and with what is outside the rule's vocabulary -- none exist in the confirmed tree
        for n in walk_no_nested(f_.node):
            if isinstance(n, ast.Attribute) and n.attr in ("_add_exchange", "_send_initially") and id(n) not in called and isinstance(n.ctx, ast.Load):
                ctx.ob("exchanges and first transmissions are started by direct calls only", False, f_, n)
    ctx.floor("_add_exchange call sites", len(ae), 1)
    sf_ = prog.func(MM + "_send_initially")
    for f_, c_ in ae:
        ok = f_.short == MM + "_send_initially"
        only_con = False
        if ok:
            m = params(f_)[0]
            facts = K.SiteFacts(f_, tables=(BL, AX), writer_methods=K.transitive_writers(prog, cls, (BL, AX)))
            W = K.Worlds(m, BL)
            ws = set()
            for fs, env, path in facts.at(cfg_of(f_).loc1(c_)):
                ws.update(W.feasible(fs))
            only_con = bool(ws) and all(w[0] == "CON" for w in ws)
        ctx.ob("an exchange is started only by _send_initially and only for CON", ok and only_con, f_, c_)
        if ok:
            b_ = _bound(c_, params(prog.func(MM + "_add_exchange")))
            first = b_.get(params(prog.func(MM + "_add_exchange"))[0]) if b_ else None
            ctx.ob("the exchange is started for the message being sent", isinstance(first, ast.Name) and first.id == m and len(writes_to_name(f_.node, m)) == 0, f_, c_)
    # the exchange is registered before the message is handed to the transport: a transport that reports a send
    # failure synchronously (udp6: error_received inside send()) must find the exchange it has to fail
    scfg = cfg_of(sf_)
    tx = [scfg.loc1(c_) for c_ in calls_in(sf_.node) if (call_name(c_) or "") == "self._send_via_transport" or (call_name(c_) or "").endswith("message_interface.send")]
    for f_, c_ in ae:
        if f_ is sf_:
            ctx.ob("the exchange is registered before the message is handed to the transport", bool(tx) and all(not scfg.exists_path(t, scfg.loc1(c_)) for t in tx), sf_, c_)
    # Sites that put a message on the wire without passing the queue: calls of _send_initially, and direct
    # hand-overs to the transport (`_send_via_transport`, `message_interface.send`) outside the two functions that
    # *are* the guarded way to the wire.  Which of the two a site uses does not matter to this property (a
    # direct hand-over starts no exchange and records nothing -- that is C04's business); what matters is that no
    # confirmable message of a new exchange leaves through them.  The floor counts both kinds together.
    mt = K.MsgTypes(prog, cls)
    ke = K.KeyEval(prog, cls, AX)
    wire = []
    for f_ in mm_funcs(prog):
        if f_.short in (MM + "_send_initially", MM + "_send_via_transport"):
            continue
        for c_ in calls_in(f_.node):
            cn = call_name(c_) or ""
            if cn == "self._send_via_transport" or cn.endswith("message_interface.send"):
                wire.append((f_, c_))
    ctx.floor("sites that bypass the queue (_send_initially calls + direct hand-overs to the transport)", len(si) + len(wire), 7)
    for f_, c_ in wire:
        sc = ke.scope(f_)
        cfg = cfg_of(f_)
        arg = c_.args[0] if len(c_.args) == 1 and not c_.keywords and not isinstance(c_.args[0], ast.Starred) else None
        types = mt.types(sc, arg) if arg is not None else {"?"}
        by_construction = bool(types) and types <= mt.ALLOWED
        # a retransmission: the site is dominated by taking the exchange of that very message -- key
        # (m.remote, m.mid) -- out of the table with a removal that fails when there is none (`pop(key)`,
        # `del d[key]`): the message is the one confirmable message already open with its remote, not a new one
        retrans = False
        av = ke.aval(sc, arg) if arg is not None else None
        if av is not None and not by_construction:
            want = ("tuple", (("attr", av, "remote"), ("attr", av, "mid")))
            nid = cfg.loc1(c_)
            for o in K.table_ops(sc, AX):
                if o.level == "table" and o.kind == "del" and o.key is not None and ke.aval(sc, o.key) == want:
                    strict = not (isinstance(o.node, ast.Call) and len(o.node.args) > 1)
                    if strict and any(cfg.dominates(x_, nid) for x_ in cfg.locate(o.node)):
                        retrans = True
        ctx.ob("a message handed to the transport directly is ACK/RST/NON by construction or the retransmission of the message whose exchange is open", by_construction or retrans, f_, c_,
               detail="%s: %s" % (stmt_text(sc.deref(arg)) if arg is not None else "?", sorted(types)))
    sp = params(sf_)
    for f_, c_ in si:
        if f_.short in (MM + "send_message", MM + "_continue_backlog"):
            continue  # guarded by C14.b / C14.d
        sc = K.Scope(f_)
        b_ = _bound(c_, sp)
        arg = b_.get(sp[0]) if b_ else None
        types = mt.types(sc, arg) if arg is not None else {"?"}
        # no monitor passed => _send_initially's own assertion documents non-CON
        no_monitor = b_ is not None and all(k == sp[0] or K.is_none(v) for k, v in b_.items())
        # ACK/RST/NON by construction (constructor keyword or attribute assignment, possibly inside a builder
        # helper), or a reply stored for duplicates: an ACK by construction (C10.d)
        ctx.ob("other transmissions bypassing the queue carry ACK/RST/NON messages or a stored reply", bool(types) and types <= mt.ALLOWED and no_monitor, f_, c_,
               detail="%s: %s" % (stmt_text(sc.deref(arg)) if arg is not None else "?", sorted(types)))


@R.clause("C14.f", "a non-empty backlog is dropped only together with dispatch_error for the same remote")
def f(ctx):
    prog = ctx.prog
    cls = prog.cls("messagemanager.MessageManager")
    ke = K.KeyEval(prog, cls, AX)
    n_del = 0
    for fi in mm_funcs(prog):
        sc = ke.scope(fi)
        dels = []
        for o in K.table_ops(sc, BL):
            if o.level == "table" and (o.kind == "del" or (o.kind == "rebind" and fi.name != "__init__") or o.kind.startswith("ref:")):
                dels.append(o)
            elif o.level == "elem" and o.kind in ("clear", "ref:clear"):
                dels.append(o)  # empties a queue in place
        for o in dels:
            n = o.node
            n_del += 1
            if fi.short == MM + "_continue_backlog":
                continue  # emptiness is checked in C14.d
            cfg = cfg_of(fi)
            nid = cfg.loc1(n)
            key = o.key if o.level == "table" else o.qkey
            rv = ke.aval(sc, key) if key is not None else None
            ok = False
            for c_ in calls_in(fi.node):
                if not (isinstance(c_.func, ast.Attribute) and c_.func.attr == "dispatch_error" and chain(sc.deref(c_.func.value)) == "self.token_manager"):
                    continue
                b_ = _bound(c_, ["exception", "remote"])
                r2 = b_.get("remote") if b_ else None
                cn = cfg.loc1(c_)
                if rv is not None and r2 is not None and ke.aval(sc, r2) == rv and (cfg.must_pass(nid, [cn]) or cfg.dominates(cn, nid)):
                    ok = True
            ctx.ob("dropping a backlog fails its requests (dispatch_error for the same remote on every path)", ok, fi, n)
    # The converse: once the requests waiting behind a remote have been failed, none of their messages goes on the
    # wire any more -- "either transmitted or its request failed"; a transport error / time-out drops the backlog,
    # it does not continue it.  Releasing = a dequeue from a per-remote queue, executed by the function itself or
    # by a method of the object it calls (transitively; `_continue_backlog` and whatever wraps it).  A release
    # that can only be reached through a drop of that remote's entry finds nothing of it any more.
    _starters, _removers, callee_name = _exchange_call_graph(prog, cls, ke)

    def dequeues(fi):
        return any(o.level == "elem" and (o.kind in DEQ or o.kind.startswith("ref:")) for o in K.table_ops(ke.scope(fi), BL))

    releasers = K.transitive_methods(cls, dequeues, callee_name)
    ctx.need("_continue_backlog" in releasers, "_continue_backlog does not dequeue from the backlog: the release path is not what the rule understands")
    for fi in mm_funcs(prog):
        sc = ke.scope(fi)
        fails = [c_ for c_ in calls_in(fi.node) if isinstance(c_.func, ast.Attribute) and c_.func.attr == "dispatch_error" and chain(sc.deref(c_.func.value)) == "self.token_manager"]
        if not fails:
            continue
        cfg = cfg_of(fi)
        bops = K.table_ops(sc, BL)
        rel = {}
        for c_ in calls_in(fi.node):
            if callee_name(fi, c_) in releasers:
                for x_ in cfg.locate(c_):
                    rel[x_] = c_
        for o in bops:
            if o.level == "elem" and (o.kind in DEQ or o.kind.startswith("ref:")):
                for x_ in cfg.locate(o.node):
                    rel[x_] = o.node
        for c_ in fails:
            b_ = _bound(c_, ["exception", "remote"])
            r2 = b_.get("remote") if b_ else None
            rv = ke.aval(sc, r2) if r2 is not None else None
            gone = set()
            for o in bops:
                if o.level == "table" and o.kind in ("del", "rebind") and (o.key is None or (rv is not None and ke.aval(sc, o.key) == rv)):
                    gone.update(cfg.locate(o.node))
            T = cfg.locate(c_)
            late = sorted(x_ for x_ in rel if x_ not in T and any(cfg.exists_path(t_, x_, avoid=gone - {x_}) for t_ in T))
            ctx.ob("once the requests held back behind a remote have been failed, none of their messages is released any more", not late, fi, c_,
                   detail="; ".join("`%s` still releases from the backlog" % stmt_text(rel[x_]) for x_ in late) or None)
    ctx.floor("backlog deletions", n_del, 3)


@R.clause("C14.i", "a backlog entry is dropped only when no exchange with that remote stays open: the dropping function takes the remote's exchanges out (or has tested that none is active) and lets nothing start an exchange between that and the drop")
def i(ctx):
    """The half of the invariant `remote in _backlogs <=> an exchange with that remote is active` that C14.a does
    not decide: C14.a shows `exchange => entry` (insertion side) and that a removed exchange is compensated;
    this clause shows `no entry => no exchange` at the exit of every function that drops an entry.  A function
    that drops the entry of remote R while an exchange with R is (still, or again) open leaves a zombie: the next
    CON to R finds no entry, is sent at once next to the open one (two exchanges with one peer), and the ACK /
    time-out of the zombie later finds no backlog.  Decided per drop site D of R's entry on the CFG:

    * evidence E that no exchange with R is open: removal of R's exchange(s) from the exchange table (every
      spelling; the key's remote traced like in C14.a; inductively at most one is open at function entry, a
      transport error removes all of them), retiring the whole table, or a branch outcome of a test that says
      `no key of the table has remote R` (any/all/len/membership spellings, as in C14.d);
    * starters S: direct insertions into the exchange table and calls (executed now, not handed on) of methods of
      the object that transitively record an exchange -- releasing the backlog (`_continue_backlog`), a first
      transmission, a re-armed retransmission, or a helper around any of these that the engine did not expand;
    * obligation 1: no path S ->* D avoids E (after anything that may have opened an exchange, fresh evidence is
      needed before the entry may go); what is started *after* D re-creates the entry itself (C14.a, insertion
      side), so only S before D matters;
    * obligation 2: the function has evidence for R at all (an entry is not dropped by a function that leaves the
      remote's exchange in the table).
    Calls on other objects (token manager, monitors) are not followed: whether a callback re-enters the message
    manager synchronously is outside the rule's vocabulary."""
    prog = ctx.prog
    cls = prog.cls("messagemanager.MessageManager")
    ke = K.KeyEval(prog, cls, AX)

    starters, removers, callee_name = _exchange_call_graph(prog, cls, ke)
    ctx.need("_add_exchange" in starters and "_continue_backlog" in starters, "no method records an exchange / _continue_backlog does not reach one: the call graph of MessageManager is not what the rule understands")
    n_drop = 0
    for fi in mm_funcs(prog):
        if fi.name == "__init__":
            continue
        sc = ke.scope(fi)
        drops = [o for o in K.table_ops(sc, BL) if o.level == "table" and (o.kind in ("del", "rebind") or o.kind.startswith("ref:"))]
        if not drops:
            continue
        cfg = cfg_of(fi)
        aops = K.table_ops(sc, AX)
        S = set()
        for o2 in aops:
            if o2.level == "table" and o2.kind in ("set", "ensure"):
                S.update(cfg.locate(o2.node))
        hidden = []
        for c_ in calls_in(fi.node):
            m_ = callee_name(fi, c_)
            if m_ in starters:
                S.update(cfg.locate(c_))
            elif m_ in removers:
                hidden.append(c_)
        for o in drops:
            n_drop += 1
            ctx.need(not o.kind.startswith("ref:"), "%s: the removing method of the backlog table is handed on as a value (`%s`); when it runs is outside the rule's vocabulary" % (fi.name, stmt_text(o.node)))
            rv = ke.aval(sc, o.key) if o.key is not None else None
            ctx.need(o.key is None or rv is not None, "%s: the key `%s` of the dropped backlog entry is not traced to a parameter" % (fi.name, stmt_text(o.key) if o.key is not None else ""))
            E = set()
            for o2 in aops:
                if o2.level != "table" or o2.kind not in ("del", "rebind"):
                    continue
                if o2.kind == "rebind" or o2.key is None:
                    E.update(cfg.locate(o2.node))  # every exchange is forgotten
                elif rv is not None:
                    alts = ke.key_alternatives(sc, o2.key)
                    if alts and all(rv in rs for rs, _ in alts):
                        E.update(cfg.locate(o2.node))
            if rv is not None:
                for nd in cfg.nodes:
                    if nd.kind in ("T", "F") and nd.ast is not None and not isinstance(nd.ast, (ast.For, ast.AsyncFor)):
                        ap = ke.exists_polarity(sc, nd.ast, rv)
                        if ap is not None and (nd.kind == "T") != ap:
                            E.add(nd.id)
            if not E and hidden:
                ctx.need(False, "%s: exchanges are taken out of the table inside `%s`, which the engine did not expand; which remote's exchanges go is outside the rule's vocabulary" % (fi.name, stmt_text(hidden[0])))
            ctx.ob("a function that drops a remote's backlog entry takes that remote's exchanges out of the table (or has tested that none is active)", bool(E), fi, o.node,
                   detail="remote: %s" % (stmt_text(o.key) if o.key is not None else "every remote"))
            D = set(cfg.locate(o.node))
            late = sorted(s_ for s_ in S if s_ in D or any(cfg.exists_path(s_, d_, avoid=E - {s_}) for d_ in D))
            ctx.ob("nothing that may start an exchange with the remote runs between the last evidence that none is open and the drop of its backlog entry (no zombie exchange without a backlog entry)",
                   not late, fi, o.node,
                   detail="; ".join("`%s` reaches the drop with no removal of the remote's exchanges / no `none active` test in between" % stmt_text(cfg.nodes[s_].ast) for s_ in late if cfg.nodes[s_].ast is not None) or None)
    ctx.floor("backlog entry drops", n_drop, 3)


def _caller_data(av):
    """The abstract value is determined by what the function was handed (a parameter other than the object itself,
    or an attribute chain of one) -- not by the object's own state and not by an iteration / search."""
    if av is None:
        return False
    if av[0] == "param":
        return av[1] not in ("self", "cls")
    if av[0] == "attr":
        return _caller_data(av[1])
    return False


def _names_one_exchange(ke, av, eqs):
    """The key of an access to the exchange table names ONE exchange completely: its remote component AND its
    message-ID component are both (equal to) data the function was handed.  Equalities valid at the site (filters
    of comprehensions, dominating branch outcomes) count: `for k in table: if k == (m.remote, m.mid): pop(k)`
    names the same exchange as `pop((m.remote, m.mid))`.  A key whose message ID is whatever the table happens to
    hold for a remote (iteration, search, `next(...)`, object state) does not."""
    if av is None:
        return False
    wholes = [x for x in ke.closure(av, eqs) if x is not None]
    for w in wholes:
        c0, c1 = K.comp(w, 0), K.comp(w, 1)
        if c0 is None or c1 is None:
            continue
        if w[0] == "tuple" and len(w[1]) != 2:
            continue
        if any(_caller_data(x) for x in ke.closure(c0, eqs)) and any(_caller_data(x) for x in ke.closure(c1, eqs)):
            return True
    return False


@R.clause("C14.k", "an exchange ends only by an event that names it: every removal from the exchange table addresses the complete key (remote and message ID both handed to the function) or, when exchanges are selected by remote alone, fails that remote's requests")
def k(ctx):
    """`each as soon as, and ONLY WHEN, the previous exchange has been acknowledged, reset or has failed`; `none is
    forgotten`.  C14.a/C14.i keep the two tables consistent with each other, whatever exchange is taken out; this
    clause is about WHICH exchange may be taken out.  The events that end an exchange name it by remote and message
    ID (an ACK / RST carries the message ID; a time-out belongs to the message whose timer fired) -- except the
    transport error, which is reported for an endpoint and ends everything bound for it *by failing it*.  So, as an
    invariant over every remover of the exchange table (every spelling K.table_ops knows; whatever method it
    sits in, old or new):

    * the removed key is complete -- both components are data handed to the function (parameters or attribute
      chains of parameters other than self), directly, through locals, or through equalities that dominate the
      site -- or
    * the function selects by less than that (iteration over the table filtered by remote, a search, object
      state): then every selected key belongs to a remote R (as in C14.a) and the function calls
      token_manager.dispatch_error(.., R) on every path through the removal (before or after it) -- the exchange
      ends as failed, its request and the held-back ones are failed (C14.f/C14.h; and C14.f's converse forbids
      releasing the backlog afterwards).

    An exchange that is taken out by remote alone without failing anything was neither acknowledged (no event
    named it) nor failed: its message is not retransmitted any more, its request never completes, and the next
    held-back message goes out next to it.  Retiring the whole table (shutdown marker, clear) is C14.a's matter;
    a removing method handed on as a value is reported there as well."""
    prog = ctx.prog
    cls = prog.cls("messagemanager.MessageManager")
    ke = K.KeyEval(prog, cls, AX)
    n_rem = 0
    n_complete = 0
    for fi in mm_funcs(prog):
        sc = ke.scope(fi)
        rem = [o for o in K.table_ops(sc, AX) if o.level == "table" and o.kind == "del" and o.key is not None]
        if not rem:
            continue
        cfg = cfg_of(fi)
        fails = []
        for c_ in calls_in(fi.node):
            if isinstance(c_.func, ast.Attribute) and c_.func.attr == "dispatch_error" and chain(sc.deref(c_.func.value)) == "self.token_manager":
                b_ = _bound(c_, ["exception", "remote"])
                r2 = b_.get("remote") if b_ else None
                rv = ke.aval(sc, r2) if r2 is not None else None
                if rv is not None:
                    fails.append((c_, rv))
        for o in rem:
            n_rem += 1
            av = ke.aval(sc, o.key)
            eqs = ke.guards_eqs(sc, o.key, None)
            if _names_one_exchange(ke, av, eqs):
                n_complete += 1
                ctx.ob("an exchange is taken out of the table under its complete key (remote and message ID handed to the function), or by a function that fails the remote's requests", True, fi, o.node,
                       detail="complete key `%s`" % stmt_text(o.key))
                continue
            alts = ke.key_alternatives(sc, o.key)
            nid = cfg.loc1(o.node)
            ok = bool(alts)
            for rs, _origin in alts:
                if not rs:
                    ok = False
                    continue
                if not any(rv in rs and (cfg.must_pass(nid, cfg.locate(c_)) or any(cfg.dominates(x_, nid) for x_ in cfg.locate(c_))) for c_, rv in fails):
                    ok = False
            ctx.ob("an exchange is taken out of the table under its complete key (remote and message ID handed to the function), or by a function that fails the remote's requests", ok, fi, o.node,
                   detail="`%s` does not name the exchange by remote and message ID (%s)%s" % (
                       stmt_text(o.key), "; ".join(w for _, w in alts) or "origin not tracked",
                       "" if ok else ": whichever exchange is open with the remote is ended although no ACK / RST / time-out named it and nothing is failed"))
    ctx.floor("keyed removal sites of _active_exchanges", n_rem, 2)
    ctx.floor("removals under the complete key", n_complete, 1)


@R.clause("C14.g", "an acknowledgement always ends the exchange ahead of the queue: every incoming ACK/RST reaches _remove_exchange (shared with C03.e)")
def g_shared(ctx):
    from . import c03
    c03.e(ctx)


@R.clause("C14.h", "when a backlog is dropped its requests really fail: the token manager fails every outstanding request of that remote, each through its own stopper (shared with C02.e)")
def h_shared(ctx):
    from . import c02
    c02.e(ctx)
    c02.j_forward(ctx)


@R.clause("C14.j", "what is confirmable on the wire is confirmable for the bookkeeping: the message type is compared by identity only over a closed domain (every store into <message>.mtype puts None or a member of Type there)")
def j(ctx):
    """The clauses above evaluate the type decisions of send_message / _send_initially over the finite domain
    {CON, NON, ACK, RST, None} and treat `mtype == CON`, `mtype is CON` and `mtype in (CON, ..)` as the same test.
    That is justified by an invariant two sites maintain together:

    * site A, every store into the `mtype` attribute of a message (Message.__init__, copy, decode, the defaulting in
      send_message, the proxy, ...) stores None or a *member* of the enumeration `Type` (members are singletons:
      `Type(x)` returns the member itself), never the plain wire number;
    * site B, the decisions of the message layer that compare the attribute by identity (`is CON` opens the
      exchange in _send_initially, `is CON` answers duplicates, `is RST` ...).

    `Type` is an IntEnum: a message whose type is the plain integer 0 is `== CON`, is serialised as a confirmable
    message and is retransmitted by nobody, because `0 is CON` is false -- no exchange is opened and no backlog
    entry is created, so every further CON to that peer goes on the wire at once (NSTART=1 broken) while
    send_message (equality) takes it for a CON.  Either site may change: when no decision of the message layer
    compares by identity any more, the stores are free; while one does, every store must stay inside the domain.

    Decided by abstract evaluation (K.FieldDomain: forward data-flow per function with refinement at branch
    outcomes, truthiness-aware `and` / `or` / conditional expressions, calls into the package followed) of the
    value of every store, in every spelling of a store -- never by the text of the constructor."""
    prog = ctx.prog
    fd = K.FieldDomain(prog, "mtype", "numbers.types.Type")
    ctx.need(fd.is_enum and len(fd.members) >= 4, "numbers.types.Type is not an enumeration with the four message types: the domain of `mtype` is not what the rule understands")
    msg = prog.cls("message.Message")
    ctx.need("mtype" not in msg.methods, "Message.mtype is a method / property: its storage is outside the rule's vocabulary")
    cls = prog.cls("messagemanager.MessageManager")

    # site B: identity comparisons of a message type with a member of Type in the message layer
    ident = []
    for mfi in cls.methods.values():
        sc = K.Scope(mfi)

        def is_type_read(e):
            e = sc.deref(e) if isinstance(e, ast.Name) else e
            return isinstance(e, ast.Attribute) and e.attr == "mtype"

        def is_member(e):
            head = e
            while isinstance(head, ast.Attribute):
                head = head.value
            if not isinstance(head, ast.Name) or head.id in fd.locals_of(mfi):
                return False
            return fd.member_of(mfi.module, e) is not None

        for n in ast.walk(mfi.node):
            if not isinstance(n, ast.Compare):
                continue
            left = n.left
            for op, right in zip(n.ops, n.comparators):
                if isinstance(op, (ast.Is, ast.IsNot)) and ((is_type_read(left) and is_member(right)) or (is_type_read(right) and is_member(left))):
                    ident.append((mfi, ast.Compare(left=left, ops=[op], comparators=[right])))
                left = right
    where = sorted({"%s: `%s`" % (f_.name, K.txt(c_)) for f_, c_ in ident})
    if not ident:
        ctx.note("no decision of MessageManager compares a message type by identity: the representation of `mtype` is immaterial to the bookkeeping")

    # site A: the stores
    stores = fd.stores()
    ctx.floor("stores into <message>.mtype in the package", len(stores), 5)
    in_msg = [s_ for s_ in stores if s_[0] is not None and s_[0].short.startswith("message.Message.")]
    ctx.floor("stores into .mtype by the methods of Message (constructor, copy, decode)", len(in_msg), 2)
    cv = prog.class_attr(msg.qn, "mtype")
    if cv is not None and cv[0] is not None:
        vals = fd.eval(None, cv[1].module, cv[0], {})
        bad = sorted(w for k, w, _ in vals if k != "none" and k != "member")
        ctx.need(not bad or not ident, "the class-level default of Message.mtype is %s: outside the rule's vocabulary" % ", ".join(bad))
    for fi, module, stmt, value, fixed, how in stores:
        ctx.need(fi is not None, "`%s` stores a message type at module / class level: when it runs is outside the rule's vocabulary" % stmt_text(stmt))
        vals = fd.stored_values(fi, module, stmt, value, fixed)
        if vals is None:
            ctx.note("%s: `%s` is unreachable" % (fi.short, stmt_text(stmt)))
            continue
        raw = sorted({w for k, w, _ in vals if k == "raw"})
        opq = sorted({w for k, w, _ in vals if k == "opaque"})
        if ident and opq and not raw:
            ctx.need(False, "%s: what `%s` stores as the message type is not traced (%s)" % (fi.short, stmt_text(stmt), "; ".join(opq)))
        ctx.ob("a message's type is stored as None or as a member of Type wherever the message layer compares it by identity (a plain 0 is serialised as CON, but opens no exchange and creates no backlog entry)",
               not ident or not raw, fi, stmt,
               detail=("may store %s; compared by identity in %s" % ("; ".join(raw + opq), "; ".join(where))) if raw and ident else None)


# reference domain for constructor arguments of endpoint addresses: socket addresses as the socket module hands them
# out (AF_INET6: (host, port, flowinfo, scope_id), each component varied on its own), host names, and two distinct
# objects the evaluation does not look into (interfaces, connections, contexts)
_ADDR_POOL = (
    ("2001:db8::1", 5683, 0, 0),
    ("2001:db8::1", 5683, 0, 3),
    ("2001:db8::1", 5683, 1, 0),
    ("2001:db8::1", 5684, 0, 0),
    ("2001:db8::2", 5683, 0, 0),
    "host.example",
    "other.example",
)


@R.clause("C14.l", "the tables are keyed by the remote: remotes that compare equal hash equally (every endpoint-address class with its own __eq__ / __hash__, run over a finite domain of addresses), so the membership test, the backlog lookup and the exchange lookup find the entry made under an equal remote")
def l(ctx):
    """`remote in self._backlogs`, `self._backlogs[remote]` and `(remote, mid) in self._active_exchanges` are dict
    operations: they find the entry created for an *equal* remote only if equal remotes hash equally.  An address
    class is free to ignore parts of the address in __eq__ (UDP6EndpointAddress ignores the scope id and the local
    address: the remote of a request built from a URI with a zone identifier and the remote of the datagram that
    answers it are the same peer), but then __hash__ must ignore them as well -- otherwise the second CON to that
    peer does not see the backlog entry of the first (two CONs in flight) and the ACK does not find the exchange.

    Decided by running the class's own constructor, __eq__ and __hash__ (K.KeyObjects, a concrete interpreter of
    the straight-line / branching subset such methods are written in; properties, helper methods, cached hashes,
    NotImplemented for foreign operands are all just evaluated) on every pair of instances built from the reference
    domain above: a pair that compares equal and hashes differently is the witness of a violation.  What the
    interpreter cannot run is refused.  Also Python's own rule: a class body that defines __eq__ without __hash__
    makes its instances unhashable (no exchange could be opened at all)."""
    prog = ctx.prog
    base = prog.cls("interfaces.EndpointAddress")
    n_cls = n_pairs = 0
    for q in sorted(prog.subclasses(base.qn)):
        if q == base.qn:
            continue
        ci = prog.classes[q]
        ko = K.KeyObjects(prog)
        eqd, hd = ko.lookup(ci, "__eq__"), ko.lookup(ci, "__hash__")
        if eqd is None and hd is None:
            continue  # identity, or inherited from a builtin value type (namedtuple): consistent by construction
        n_cls += 1
        short = q.rsplit(".", 1)[-1]
        pin = (hd or eqd)
        pin_fi = pin[1] if pin[0] == "method" else None
        # Python: the first class along the MRO whose body defines __eq__ or __hash__ decides hashability
        first = next(c for c in (prog.classes.get(x) for x in prog.mro(q)) if c is not None and any(n in c.methods or n in c.attrs for n in ("__eq__", "__hash__")))
        for x in prog.mro(q):
            c = prog.classes.get(x)
            ctx.need(c is None or not c.node.decorator_list or c is base, "%s: class decorator on %s may generate or replace __eq__ / __hash__" % (short, x))
        ctx.need(all(k is None or k[0] == "method" for k in (eqd, hd)), "%s: __eq__ / __hash__ bound by assignment in the class body" % short)
        hashable = "__hash__" in first.methods
        ctx.ob("an endpoint-address class whose body defines __eq__ defines __hash__ as well (otherwise Python makes its instances unhashable and no remote of that class can key a backlog or an exchange)",
               hashable, pin_fi, pin_fi.node if pin_fi else None, construct="class %s: __eq__ / __hash__" % short)
        if not hashable or eqd is None:
            continue  # __hash__ alone: equality is identity, one object has one hash as long as __hash__ is a function (run below for eq classes only)
        try:
            insts = ko.instances(ci, list(_ADDR_POOL) + [K.KOpaque("an object", plain=True), K.KOpaque("another object", plain=True)])
            ctx.need(len(insts) >= 2, "%s: the constructor accepts fewer than two of the reference arguments: nothing to compare" % short)
            hashes = {}
            for a in insts:
                try:
                    hashes[id(a)] = ko.hash_of(a)
                except (K._KRaised, TypeError, ValueError, IndexError, KeyError, AttributeError):
                    pass  # hashing this instance raises in the library too: it never becomes a key
            witness = None
            for a in insts:
                for b in insts:
                    if a is b or id(a) not in hashes or id(b) not in hashes:
                        continue
                    try:
                        same_ = ko.truth(ko.equal(a, b))
                    except (K._KRaised, TypeError, ValueError, IndexError, KeyError, AttributeError):
                        continue
                    if same_:
                        n_pairs += 1
                        # a cached hash may be filled in lazily: ask again after the comparison
                        if ko.hash_of(a) != ko.hash_of(b) and witness is None:
                            witness = (a, b)
        except K.KUnsupported as ex:
            ctx.need(False, "%s: __init__ / __eq__ / __hash__ cannot be run by the rule's interpreter: %s" % (short, ex))
        hfi = hd[1]
        ctx.ob("remotes that compare equal hash equally: a table entry made under one of them is found under the other (membership test of send_message, backlog and exchange lookups)",
               witness is None, hfi, hfi.node, construct="class %s: __eq__ / __hash__" % short,
               detail=None if witness is None else "%r == %r, but their hashes differ" % witness)
    ctx.floor("endpoint-address classes with their own __eq__ / __hash__", n_cls, 1)
    ctx.floor("pairs of distinct, equal remotes the hashes were compared on", n_pairs, 1)


F_MM = "aiocoap/messagemanager.py"
R.seed("C14.a", F_MM, "        self.log.debug(\"Exchange removed, message ID: %d.\", message.mid)\n\n        self._continue_backlog(message.remote)\n", "        self.log.debug(\"Exchange removed, message ID: %d.\", message.mid)\n", "backlog never continued")
R.seed("C14.a", F_MM, "        if message.remote not in self._backlogs:\n            self._backlogs[message.remote] = []\n", "", "no backlog entry for the new exchange")
R.seed("C14.a", F_MM, "        self._backlogs.pop(remote, ())\n", "", "dispatch_error leaves the backlog behind")
R.seed("C14.a", F_MM, "        if message.mtype is RST:\n            messageerror_monitor()\n", "        if message.mtype is RST:\n            messageerror_monitor()\n            return\n", "RST does not continue the backlog")
R.seed("C14.b", F_MM, "        if message.mtype == CON and message.remote in self._backlogs:", "        if message.remote in self._backlogs:", "NONs queued too")
R.seed("C14.b", F_MM, "        if message.mtype == CON and message.remote in self._backlogs:", "        if message.mtype == CON and message.remote in self._active_exchanges:", "wrong table")
R.seed("C14.b", F_MM, "            self._backlogs[message.remote].append((message, messageerror_monitor))\n        else:\n            self._send_initially(message, messageerror_monitor)", "            self._backlogs[message.remote].append((message, messageerror_monitor))\n        self._send_initially(message, messageerror_monitor)", "sent although queued")
R.seed("C14.c", F_MM, "self._backlogs[remote].pop(0)", "self._backlogs[remote].pop()", "LIFO")
R.seed("C14.b", F_MM, "        if message.mtype == CON and message.remote in self._backlogs:", "        if message.mtype == CON and self._backlogs.get(message.remote):", "truthiness instead of membership: an empty backlog entry (exchange open, nothing queued yet) lets the next CON through")
R.seed("C14.d", F_MM, "        while not any(r == remote for r, mid in self._active_exchanges.keys()):", "        while True:", "releases everything at once")
R.seed("C14.d", F_MM, "            if self._backlogs[remote] != []:\n                next_message", "            if self._backlogs[remote] == []:\n                next_message", "inverted emptiness test")
R.seed("C14.d", F_MM, "                del self._backlogs[remote]\n                break", "                del self._backlogs[remote]", "loop continues after delete")
R.seed("C14.e", F_MM, "        if message.mtype is CON:\n            assert messageerror_monitor is not None", "        if message.mtype is not None:\n            assert messageerror_monitor is not None", "exchange for non-CON")
R.seed("C14.e", F_MM, "        if message.mtype is CON:\n            assert messageerror_monitor is not None, (\n                \"messageerror_monitor needs to be set for CONs\"\n            )\n            self._add_exchange(message, messageerror_monitor)\n\n        self._store_response_for_duplicates(message)\n\n        self._send_via_transport(message)\n", "        self._store_response_for_duplicates(message)\n\n        self._send_via_transport(message)\n\n        if message.mtype is CON:\n            assert messageerror_monitor is not None, (\n                \"messageerror_monitor needs to be set for CONs\"\n            )\n            self._add_exchange(message, messageerror_monitor)\n", "exchange registered after sending: a synchronous send error leaves a zombie exchange")
R.seed("C14.f", F_MM, "            del self._backlogs[message.remote]\n            self.token_manager.dispatch_error(\n                error.ConRetransmitsExceeded(\"Retransmissions exceeded\"), message.remote\n            )", "            del self._backlogs[message.remote]", "queued requests forgotten on give-up")
R.seed("C14.f", F_MM, "        self.token_manager.dispatch_error(error, remote)\n\n        keys_for_removal = []", "        keys_for_removal = []", "queued requests forgotten on transport error")

R.seed("C14.a", F_MM, "            if remote == exchange_remote:\n                keys_for_removal.append(key)", "            if True:\n                keys_for_removal.append(key)", "a transport error of one peer ends the exchanges of all peers; their backlogs are never continued")
R.seed("C14.a", F_MM, "        if message.remote not in self._backlogs:\n            self._backlogs[message.remote] = []\n", "        if message.remote not in self._backlogs:\n            self._backlogs[message.mid] = []\n", "backlog entry created under a key that is not the remote")
R.seed("C14.b", F_MM, "        if message.mtype == CON and message.remote in self._backlogs:", "        if message.mtype == CON and message.remote in self._backlogs and message.opt.observe is None:", "a further condition lets some CONs bypass the queue")
R.seed("C14.c", F_MM, "            self._backlogs[message.remote].append((message, messageerror_monitor))", "            self._backlogs[message.remote].insert(0, (message, messageerror_monitor))", "enqueue at the head: LIFO")
R.seed("C14.d", F_MM, "            if self._backlogs[remote] != []:\n                next_message", "            if len(self._backlogs[remote]) > 1:\n                next_message", "an entry that still holds one message is deleted")
R.seed("C14.d", F_MM, "                next_message, messageerror_monitor = self._backlogs[remote].pop(0)\n", "                messageerror_monitor, next_message = self._backlogs[remote].pop(0)\n", "monitor and message swapped on release")
R.seed("C14.e", F_MM, "        rst = Message(_mtype=RST, _mid=message.mid, code=EMPTY, payload=b\"\")\n        rst.remote = message.remote.as_response_address()\n        # not going", "        rst = Message(_mtype=CON, _mid=message.mid, code=EMPTY, payload=b\"\")\n        rst.remote = message.remote.as_response_address()\n        # not going", "a CON bypasses the queue")
R.seed("C14.g", F_MM, "        if message.code.is_request():\n            # Responses", "        if not message.code.is_response():\n            # Responses", "empty ACK/RST pass the duplicate filter first: an ACK with a recently seen message ID never ends the exchange")
R.seed("C14.h", "aiocoap/tokenmanager.py", "                    lambda request=request, exception=exception: request.add_exception(\n                        exception\n                    )", "                    lambda: request.add_exception(\n                        exception\n                    )", "held-back requests are neither sent nor failed")

# third pass: the entry may go only when no exchange of that remote stays (or comes) open; direct hand-overs to the transport
R.seed("C14.i", F_MM, "            cancellable_timeout.cancel()\n            # not triggering the messageerror_monitor", "            cancellable_timeout.cancel()\n            self._continue_backlog(remote)\n            # not triggering the messageerror_monitor", "a transport error releases the next held-back message (a new exchange) and then drops the backlog entry: zombie exchange")
R.seed("C14.i", F_MM, "            del self._backlogs[message.remote]\n            self.token_manager.dispatch_error(\n                error.ConRetransmitsExceeded(", "            self._continue_backlog(message.remote)\n            del self._backlogs[message.remote]\n            self.token_manager.dispatch_error(\n                error.ConRetransmitsExceeded(", "the time-out releases the next held-back message and then drops the entry of the remote it was just sent to")
R.seed("C14.i", F_MM, "            (messageerror_monitor, cancellable_timeout) = self._active_exchanges.pop(k)\n            cancellable_timeout.cancel()", "            (messageerror_monitor, cancellable_timeout) = self._active_exchanges[k]\n            cancellable_timeout.cancel()", "a transport error cancels the timers but leaves the exchanges in the table while the backlog entry goes")
R.seed("C14.e", F_MM, "        rst = Message(_mtype=RST, _mid=message.mid, code=EMPTY, payload=b\"\")\n        rst.remote = message.remote.as_response_address()\n        # not going via send_message because that would strip the mid, and we\n        # already know that it can go straight to the wire\n        self._send_initially(rst)", "        rst = Message(_mtype=CON, _mid=message.mid, code=EMPTY, payload=b\"\")\n        rst.remote = message.remote.as_response_address()\n        self._send_via_transport(rst)", "a confirmable message handed to the transport directly: neither queued nor tracked")
R.seed("C14.e", F_MM, "            self._backlogs[message.remote].append((message, messageerror_monitor))\n        else:\n            self._send_initially(message, messageerror_monitor)", "            self._backlogs[message.remote].append((message, messageerror_monitor))\n        else:\n            self._store_response_for_duplicates(message)\n            self._send_via_transport(message)", "send_message hands what it does not queue directly to the transport: the first CON to a peer opens no exchange, so nothing is ever held back")
R.seed("C14.f", F_MM, "                error.ConRetransmitsExceeded(\"Retransmissions exceeded\"), message.remote\n            )\n", "                error.ConRetransmitsExceeded(\"Retransmissions exceeded\"), message.remote\n            )\n            if message.remote in self._backlogs:\n                self._continue_backlog(message.remote)\n", "after failing the held-back requests the time-out still tries to release them")

# fifth pass: the domain of the message type (identity comparisons need members of Type, not wire numbers)
R.seed("C14.j", "aiocoap/message.py", "            self.mtype = Type(_mtype)\n", "            self.mtype = _mtype\n", "the constructor stores the caller's wire number as is: Message(_mtype=0) is a CON on the wire but `is CON` is false, no exchange is opened")
R.seed("C14.j", "aiocoap/message.py", "        new.mtype = Type(kwargs.pop(\"mtype\")) if \"mtype\" in kwargs else self.mtype\n", "        new.mtype = kwargs.pop(\"mtype\", self.mtype)\n", "copy(mtype=0) yields a confirmable message the bookkeeping does not recognise")
R.seed("C14.j", "aiocoap/message.py", "        msg.mtype = Type(mtype)\n", "        msg.mtype = mtype\n", "decoded messages carry the plain two-bit number: no incoming type is ever `is CON` / `is RST`")
R.seed("C14.j", "aiocoap/message.py", "        if _mtype is None:\n            # leave it unspecified for convenience, sending functions will know what to do\n            self.mtype = None\n        else:\n            self.mtype = Type(_mtype)\n", "        self.mtype = _mtype if not _mtype else Type(_mtype)\n", "only truthy wire numbers are normalised: 0 (CON) stays a plain integer")
# C14.k: which exchange an event may end
R.seed("C14.k", F_MM, "        key = (message.remote, message.mid)\n\n        if key not in self._active_exchanges:\n            # Before turning", "        key = next((k for k in self._active_exchanges if k[0] == message.remote), None)\n\n        if key not in self._active_exchanges:\n            # Before turning", "an ACK / RST ends whatever exchange is open with its sender, whatever message ID it carries")
R.seed("C14.k", F_MM, "        messageerror_monitor, next_retransmission = self._active_exchanges.pop(key)\n        next_retransmission.cancel()\n        if message.mtype is RST:", "        for key in [k for k in self._active_exchanges if k[0] == message.remote]:\n            messageerror_monitor, next_retransmission = self._active_exchanges.pop(key)\n        next_retransmission.cancel()\n        if message.mtype is RST:", "every exchange with the sender of an ACK is ended, not the one it names")
R.seed("C14.k", F_MM, "        self.token_manager.dispatch_error(error, remote)\n\n        keys_for_removal = []", "        keys_for_removal = []", "exchanges selected by remote alone are dropped and nothing is failed")
F_UDP6 = "aiocoap/transports/udp6.py"
R.seed("C14.l", F_UDP6, "        return hash(self.sockaddr[:-1])\n", "        return hash(self.sockaddr)\n", "the hash covers the scope id that __eq__ ignores: the remote of a request with a zone identifier and the remote of its ACK are equal but land in different buckets -- `remote in _backlogs` misses, two CONs in flight")
R.seed("C14.l", F_UDP6, "        return self.sockaddr[:-1] == other.sockaddr[:-1]\n", "        return self.sockaddr[:2] == other.sockaddr[:2]\n", "__eq__ made coarser than __hash__ (flow info ignored by the comparison only)")
R.seed("C14.l", F_UDP6, "    def __hash__(self):\n        return hash(self.sockaddr[:-1])\n\n", "", "__eq__ without __hash__: remotes are unhashable")
R.seed("C14.l", F_UDP6, "        return hash(self.sockaddr[:-1])\n", "        return hash((self.sockaddr[:-1], self.pktinfo))\n", "the hash includes the local address, which equality ignores")
R.seed("C14.l", "aiocoap/transports/slipmux.py", "        return hash(self._host)\n", "        return hash((self._host, self._interface))\n", "the hash of a serial-line remote includes the interface reference its __eq__ ignores")

