"""C05 Block-wise client: both bodies intact or a loud failure."""

import ast
import copy
from fractions import Fraction

from ..rulekit import *
from ..norm import Normalizer, Poly, NormError, pow2

R = Rules(
    "C05",
    explanation=(
        "Structural clauses of the client side of RFC 7959 decided on the syntax trees of message.py, "
        "optiontypes.py and protocol.py.  Arithmetic clauses are decided by the checker's own evaluation of "
        "the expressions over the finite domain of the size exponent (0..7, and 0..7 x 0..7 for reduced_to): "
        "every local is replaced by its reaching definitions together with their path conditions, "
        "conditional expressions and min()/max() are split into alternatives, each alternative is brought "
        "into polynomial normal form and compared with the RFC 7959 section 2.2 / RFC 8323 section 6 "
        "reference (size = 2^(SZX+4), start = NUM*size, slice [start, min(start+size, len)), more <=> "
        "end < len, BERT unit 1024).  Ordering clauses are dominance / must-pass rules on per-function CFGs: "
        "the Block1 number comparison precedes every cursor update and its mismatch arm raises, the cursor "
        "advances exactly once per acknowledged block, the size-reduction loop is the transformer "
        "(cursor, szx) -> (cursor*2^k, szx-k) that keeps cursor*2^(szx+4), the final block refuses "
        "'more'/2.31, three raising guards precede the Block2 append, assembly errors are re-raised and "
        "reach response.set_exception.  Paper step: with these premises the offsets sent are contiguous and "
        "the assembled body is a concatenation of in-order blocks of one representation.  Not decided: "
        "end-to-end byte identity over a lossy network, the independent server's behaviour."
    ),
    rule_text=(
        "reaching-definition expansion + polynomial normal forms over a finite exponent domain, "
        "dominating-guard facts, must-pass path rules, class-hierarchy facts"
    ),
)

MSG = "message.Message."
BT = "optiontypes.BlockOption.BlockwiseTuple."
BR = "protocol.BlockwiseRequest."


# ===========================================================================
# Expansion helper (shared with c07): evaluate an expression at a CFG node as a
# list of alternatives (expression without multi-definition locals / IfExp /
# min / max, path conditions).  Nothing here looks at names of locals or at
# statement positions; it follows definitions and branch outcomes.
# ===========================================================================

_PURE_BUILTINS = {"len", "min", "max", "int", "bool", "abs"}
_IMPURE_NODES = (ast.Await, ast.Yield, ast.YieldFrom, ast.NamedExpr, ast.Lambda, ast.ListComp, ast.SetComp,
                 ast.DictComp, ast.GeneratorExp, ast.JoinedStr)


def _default_pure(call):
    return chain(call.func) in _PURE_BUILTINS


def first_leaf_test(e):
    """Left-most atomic operand of a (possibly negated / short-circuit) test."""
    while True:
        if isinstance(e, ast.BoolOp):
            e = e.values[0]
        elif isinstance(e, ast.UnaryOp) and isinstance(e.op, ast.Not):
            e = e.operand
        else:
            return e


def test_nid(cfg, test):
    ids = cfg.locate(first_leaf_test(test))
    if not ids:
        raise AnalysisError("test %s has no CFG node" % stmt_text(test))
    return ids[0]


def rreach(cfg, dst, avoid=()):
    """Nodes from which dst is reachable (>= 1 edge) without entering `avoid`."""
    avoid = set(avoid)
    seen = set()
    todo = [dst]
    while todo:
        n = todo.pop()
        for p, _lab in cfg.pred[n]:
            if p in avoid or p in seen:
                continue
            seen.add(p)
            todo.append(p)
    return seen


class Expander:
    LIMIT = 20000

    def __init__(self, fi, subst=None, inline=None, pure=None, minmax=True, path_conds=True):
        self.fi = fi
        self.cfg = cfg_of(fi)
        self.subst = subst or {}
        self.inline = inline or {}
        self.pure = pure or _default_pure
        self.minmax = minmax
        self.path_conds = path_conds
        self._w = {}
        self._subs = {}
        self._active = set()
        self._count = 0

    # -- definitions ---------------------------------------------------
    def writes(self, name):
        if name not in self._w:
            out = []
            for st in writes_to_name(self.fi.node, name):
                for nid in self.cfg.locate(st):
                    if self.cfg.nodes[nid].kind in ("T", "F"):
                        continue
                    out.append((nid, st))
            self._w[name] = out
        return self._w[name]

    def _pure_value(self, v):
        for n in ast.walk(v):
            if isinstance(n, _IMPURE_NODES):
                return False
            if isinstance(n, ast.Call) and not self.pure(n):
                return False
        return True

    @staticmethod
    def _def_value(name, st):
        if isinstance(st, ast.Assign) and len(st.targets) == 1 and isinstance(st.targets[0], ast.Name):
            return st.value
        if isinstance(st, ast.AnnAssign) and st.value is not None and isinstance(st.target, ast.Name):
            return st.value
        if isinstance(st, ast.AugAssign) and isinstance(st.target, ast.Name):
            return ast.BinOp(left=ast.Name(id=name, ctx=ast.Load()), op=st.op, right=st.value)
        return None

    def reaching(self, name, nid):
        """([(def node, stmt, value, between-set)], entry_reaches) for the
        definitions of `name` that reach CFG node nid."""
        cfg = self.cfg
        ws = self.writes(name)
        avoid = {n for n, _ in ws} - {nid}
        back = rreach(cfg, nid, avoid) | {nid}
        out = []
        for wn, st in ws:
            if wn == nid and nid not in cfg.reach({wn}, avoid=avoid):
                continue
            fwd = cfg.reach({wn}, avoid=avoid)
            if nid in fwd:
                out.append((wn, st, self._def_value(name, st), fwd & back))
        entry = nid == cfg.entry or nid in cfg.reach({cfg.entry}, avoid=avoid)
        return out, entry

    def _substitutable(self, name, wn, st, value, between, nid):
        if value is None or not self._pure_value(value):
            return False
        cfg = self.cfg
        # the definition must reach the use without going round a loop
        avoid = {n for n, _ in self.writes(name)} - {nid}
        if nid not in cfg.reach({wn}, avoid=avoid, skip_labels=("back",)):
            return False
        # none of the locals the value mentions may be rebound in between
        for y in names_in(value):
            if y == name and isinstance(st, ast.AugAssign):
                continue
            for yn, _ in self.writes(y):
                if yn in between and yn != nid:
                    return False
        return True

    def _path_conditions(self, name, wn, between, nid):
        cfg = self.cfg
        out = []
        seen = set()
        for t, pol, _p in cfg.guards(wn):
            if (id(t), pol) not in seen:
                seen.add((id(t), pol))
                out.append((t, pol))
        avoid = {n for n, _ in self.writes(name)} - {nid}
        for p in sorted(between):
            nd = cfg.nodes[p]
            if nd.kind in ("T", "F") and p != nid:
                if nid not in cfg.reach({wn}, avoid=avoid | {p}):
                    key = (id(nd.ast), nd.kind == "T")
                    if key not in seen:
                        seen.add(key)
                        out.append((nd.ast, nd.kind == "T"))
        return out

    # -- expansion -------------------------------------------------------
    def expand_conds(self, conds, depth=0):
        """conds: [(test expr, polarity)] -> list of tuples of (expanded test, polarity)."""
        alts = [()]
        for t, pol in conds:
            tn = test_nid(self.cfg, t)
            opts = self.expand(t, tn, depth + 1)
            alts = [a + ((t2, pol),) + c2 for a in alts for t2, c2 in opts]
            self._tick(len(alts))
        return alts

    def _tick(self, n):
        self._count += n
        if self._count > self.LIMIT:
            raise AnalysisError("expression expansion in %s exceeds its bound" % self.fi.short)

    def expand(self, e, nid, depth=0):
        """[(expression', conditions)] for expression e evaluated at CFG node nid."""
        if depth > 60:
            raise AnalysisError("expansion too deep in %s" % self.fi.short)
        if isinstance(e, ast.Constant):
            return [(e, ())]
        if isinstance(e, (ast.Lambda, ast.ListComp, ast.SetComp, ast.DictComp, ast.GeneratorExp, ast.JoinedStr)):
            return [(e, ())]
        if isinstance(e, ast.Name):
            return self._name(e, nid, depth)
        if isinstance(e, ast.Attribute):
            c = chain(e)
            if c is not None and c in self.subst:
                return [(self.subst[c], ())]
            if c is not None and c in self.inline:
                return self._inline(c, depth)
        if isinstance(e, ast.IfExp):
            out = []
            for t, c1 in self.expand(e.test, nid, depth + 1):
                for b, c2 in self.expand(e.body, nid, depth + 1):
                    out.append((b, c1 + ((t, True),) + c2))
                for o, c3 in self.expand(e.orelse, nid, depth + 1):
                    out.append((o, c1 + ((t, False),) + c3))
            self._tick(len(out))
            return out
        if self.minmax and isinstance(e, ast.Call) and chain(e.func) in ("min", "max") and len(e.args) == 2 and not e.keywords \
                and not any(isinstance(a, ast.Starred) for a in e.args):
            out = []
            is_min = chain(e.func) == "min"
            for a, ca in self.expand(e.args[0], nid, depth + 1):
                for b, cb in self.expand(e.args[1], nid, depth + 1):
                    lt = ast.Compare(left=a, ops=[ast.Lt()], comparators=[b])
                    out.append((a if is_min else b, ca + cb + ((lt, True),)))
                    out.append((b if is_min else a, ca + cb + ((lt, False),)))
            self._tick(len(out))
            return out
        return self._generic(e, nid, depth)

    def _name(self, e, nid, depth):
        if e.id in self.subst:
            return [(self.subst[e.id], ())]
        ws = self.writes(e.id)
        if not ws:
            return [(e, ())]
        defs, entry = self.reaching(e.id, nid)
        if entry or not defs:
            return [(e, ())]
        if not all(self._substitutable(e.id, wn, st, v, btw, nid) for wn, st, v, btw in defs):
            return [(e, ())]
        out = []
        for wn, st, v, btw in defs:
            key = (e.id, wn, nid)
            if key in self._active:
                raise AnalysisError("loop-carried definition of %s in %s" % (e.id, self.fi.short))
            self._active.add(key)
            try:
                if self.path_conds:
                    calts = self.expand_conds(self._path_conditions(e.id, wn, btw, nid), depth + 1)
                else:
                    calts = [()]
                vals = self.expand(v, wn, depth + 1)
            finally:
                self._active.discard(key)
            for c in calts:
                for v2, c2 in vals:
                    out.append((v2, c + c2))
            self._tick(len(out))
        return out

    def _inline(self, c, depth):
        g = self.inline[c]
        if c not in self._subs:
            self._subs[c] = Expander(g, self.subst, self.inline, self.pure, self.minmax, self.path_conds)
        sub = self._subs[c]
        sub._count = 0
        out = []
        rets = [n for n in walk_no_nested(g.node) if isinstance(n, ast.Return)]
        if not rets or any(r.value is None for r in rets):
            raise AnalysisError("%s cannot be inlined (no value returned on some path)" % g.short)
        if not sub.cfg.must_pass(sub.cfg.entry, [sub.cfg.loc1(r) for r in rets]):
            raise AnalysisError("%s cannot be inlined (falls off the end)" % g.short)
        for r in rets:
            rn = sub.cfg.loc1(r)
            conds = [(t, pol) for t, pol, _ in sub.cfg.guards(rn)]
            for ca in sub.expand_conds(conds, depth + 1):
                for v, c2 in sub.expand(r.value, rn, depth + 1):
                    out.append((v, ca + c2))
        self._tick(len(out))
        return out

    def _generic(self, e, nid, depth):
        slots = []
        for f, v in ast.iter_fields(e):
            if isinstance(v, ast.expr):
                slots.append((f, None, v))
            elif isinstance(v, list):
                for i, item in enumerate(v):
                    if isinstance(item, ast.keyword):
                        slots.append((f, i, item))
                    elif isinstance(item, ast.expr):
                        slots.append((f, i, item))
        if not slots:
            return [(e, ())]
        alts = [({}, ())]
        changed = False
        for f, i, v in slots:
            target = v.value if isinstance(v, ast.keyword) else v
            opts = self.expand(target, nid, depth + 1)
            if len(opts) != 1 or opts[0][0] is not target or opts[0][1]:
                changed = True
            alts = [(dict(d, **{"%s/%s" % (f, i): (f, i, v, x)}), c + cx) for d, c in alts for x, cx in opts]
            self._tick(len(alts))
        if not changed:
            return [(e, ())]
        out = []
        for d, c in alts:
            new = copy.copy(e)
            lists = {}
            for f, i, v, x in d.values():
                if i is None:
                    setattr(new, f, x)
                else:
                    if f not in lists:
                        lists[f] = list(getattr(e, f))
                    if isinstance(v, ast.keyword):
                        lists[f][i] = ast.keyword(arg=v.arg, value=x)
                    else:
                        lists[f][i] = x
            for f, l in lists.items():
                setattr(new, f, l)
            out.append((new, c))
        return out


# -- literals ----------------------------------------------------------------

_FALSY = {"False", "None", "0", "''", "b''", "()", "[]"}


def _const_poly(p):
    return p.const_value() if isinstance(p, Poly) else None


def lit_eval(l):
    """True / False when the literal is decided by constants, else None."""
    k = l[0]
    if k == "lt":
        c = _const_poly(l[1])
        return None if c is None else c < 0
    if k in ("eq", "ne") and len(l) == 2:
        c = _const_poly(l[1])
        if c is None:
            return None
        return (c == 0) if k == "eq" else (c != 0)
    if k in ("is", "isnot") and len(l) == 3:
        a, b = l[1], l[2]
        consts = {"None", "True", "False"}
        if a == b:
            return k == "is"
        if a in consts and b in consts:
            return k == "isnot"
        return None
    if k in ("truth", "nottruth"):
        a = l[1]
        v = None
        if a in _FALSY:
            v = False
        elif a == "True" or a.lstrip("-").isdigit():
            v = True
        if v is None:
            return None
        return v if k == "truth" else not v
    return None


def _neg(l):
    k = l[0]
    if k == "lt":
        return ("lt", -l[1] - Poly.const(1))
    flip = {"eq": "ne", "ne": "eq", "is": "isnot", "isnot": "is", "in": "notin", "notin": "in", "truth": "nottruth", "nottruth": "truth"}
    return (flip[k],) + tuple(l[1:])


def _diff_const(p, q):
    d = p - q
    return d.const_value()


def entails(lits, goal):
    """Sufficient syntactic entailment of one literal by a conjunction (integers)."""
    ev = lit_eval(goal)
    if ev is not None:
        return ev
    if goal in lits:
        return True
    k = goal[0]
    if k == "lt":
        q = goal[1]
        for l in lits:
            if l[0] == "lt":
                c = _diff_const(q, l[1])  # q = p + c, p <= -1
                if c is not None and c <= 0:
                    return True
            elif l[0] == "eq" and len(l) == 2:
                for s in (1, -1):
                    c = _diff_const(q, l[1] * Poly.const(s))  # q = +-p + c = c
                    if c is not None and c < 0:
                        return True
        return False
    if k == "ne" and len(goal) == 2:
        return entails(lits, ("lt", goal[1])) or entails(lits, ("lt", -goal[1]))
    if k == "eq" and len(goal) == 2:
        return entails(lits, ("lt", goal[1] - Poly.const(1))) and entails(lits, ("lt", -goal[1] - Poly.const(1)))
    return False


def simplify(lits):
    """Drop literals decided true; None when the conjunction is contradictory."""
    keep = set()
    for l in lits:
        ev = lit_eval(l)
        if ev is False:
            return None
        if ev is None:
            keep.add(l)
    for l in keep:
        try:
            if _neg(l) in keep:
                return None
        except KeyError:
            pass
        if l[0] in ("lt",) or (l[0] == "eq" and len(l) == 2):
            rest = keep - {l}
            if l[0] == "lt" and entails(rest, ("lt", -l[1] - Poly.const(1))):
                return None
            if l[0] == "eq" and (entails(rest, ("lt", l[1])) or entails(rest, ("lt", -l[1]))):
                return None
        if l[0] == "is":
            for m in keep:
                if m[0] == "is" and m[1] == l[1] and m[2] != l[2] and {m[2], l[2]} <= {"None", "True", "False"}:
                    return None
    return frozenset(keep)


def _dnf(N, e, pol):
    """DNF (list of literal lists) of boolean expression e with polarity."""
    x = e if pol else ast.UnaryOp(op=ast.Not(), operand=e)
    try:
        return [list(c) for c in N.dnf(x)]
    except NormError:
        txt = stmt_text(e)
        return [[("truth" if pol else "nottruth", txt)]]


def nf_conds(N, conds):
    """Expanded conditions -> list of simplified literal sets (alternatives)."""
    alts = [frozenset()]
    for t, pol in conds:
        parts = _dnf(N, t, pol)
        nxt = []
        for a in alts:
            for p in parts:
                s = simplify(a | set(p))
                if s is not None:
                    nxt.append(s)
        alts = nxt
        if not alts:
            break
    return alts


def alts_expr(X, N, e, nid, extra_conds=()):
    """[(literal set, expanded expression)] for e at node nid."""
    out = []
    pre = X.expand_conds(list(extra_conds)) if extra_conds else [()]
    for v, c in X.expand(e, nid):
        for p in pre:
            for lits in nf_conds(N, p + c):
                out.append((lits, v))
    return out


def alts_bool(X, N, e, nid, extra_conds=()):
    """[(literal set, truth value)] for the boolean expression e at node nid:
    every alternative is a conjunction under which e has the given value."""
    out = []
    for lits, v in alts_expr(X, N, e, nid, extra_conds):
        for truth in (True, False):
            for p in _dnf(N, v, truth):
                s = simplify(lits | set(p))
                if s is not None:
                    out.append((s, truth))
    return out


def node_conditions(fi, node):
    """[(test, polarity)] known to hold when `node` executes: dominating branch
    outcomes plus the tests of the enclosing if/while statements (which also
    covers `a or b` tests that no single branch outcome dominates)."""
    cfg = cfg_of(fi)
    out = []
    seen = set()
    for nid in cfg.locate(node)[:1]:
        for t, pol, _ in cfg.guards(nid):
            if (id(t), pol) not in seen:
                seen.add((id(t), pol))
                out.append((t, pol))
    cur = node
    while cur is not None and cur is not fi.node:
        par = cfg.parent.get(id(cur))
        if isinstance(par, (ast.If, ast.While)):
            pol = None
            if any(cur is s for s in par.body):
                pol = True
            elif isinstance(par, ast.If) and any(cur is s for s in par.orelse):
                pol = False
            if pol is not None and not (isinstance(par.test, ast.Constant)) and (id(par.test), pol) not in seen:
                seen.add((id(par.test), pol))
                out.append((par.test, pol))
        cur = par
    return out


def cond_dnf(X, N, fi, node):
    """Simplified DNF (list of literal sets) of the conditions of `node`."""
    out = []
    for c in X.expand_conds(node_conditions(fi, node)):
        out.extend(nf_conds(N, c))
    return out


def holds_at(X, N, fi, node, lit):
    alts = cond_dnf(X, N, fi, node)
    return bool(alts) and all(entails(a, lit) for a in alts)


def canon(X, e, nid):
    """Expression with single-definition locals replaced by their values (no
    path conditions); None when the definitions are ambiguous."""
    saved = X.path_conds
    X.path_conds = False
    try:
        alts = X.expand(e, nid)
    finally:
        X.path_conds = saved
    return alts[0][0] if len(alts) == 1 else None


def canon_chain(X, e, nid):
    c = canon(X, e, nid)
    return chain(c) if c is not None else None


def enclosing_loops(cfg, node, root):
    out = []
    cur = cfg.parent.get(id(node))
    while cur is not None and cur is not root:
        if isinstance(cur, (ast.While, ast.For, ast.AsyncFor)):
            out.append(cur)
        cur = cfg.parent.get(id(cur))
    return out


def exc_class(prog, fi, raise_node):
    """Qualified class of `raise X(...)` / `raise X`, or None."""
    e = raise_node.exc
    if e is None:
        return None
    if isinstance(e, ast.Call):
        e = e.func
    c = chain(e)
    return prog.resolve_in_module(fi.module, c) if c else None


def pseudo_nodes(cfg):
    return [n for n in cfg.nodes if n.kind in ("T", "F") and isinstance(n.ast, ast.expr)]


def pseudo_lits(X, N, cfg, p):
    """Literal-set alternatives asserted by branch pseudo node p."""
    tn = test_nid(cfg, p.ast)
    out = []
    saved = X.path_conds
    X.path_conds = False
    try:
        opts = X.expand(p.ast, tn)
    finally:
        X.path_conds = saved
    for t, _c in opts:
        out.extend(nf_conds(N, ((t, p.kind == "T"),)))
    return out


def pseudo_asserting(X, N, cfg, accept):
    """Ids of the pseudo nodes every alternative of which satisfies accept(literal set)."""
    out = set()
    for p in pseudo_nodes(cfg):
        try:
            alts = pseudo_lits(X, N, cfg, p)
        except AnalysisError:
            continue
        if alts and all(accept(a) for a in alts):
            out.add(p.id)
    return out


def C(v):
    return ast.Constant(value=v)


def P(src, N=None):
    return (N or Normalizer()).poly(ast.parse(src, mode="eval").body)


def unit_exp(s):
    """Exponent of the byte unit of a block number at size exponent s (A.4; BERT counts in 1024)."""
    return min(s, 6) + 4


# ===========================================================================
# C05.a  Message._extract_block
# ===========================================================================


def _kw(call, name):
    for k in call.keywords:
        if k.arg == name:
            return k.value
    return None


@R.clause("C05.a", "_extract_block: size = 2^(szx+4), start = num*size, slice [start, min(start+size, len)), more <=> end < len, option (num, more, szx); out of range raises; BERT unit 1024")
def a(ctx):
    fi = ctx.prog.func(MSG + "_extract_block")
    p = params(fi)
    ctx.need(len(p) == 3, "_extract_block signature changed")
    num, szx, mbs = p
    for q in p:
        ctx.need(not writes_to_name(fi.node, q), "_extract_block rebinds its parameter %s" % q)
    cfg = cfg_of(fi)
    rets = [n for n in walk_no_nested(fi.node) if isinstance(n, ast.Return)]
    ctx.floor("return statements in _extract_block", len(rets), 1)
    ctx.ob("every normal exit of _extract_block returns a block", all(r.value is not None for r in rets) and cfg.must_pass(cfg.entry, [cfg.loc1(r) for r in rets]),
           fi, fi.node, construct="_extract_block")
    N = Normalizer(rename={num: "NUM", mbs: "MAXBERT"})
    L = P("len(self.payload)")
    NUM = Poly.atom("NUM")
    fam = {}  # (return stmt, family) -> list of failure texts

    def rec(r, family, ok, why):
        fam.setdefault((id(r), family), [r, family, []])
        if not ok:
            fam[(id(r), family)][2].append(why)

    nalts = 0
    for s in range(8):
        bert = s == 7
        W = "BERT" if bert else "regular"
        X = Expander(fi, subst={szx: C(s)})
        size = P("1024 * (MAXBERT // 1024)") if bert else Poly.const(2 ** (s + 4))
        start = NUM * Poly.const(2 ** unit_exp(s))
        A = start + size
        for r in rets:
            if r.value is None:
                continue
            for lits, v in alts_expr(X, N, r.value, cfg.loc1(r), node_conditions(fi, r)):
                nalts += 1
                ctx.need(isinstance(v, ast.Call), "_extract_block returns something that is not a call building the block message")
                pay = _kw(v, "payload")
                b1, b2 = _kw(v, "block1"), _kw(v, "block2")
                ctx.need(pay is not None and (b1 is not None) != (b2 is not None), "_extract_block: returned message lacks payload= or exactly one of block1=/block2=")
                ctx.need(isinstance(pay, ast.Subscript) and chain(pay.value) == "self.payload" and isinstance(pay.slice, ast.Slice) and pay.slice.step is None
                         and pay.slice.lower is not None and pay.slice.upper is not None,
                         "_extract_block: payload of the block is not a slice self.payload[lo:hi]")
                try:
                    lo, hi = N.poly(pay.slice.lower), N.poly(pay.slice.upper)
                except NormError as e:
                    raise AnalysisError("_extract_block: slice bounds outside the arithmetic vocabulary: %s" % e)
                t = "szx=%d" % s
                rec(r, "%s: block starts at num * %s" % (W, "1024" if bert else "2^(szx+4)"), lo == start, "%s: start = %r" % (t, lo))
                if hi == A:
                    okhi = entails(lits, ("lt", A - L - Poly.const(1)))
                elif hi == L:
                    okhi = entails(lits, ("lt", L - A - Poly.const(1)))
                else:
                    okhi = False
                rec(r, "%s: block ends at min(start + size, len(payload)) with size = %s" % (W, "1024*(max_bert_size//1024)" if bert else "2^(szx+4)"),
                    okhi, "%s: end = %r under %s" % (t, hi, _show(lits)))
                rec(r, "%s: a block is only produced when start < len(payload) (out of range raises)" % W, entails(lits, ("lt", start - L)), "%s: conditions %s" % (t, _show(lits)))
                is_req = ("truth", "self.code.is_request()") in lits
                is_resp = ("nottruth", "self.code.is_request()") in lits
                rec(r, "%s: requests carry the descriptor in Block1, responses in Block2" % W, (is_req and b1 is not None) or (is_resp and b2 is not None),
                    "%s: %s under %s" % (t, "block1" if b1 is not None else "block2", _show(lits)))
                opt = b1 if b1 is not None else b2
                elts = opt.elts if isinstance(opt, ast.Tuple) else (opt.args if isinstance(opt, ast.Call) and not opt.keywords else None)
                ctx.need(elts is not None and len(elts) == 3, "_extract_block: block option is not a (num, more, szx) triple")
                try:
                    on, os_ = N.poly(elts[0]), N.poly(elts[2])
                except NormError as e:
                    raise AnalysisError("_extract_block: option fields outside the arithmetic vocabulary: %s" % e)
                rec(r, "%s: option carries the requested block number and size exponent" % W, on == NUM and os_ == Poly.const(s), "%s: (num, szx) = (%r, %r)" % (t, on, os_))
                for truth in (True, False):
                    for part in _dnf(N, elts[1], truth):
                        ls = simplify(lits | set(part))
                        if ls is None:
                            continue
                        goal = ("lt", A - L) if truth else ("lt", L - A - Poly.const(1))
                        rec(r, "%s: more flag is set exactly when the block ends before the end of the body" % W, entails(ls, goal),
                            "%s: more=%s under %s" % (t, truth, _show(ls)))
    ctx.floor("evaluated alternatives of _extract_block", nalts, 16)
    for r, family, fails in fam.values():
        ctx.ob(family, not fails, fi, r, detail="; ".join(fails[:4]) if fails else None)


def _show(lits):
    return "{" + ", ".join(sorted(_lit_text(l) for l in lits)) + "}"


def _lit_text(l):
    if l[0] == "lt":
        return "%r < 0" % (l[1],)
    if l[0] in ("eq", "ne") and len(l) == 2:
        return "%r %s 0" % (l[1], "==" if l[0] == "eq" else "!=")
    return " ".join(str(x) for x in l)


# ===========================================================================
# C05.b  BlockwiseTuple
# ===========================================================================


def _returns(fi):
    return [n for n in walk_no_nested(fi.node) if isinstance(n, ast.Return) and n.value is not None]


def _is_property(fi):
    return any(chain(d) == "property" for d in fi.node.decorator_list)


@R.clause("C05.b", "BlockwiseTuple: size = 2^(min(szx,6)+4), start = num*size, payload-size validity, reduced_to keeps start and never raises the exponent")
def b(ctx):
    prog = ctx.prog
    f_size, f_start, f_valid, f_red = (prog.func(BT + n) for n in ("size", "start", "is_valid_for_payload_size", "reduced_to"))
    ctx.need(_is_property(f_size) and _is_property(f_start), "BlockwiseTuple.size/start are no longer properties")
    ci = prog.cls(BT[:-1])
    inline = {"self." + n: m for n, m in ci.methods.items() if _is_property(m) and n not in ("block_number", "more", "size_exponent")}
    N = Normalizer(rename={"self.block_number": "NUM"})
    NUM = Poly.atom("NUM")

    # size, start
    for fi, what, ref in ((f_size, "size == 2^(min(szx,6)+4)", lambda s: Poly.const(2 ** unit_exp(s))),
                          (f_start, "start == block_number * size", lambda s: NUM * Poly.const(2 ** unit_exp(s)))):
        fails = []
        n = 0
        rets = _returns(fi)
        ctx.floor("returns of BlockwiseTuple.%s" % fi.name, len(rets), 1)
        cfg = cfg_of(fi)
        ctx.need(cfg.must_pass(cfg.entry, [cfg.loc1(r) for r in rets]), "BlockwiseTuple.%s can fall off its end" % fi.name)
        for s in range(8):
            X = Expander(fi, subst={"self.size_exponent": C(s)}, inline={k: v for k, v in inline.items() if v is not fi})
            for r in rets:
                for lits, v in alts_expr(X, N, r.value, cfg.loc1(r), [(t, pol) for t, pol, _ in cfg.guards(cfg.loc1(r))]):
                    n += 1
                    try:
                        got = N.poly(v)
                    except NormError:
                        got = None
                    if got != ref(s) or lits:
                        fails.append("szx=%d: %r%s" % (s, got, (" under " + _show(lits)) if lits else ""))
        ctx.floor("evaluations of BlockwiseTuple.%s" % fi.name, n, 8)
        ctx.ob("BlockwiseTuple.%s for every size exponent 0..7" % what, not fails, fi, fi.node, detail="; ".join(fails[:4]) if fails else None,
               construct="BlockwiseTuple.%s" % fi.name)

    # is_valid_for_payload_size
    fi = f_valid
    pp = params(fi)
    ctx.need(len(pp) == 1 and not writes_to_name(fi.node, pp[0]), "is_valid_for_payload_size signature changed")
    Nv = Normalizer(rename={pp[0]: "PS"})
    PS = Poly.atom("PS")
    cfg = cfg_of(fi)
    rets = _returns(fi)
    ctx.floor("returns of is_valid_for_payload_size", len(rets), 1)
    ctx.ob("is_valid_for_payload_size decides on every path", cfg.must_pass(cfg.entry, [cfg.loc1(r) for r in rets])
           and not [n for n in walk_no_nested(fi.node) if isinstance(n, ast.Return) and n.value is None], fi, fi.node, construct="BlockwiseTuple.is_valid_for_payload_size")
    fam = {"more": [], "last": [], "bert-more": [], "bert-last": []}
    cnt = 0
    for s in range(8):
        X = Expander(fi, subst={"self.size_exponent": C(s)}, inline=inline)
        size = Poly.const(2 ** unit_exp(s))
        for r in rets:
            rn = cfg.loc1(r)
            for lits, truth in alts_bool(X, Nv, r.value, rn, [(t, pol) for t, pol, _ in cfg.guards(rn)]):
                cnt += 1
                worlds = []
                if ("nottruth", "self.more") not in lits:
                    worlds.append(True)
                if ("truth", "self.more") not in lits:
                    worlds.append(False)
                rest = frozenset(l for l in lits if l not in (("truth", "self.more"), ("nottruth", "self.more")))
                for more in worlds:
                    if s < 7 and more:
                        goal = ("eq", norm._signnorm(PS - size)) if truth else ("ne", norm._signnorm(PS - size))
                        key = "more"
                    elif s < 7:
                        goal = ("lt", PS - size - Poly.const(1)) if truth else ("lt", size - PS)
                        key = "last"
                    elif more:
                        m = P("PS % 1024")
                        goal = ("eq", m) if truth else ("ne", m)
                        key = "bert-more"
                    else:
                        goal = None
                        key = "bert-last"
                    ok = entails(rest, goal) if goal is not None else truth
                    if not ok:
                        fam[key].append("szx=%d: returns %s under %s" % (s, truth, _show(lits)))
    ctx.floor("evaluated alternatives of is_valid_for_payload_size", cnt, 16)
    texts = {"more": "a block with more-flag is valid exactly when the payload size equals the block size",
             "last": "a final block is valid exactly when the payload size does not exceed the block size",
             "bert-more": "a BERT block with more-flag is valid exactly when the payload is a multiple of 1024",
             "bert-last": "a final BERT block is accepted with any payload size"}
    for key, fails in fam.items():
        ctx.ob(texts[key], not fails, fi, fi.node, detail="; ".join(fails[:4]) if fails else None, construct="BlockwiseTuple.is_valid_for_payload_size [%s]" % key)

    # reduced_to
    fi = f_red
    pp = params(fi)
    ctx.need(len(pp) == 1 and not writes_to_name(fi.node, pp[0]), "reduced_to signature changed")
    cfg = cfg_of(fi)
    rets = _returns(fi)
    ctx.floor("returns of reduced_to", len(rets), 1)
    ctx.ob("reduced_to returns a descriptor on every path", cfg.must_pass(cfg.entry, [cfg.loc1(r) for r in rets])
           and not [n for n in walk_no_nested(fi.node) if isinstance(n, ast.Return) and n.value is None], fi, fi.node, construct="BlockwiseTuple.reduced_to")
    f_exp, f_startkeep, f_more = [], [], []
    cnt = 0
    for s in range(8):
        for m in range(8):
            X = Expander(fi, subst={"self.size_exponent": C(s), pp[0]: C(m)}, inline=inline)
            for r in rets:
                rn = cfg.loc1(r)
                for lits, v in alts_expr(X, N, r.value, rn, [(t, pol) for t, pol, _ in cfg.guards(rn)]):
                    cnt += 1
                    w = "szx=%d,max=%d" % (s, m)
                    if isinstance(v, ast.Name) and v.id == "self":
                        n2, s2, more_ok = NUM, Poly.const(s), True
                    else:
                        elts = v.elts if isinstance(v, ast.Tuple) else (v.args if isinstance(v, ast.Call) and not v.keywords else None)
                        ctx.need(elts is not None and len(elts) == 3, "reduced_to returns something that is neither self nor a (num, more, szx) triple")
                        try:
                            n2, s2 = N.poly(elts[0]), N.poly(elts[2])
                        except NormError as e:
                            raise AnalysisError("reduced_to: fields outside the arithmetic vocabulary: %s" % e)
                        more_ok = chain(elts[1]) == "self.more"
                    sc = s2.const_value()
                    if sc is None or sc != min(s, m):
                        f_exp.append("%s: exponent %r" % (w, s2))
                    if sc is None or sc.denominator != 1 or not (0 <= sc <= 7) or n2 * Poly.const(2 ** unit_exp(int(sc))) != NUM * Poly.const(2 ** unit_exp(s)):
                        f_startkeep.append("%s: (num, szx) = (%r, %r)" % (w, n2, s2))
                    if not more_ok:
                        f_more.append(w)
    ctx.floor("evaluated alternatives of reduced_to", cnt, 64)
    ctx.ob("reduced_to yields exponent min(szx, maximum): it never grows and never exceeds the maximum", not f_exp, fi, fi.node,
           detail="; ".join(f_exp[:4]) if f_exp else None, construct="BlockwiseTuple.reduced_to [exponent]")
    ctx.ob("reduced_to preserves the byte offset num * 2^(min(szx,6)+4)", not f_startkeep, fi, fi.node,
           detail="; ".join(f_startkeep[:4]) if f_startkeep else None, construct="BlockwiseTuple.reduced_to [start]")
    ctx.ob("reduced_to keeps the more flag", not f_more, fi, fi.node, detail="; ".join(f_more[:4]) if f_more else None, construct="BlockwiseTuple.reduced_to [more]")
