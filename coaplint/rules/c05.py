"""C05 Block-wise client: both bodies intact or a loud failure."""

import ast
import copy
import re
from fractions import Fraction

from ..rulekit import *
from ..norm import Normalizer, Poly, NormError

R = Rules(
    "C05",
    explanation=(
        "Structural clauses of the client side of RFC 7959 decided on the syntax trees of message.py, "
        "optiontypes.py and protocol.py.  Arithmetic clauses are decided by the checker's own evaluation of "
        "the expressions over the finite domain of the size exponent (0..7, and 0..7 x 0..7 for reduced_to): "
        "every local is replaced by its reaching definitions together with their path conditions, "
        "conditional expressions and min()/max() are split into alternatives, each alternative is brought "
        "into polynomial normal form and compared with the RFC 7959 section 2.2 / RFC 8323 section 6 "
        "reference (size = 2^(SZX+4), start = NUM*size, slice [start, min(start+size, len)), more <=> "
        "end < len, BERT unit 1024).  Definitions are followed through chained and unpacking assignments and "
        "assignment expressions; reads of literal / module-level constant tables with a decided key, divmod(), "
        "`% 2^k`, `& (2^k-1)`, `& -2^k` and `>> k` are brought to the one floor-division atom; a keyword dict or a "
        "message filled by stores on several paths is read as one keyword set per path with that path's branch "
        "outcomes; a local whose value cannot be traced is refused, never compared by name.  Ordering clauses are dominance / must-pass rules on per-function CFGs: "
        "the Block1 number comparison precedes every cursor update and every consistent continuation of its "
        "mismatch outcome raises.  The cursor/exponent bookkeeping is decided on the effect of one round of the "
        "Block1 loop: the checker's own evaluator executes the CFG from one cut to the next for every pair "
        "(current exponent s, exponent a answered by the server) in 0..7 x 0..7 with the cursor symbolic, "
        "and the resulting state must be (szx, cursor) = (min(s,a), (cursor+advance)*2^(u(s)-u(min(s,a)))) with "
        "u(x) = min(x,6)+4 and advance = 1 block (BERT: len(sent payload)//1024 units) -- however the code spells "
        "it (stepwise while/for loop, one shift, conditional expressions, expanded helpers, tuple assignment).  "
        "The final block refuses 'more'/2.31 on every consistent way of leaving the loop (branch outcomes "
        "accumulate literals, contradictory outcomes are not taken); after a block that was not the last one an "
        "acknowledged round leaves the loop only under conditions that exclude every 2.xx code (C05.h: the collected "
        "conditions are read over the finite domain of the code byte, so is_successful(), class_, ranges and member "
        "lists are the same fact); three raising guards precede the Block2 "
        "append, assembly errors are re-raised and "
        "reach response.set_exception.  C05.f is the same round evaluation at the BERT exponent, where "
        "block numbers count 1024-byte units exactly as at exponent 6 (RFC 8323 section 6), so the cursor must "
        "not be doubled when going from 7 to 6.  Paper step: with these premises the offsets sent are contiguous and "
        "the assembled body is a concatenation of in-order blocks of one representation.  Not decided: "
        "end-to-end byte identity over a lossy network, the independent server's behaviour."
    ),
    rule_text=(
        "reaching-definition expansion + polynomial normal forms over a finite exponent domain, "
        "symbolic execution of one loop round over the finite exponent domain, literal-consistent path walks, "
        "dominating-guard facts, must-pass path rules, class-hierarchy facts"
    ),
)

MSG = "message.Message."
BT = "optiontypes.BlockOption.BlockwiseTuple."
BR = "protocol.BlockwiseRequest."


# ===========================================================================
# Expansion helper (shared with c07): evaluate an expression at a CFG node as a
# list of alternatives (expression without multi-definition locals / IfExp /
# min / max, path conditions).  Nothing here looks at names of locals or at
# statement positions; it follows definitions and branch outcomes.
# ===========================================================================

_PURE_BUILTINS = {"len", "min", "max", "int", "bool", "abs", "divmod"}
_IMPURE_NODES = (ast.Await, ast.Yield, ast.YieldFrom, ast.NamedExpr, ast.Lambda, ast.ListComp, ast.SetComp,
                 ast.DictComp, ast.GeneratorExp, ast.JoinedStr)


def _default_pure(call):
    return chain(call.func) in _PURE_BUILTINS


def pure_or_predicate(call):
    """Calls a definition may contain and still be substituted into its uses: the pure builtins and argument-less
    `x.is_*()` predicates (the same purity assumption the engine's copy propagation makes)."""
    if _default_pure(call):
        return True
    f = call.func
    return isinstance(f, ast.Attribute) and f.attr.startswith("is_") and not call.args and not call.keywords and chain(f.value) is not None


def first_leaf_test(e):
    """Left-most atomic operand of a (possibly negated / short-circuit) test."""
    while True:
        if isinstance(e, ast.BoolOp):
            e = e.values[0]
        elif isinstance(e, ast.UnaryOp) and isinstance(e.op, ast.Not):
            e = e.operand
        else:
            return e


def test_nid(cfg, test):
    ids = cfg.locate(first_leaf_test(test))
    if not ids:
        raise AnalysisError("test %s has no CFG node" % stmt_text(test))
    return ids[0]


def rreach(cfg, dst, avoid=()):
    """Nodes from which dst is reachable (>= 1 edge) without entering `avoid`."""
    avoid = set(avoid)
    seen = set()
    todo = [dst]
    while todo:
        n = todo.pop()
        for p, _lab in cfg.pred[n]:
            if p in avoid or p in seen:
                continue
            seen.add(p)
            todo.append(p)
    return seen


def _const_truth(e):
    """Truth value of a test made of constants only (checker's own evaluator), else None."""
    try:
        return bool(norm.consteval(e))
    except (NormError, TypeError, ValueError):
        return None


class _Retag(ast.NodeTransformer):
    def __init__(self, names, tag):
        self.names, self.tag = names, tag

    def visit_Name(self, n):
        if n.id in self.names:
            return ast.Name(id="%s@%s" % (n.id, self.tag), ctx=ast.Load())
        return n


def _retag(e, names, tag):
    """`y` -> `y@tag`: the value local y had when local `tag` was defined."""
    return _Retag(names, tag).visit(copy.deepcopy(e))


def unpacked_value(target, value, name):
    """The expression bound to `name` by the unpacking assignment `target = value`: the matching element of a
    tuple/list display (`a, b = x, y`), else the positional element `value[i]` (`a, b, c = t`; Expander.fields
    turns `t[i]` into `t.<field i>` for named tuples).  None for starred targets or a name bound twice."""
    if isinstance(target, ast.Name):
        return value if target.id == name else None
    if not isinstance(target, (ast.Tuple, ast.List)) or any(isinstance(x, ast.Starred) for x in target.elts):
        return None
    hits = [i for i, t in enumerate(target.elts) if any(isinstance(x, ast.Name) and x.id == name for x in ast.walk(t))]
    if len(hits) != 1:
        return None
    i = hits[0]
    if isinstance(value, (ast.Tuple, ast.List)):
        if len(value.elts) != len(target.elts) or any(isinstance(x, ast.Starred) for x in value.elts):
            return None
        sub = value.elts[i]
    else:
        sub = ast.Subscript(value=value, slice=ast.Constant(value=i), ctx=ast.Load())
    return unpacked_value(target.elts[i], sub, name)


def _split_tuple_compare(e):
    """`(a, b) == (c, d)` -> `a == c and b == d`; `(a, b) != (c, d)` -> `a != c or b != d` (tuple equality is
    element-wise equality); None for anything else."""
    if not (isinstance(e, ast.Compare) and len(e.ops) == 1 and isinstance(e.ops[0], (ast.Eq, ast.NotEq))):
        return None
    a, b = e.left, e.comparators[0]
    if not (isinstance(a, ast.Tuple) and isinstance(b, ast.Tuple) and len(a.elts) == len(b.elts) and a.elts):
        return None
    if any(isinstance(x, ast.Starred) for x in list(a.elts) + list(b.elts)):
        return None
    eq = isinstance(e.ops[0], ast.Eq)
    parts = [ast.Compare(left=x, ops=[ast.Eq() if eq else ast.NotEq()], comparators=[y]) for x, y in zip(a.elts, b.elts)]
    if len(parts) == 1:
        return parts[0]
    return ast.BoolOp(op=ast.And() if eq else ast.Or(), values=parts)


class Expander:
    LIMIT = 20000

    def __init__(self, fi, subst=None, inline=None, pure=None, minmax=True, path_conds=True, opaque=(), fields=None, loop_carried=False):
        self.opaque = set(opaque)  # locals that are never replaced by their definitions
        self.fields = fields or {}  # chain of a named tuple -> its field names: `t[i]` is read as `t.<field i>`
        self.loop_carried = loop_carried  # also substitute definitions that reach the use over a loop back edge
        self.fi = fi
        self.cfg = cfg_of(fi)
        self.subst = subst or {}
        self.inline = inline or {}
        self.pure = pure or _default_pure
        self.minmax = minmax
        self.path_conds = path_conds
        self._w = {}
        self._subs = {}
        self._active = set()
        self._count = 0
        self._memo = {}

    # -- definitions ---------------------------------------------------
    def writes(self, name):
        if name not in self._w:
            out = []
            for st in writes_to_name(self.fi.node, name):
                for nid in self.cfg.locate(st):
                    if self.cfg.nodes[nid].kind in ("T", "F"):
                        continue
                    out.append((nid, st))
            self._w[name] = out
        return self._w[name]

    def _pure_value(self, v):
        for n in ast.walk(v):
            if isinstance(n, ast.NamedExpr):
                # `(u := V)` inside a definition: the expansion reads it as V (see _expand); the binding of u is a
                # write of its own that the reaching-definition analysis accounts for
                continue
            if isinstance(n, _IMPURE_NODES):
                return False
            if isinstance(n, ast.Call) and isinstance(n.func, ast.Attribute) and n.func.attr == "get" \
                    and (isinstance(n.func.value, ast.Dict) or self._module_table(n.func.value) is not None):
                continue  # reading a dict display / a module-level table of constants has no effect
            if isinstance(n, ast.Call) and not self.pure(n):
                return False
        return True

    @staticmethod
    def _def_value(name, st):
        if isinstance(st, ast.NamedExpr):
            return st.value
        if isinstance(st, ast.Assign) and len(st.targets) == 1 and isinstance(st.targets[0], ast.Name):
            return st.value
        if isinstance(st, ast.AnnAssign) and st.value is not None and isinstance(st.target, ast.Name):
            return st.value
        if isinstance(st, ast.AugAssign) and isinstance(st.target, ast.Name):
            return ast.BinOp(left=ast.Name(id=name, ctx=ast.Load()), op=st.op, right=st.value)
        if isinstance(st, ast.Assign) and len(st.targets) == 1 and isinstance(st.targets[0], (ast.Tuple, ast.List)):
            return unpacked_value(st.targets[0], st.value, name)
        if isinstance(st, ast.Assign) and len(st.targets) > 1:
            # chained assignment `a = b = V` / `a = (b, c) = V`: V is evaluated once and bound to every target
            # (left to right), so each target that binds `name` receives V (or its element of V).  The callers
            # only substitute pure values, for which "evaluated once" and "evaluated at each use" coincide; a
            # value that mentions a name rebound by the same statement is retagged by _stale as for `a, b = b, a`.
            # Exactly one target may bind the name (a name bound twice in one chain keeps the last binding, and
            # a subscript/attribute target evaluated after the name was rebound is outside this vocabulary).
            hits = [t for t in st.targets if any(isinstance(x, ast.Name) and x.id == name and isinstance(x.ctx, ast.Store) for x in ast.walk(t))]
            if len(hits) != 1:
                return None
            return unpacked_value(hits[0], st.value, name)
        return None

    def reaching(self, name, nid):
        """([(def node, stmt, value, between-set)], entry_reaches) for the
        definitions of `name` that reach CFG node nid."""
        cfg = self.cfg
        ws = self.writes(name)
        avoid = {n for n, _ in ws} - {nid}
        back = rreach(cfg, nid, avoid) | {nid}
        out = []
        for wn, st in ws:
            if wn == nid and nid not in cfg.reach({wn}, avoid=avoid):
                continue
            fwd = cfg.reach({wn}, avoid=avoid)
            if nid in fwd:
                out.append((wn, st, self._def_value(name, st), fwd & back))
        entry = nid == cfg.entry or nid in cfg.reach({cfg.entry}, avoid=avoid)
        return out, entry

    def _substitutable(self, name, wn, st, value, between, nid):
        if value is None or not self._pure_value(value):
            return False
        cfg = self.cfg
        # the definition must reach the use without going round a loop
        avoid = {n for n, _ in self.writes(name)} - {nid}
        if not self.loop_carried and nid not in cfg.reach({wn}, avoid=avoid, skip_labels=("back",)):
            return False
        return True

    def _stale(self, name, st, value, between, nid):
        """Locals mentioned by a definition's value that are rebound between the
        definition and the use: their definition-time value gets its own atom."""
        out = set()
        for y in names_in(value):
            if y == name and isinstance(st, ast.AugAssign):
                continue
            if any(yn in between and yn != nid for yn, _ in self.writes(y)):
                out.add(y)
            elif y != name and not isinstance(st, ast.AugAssign) and any(ys is st for _yn, ys in self.writes(y)):
                out.add(y)  # `a, b = b, a`: the same statement rebinds what the value mentions
        return out

    def _path_conditions(self, name, wn, between, nid):
        cfg = self.cfg
        out = []
        seen = set()
        for t, pol, _p in cfg.guards(wn):
            if (id(t), pol) not in seen:
                seen.add((id(t), pol))
                out.append((t, pol))
        avoid = {n for n, _ in self.writes(name)} - {nid}
        for p in sorted(between):
            nd = cfg.nodes[p]
            if nd.kind in ("T", "F") and p != nid:
                if nid not in cfg.reach({wn}, avoid=avoid | {p}):
                    key = (id(nd.ast), nd.kind == "T")
                    if key not in seen:
                        seen.add(key)
                        out.append((nd.ast, nd.kind == "T"))
        return out

    # -- expansion -------------------------------------------------------
    def expand_conds(self, conds, depth=0):
        """conds: [(test expr, polarity)] -> list of tuples of (expanded test, polarity)."""
        alts = [()]
        for t, pol in conds:
            tn = test_nid(self.cfg, t)
            opts = []
            for t2, c2 in self.expand(t, tn, depth + 1):
                k = _const_truth(t2)
                if k is None:
                    opts.append(((t2, pol),) + c2)
                elif k == pol:
                    opts.append(c2)
            alts = [a + o for a in alts for o in opts]
            self._tick(len(alts))
        return alts

    def _tick(self, n):
        self._count += n
        if self._count > self.LIMIT:
            raise AnalysisError("expression expansion in %s exceeds its bound" % self.fi.short)

    def expand(self, e, nid, depth=0):
        """[(expression', conditions)] for expression e evaluated at CFG node nid."""
        key = (id(e), nid, self.path_conds)
        if key not in self._memo:
            self._memo[key] = (e, self._expand(e, nid, depth))
        return self._memo[key][1]

    def _cond_alts(self, t, nid, depth):
        """Alternatives of a test: [(truth, extra conditions)], constants decided."""
        out = []
        for t2, c in self.expand(t, nid, depth + 1):
            k = _const_truth(t2)
            if k is None:
                out.append((True, c + ((t2, True),)))
                out.append((False, c + ((t2, False),)))
            else:
                out.append((k, c))
        return out

    def _expand(self, e, nid, depth):
        if depth > 60:
            raise AnalysisError("expansion too deep in %s" % self.fi.short)
        if isinstance(e, ast.Constant):
            return [(e, ())]
        if isinstance(e, (ast.Lambda, ast.ListComp, ast.SetComp, ast.DictComp, ast.GeneratorExp, ast.JoinedStr)):
            return [(e, ())]
        if isinstance(e, ast.Name):
            return self._name(e, nid, depth)
        if isinstance(e, ast.NamedExpr):
            return self.expand(e.value, nid, depth + 1)  # the value of `(u := V)` is V
        if isinstance(e, ast.Attribute):
            c = chain(e)
            if c is not None and c in self.subst:
                return [(self.subst[c], ())]
            if c is not None and c in self.inline:
                return self._inline(c, depth)
        if isinstance(e, ast.Subscript) and isinstance(e.slice, ast.Constant) and isinstance(e.slice.value, int) and not isinstance(e.slice.value, bool):
            i = e.slice.value
            c = chain(e.value)
            if c is not None and c in self.fields and 0 <= i < len(self.fields[c]):
                return self.expand(ast.Attribute(value=e.value, attr=self.fields[c][i], ctx=ast.Load()), nid, depth + 1)
            if isinstance(e.value, ast.Tuple) and 0 <= i < len(e.value.elts) and not any(isinstance(x, ast.Starred) for x in e.value.elts):
                return self.expand(e.value.elts[i], nid, depth + 1)
        split = _split_tuple_compare(e)
        if split is not None:
            return self.expand(split, nid, depth + 1)
        if isinstance(e, ast.IfExp):
            out = []
            for truth, c1 in self._cond_alts(e.test, nid, depth):
                for b, c2 in self.expand(e.body if truth else e.orelse, nid, depth + 1):
                    out.append((b, c1 + c2))
            self._tick(len(out))
            return out
        if self.minmax and isinstance(e, ast.Call) and chain(e.func) in ("min", "max") and not e.keywords:
            # min(a, b, c) == min(min(a, b), c); min((a, b)) / min([a, b]) == min(a, b)
            args = e.args
            if len(args) == 1 and isinstance(args[0], (ast.Tuple, ast.List)) and len(args[0].elts) >= 2:
                args = args[0].elts
            if len(args) > 2 and not any(isinstance(a, ast.Starred) for a in args):
                inner = ast.Call(func=e.func, args=list(args[:-1]), keywords=[])
                return self.expand(ast.Call(func=e.func, args=[inner, args[-1]], keywords=[]), nid, depth + 1)
            if args is not e.args and len(args) == 2 and not any(isinstance(a, ast.Starred) for a in args):
                return self.expand(ast.Call(func=e.func, args=list(args), keywords=[]), nid, depth + 1)
        if self.minmax and isinstance(e, ast.Call) and chain(e.func) in ("min", "max") and len(e.args) == 2 and not e.keywords \
                and not any(isinstance(a, ast.Starred) for a in e.args):
            out = []
            is_min = chain(e.func) == "min"
            for a, ca in self.expand(e.args[0], nid, depth + 1):
                for b, cb in self.expand(e.args[1], nid, depth + 1):
                    lt = ast.Compare(left=a, ops=[ast.Lt()], comparators=[b])
                    k = _const_truth(lt)
                    if k is not False:
                        out.append((a if is_min else b, ca + cb + (((lt, True),) if k is None else ())))
                    if k is not True:
                        out.append((b if is_min else a, ca + cb + (((lt, False),) if k is None else ())))
            self._tick(len(out))
            return out
        out = self._generic(e, nid, depth)
        if isinstance(e, (ast.Subscript, ast.Call)):
            out = [(self._fold_lookup(v), c) for v, c in out]
        return out

    # -- table lookups ---------------------------------------------------
    def _module_table(self, e):
        """The display bound to a module-level table name: `e` is a Name that is neither a local nor a parameter of
        the function, the module binds it exactly once at top level to a tuple/list/dict display, and nothing in
        the module stores into it, deletes from it, rebinds it or calls a method on it other than the read-only
        ones.  None otherwise."""
        if not isinstance(e, ast.Name) or self.writes(e.id) or e.id in params(self.fi) or e.id in self.subst:
            return None
        a = self.fi.node.args
        if e.id in {x.arg for x in a.posonlyargs + a.args + a.kwonlyargs + [y for y in (a.vararg, a.kwarg) if y is not None]}:
            return None
        key = ("table", e.id)
        if key not in self._memo:
            tree = getattr(self.fi.module, "tree", None)
            val = None
            if tree is not None:
                binds = [st for st in tree.body if isinstance(st, (ast.Assign, ast.AnnAssign))
                         and any(isinstance(x, ast.Name) and x.id == e.id and isinstance(x.ctx, ast.Store) for x in ast.walk(st))]
                ok = len(binds) == 1 and (isinstance(binds[0], ast.AnnAssign) or len(binds[0].targets) == 1) \
                    and isinstance(binds[0].target if isinstance(binds[0], ast.AnnAssign) else binds[0].targets[0], ast.Name) \
                    and isinstance(binds[0].value, (ast.Tuple, ast.List, ast.Dict))
                if ok:
                    for n in ast.walk(tree):
                        if isinstance(n, ast.Name) and n.id == e.id and not isinstance(n.ctx, ast.Load) and not any(n is x for x in ast.walk(binds[0])):
                            ok = False
                        elif isinstance(n, (ast.Global, ast.Nonlocal)) and e.id in n.names:
                            ok = False
                        elif isinstance(n, ast.Subscript) and not isinstance(n.ctx, ast.Load) and isinstance(n.value, ast.Name) and n.value.id == e.id:
                            ok = False
                        elif isinstance(n, ast.Attribute) and isinstance(n.value, ast.Name) and n.value.id == e.id \
                                and n.attr not in ("get", "keys", "values", "items", "index", "count"):
                            ok = False
                        elif isinstance(n, ast.AugAssign) and isinstance(n.target, ast.Name) and n.target.id == e.id:
                            ok = False
                        elif isinstance(n, (ast.FunctionDef, ast.AsyncFunctionDef, ast.Lambda)) and n is not self.fi.node \
                                and any(x.arg == e.id for x in ast.walk(n.args) if isinstance(x, ast.arg)) and any(y is self.fi.node for y in ast.walk(n)):
                            ok = False  # an enclosing function's parameter shadows the module-level name
                    if ok:
                        try:
                            norm.consteval(binds[0].value)  # a table of constants only
                            val = binds[0].value
                        except (NormError, TypeError, ValueError):
                            val = None
            self._memo[key] = (e, val)
        return self._memo[key][1]

    def _fold_lookup(self, v):
        """Reads of a literal table with a constant key, decided by the checker: `(a, b, c)[1]`, `[a, b][-1]`,
        `{k: a}[k]`, `{k: a}.get(k2, d)`, `divmod(a, b)[0]` (== a // b) and `divmod(a, b)[1]` (== a % b); the
        table may be a display or a module-level table of constants.  The operands of the display have been
        expanded already (they are pure, so dropping the elements that are not selected changes nothing).
        Anything else -- a key that is absent (KeyError / IndexError at run time), a non-constant key, `**`/`*`
        entries -- is returned unchanged."""
        _KEYS = (int, str, bytes, bool, type(None))

        def key_of(k):
            """(True, python value) of a key expression made of constants only (`7`, `size_exp == 7` after the
            exponent has been substituted), else (False, None)."""
            if isinstance(k, ast.Constant):
                return (isinstance(k.value, _KEYS), k.value)
            if isinstance(k, (ast.Compare, ast.BoolOp, ast.UnaryOp, ast.BinOp)):
                try:
                    val = norm.consteval(k)
                except (NormError, TypeError, ValueError, ZeroDivisionError):
                    return (False, None)
                return (isinstance(val, _KEYS), val)
            return (False, None)

        def table(b):
            if isinstance(b, (ast.Tuple, ast.List, ast.Dict)):
                return b
            return self._module_table(b)

        def dict_get(d, k):
            """(value expression or None when absent, True) -- (None, False) when the display has keys the checker
            cannot compare."""
            keys = []
            for x in d.keys:
                ok, kv = key_of(x) if x is not None else (False, None)
                if not ok:
                    return None, False
                keys.append(kv)
            for kk, vv in reversed(list(zip(keys, d.values))):
                if kk == k:  # Python's own key equality (1 == True == 1.0), as in the dict
                    return vv, True
            return None, True

        if isinstance(v, ast.Subscript) and not isinstance(v.slice, (ast.Slice, ast.Tuple)):
            ok, k = key_of(v.slice)
            if ok:
                if isinstance(v.value, ast.Call) and chain(v.value.func) == "divmod" and len(v.value.args) == 2 and not v.value.keywords \
                        and not any(isinstance(x, ast.Starred) for x in v.value.args) and isinstance(k, int) and k in (0, 1, -1, -2):
                    return ast.BinOp(left=v.value.args[0], op=ast.FloorDiv() if k in (0, -2) else ast.Mod(), right=v.value.args[1])
                t = table(v.value)
                if isinstance(t, (ast.Tuple, ast.List)) and isinstance(k, int) and not any(isinstance(x, ast.Starred) for x in t.elts) \
                        and -len(t.elts) <= k < len(t.elts):
                    return t.elts[int(k)]
                if isinstance(t, ast.Dict):
                    got, known = dict_get(t, k)
                    if known and got is not None:
                        return got
        if isinstance(v, ast.Call) and isinstance(v.func, ast.Attribute) and v.func.attr == "get" and not v.keywords \
                and 1 <= len(v.args) <= 2 and not any(isinstance(x, ast.Starred) for x in v.args):
            ok, k = key_of(v.args[0])
            t = table(v.func.value) if ok else None
            if isinstance(t, ast.Dict):
                got, known = dict_get(t, k)
                if known:
                    return got if got is not None else (v.args[1] if len(v.args) == 2 else ast.Constant(value=None))
        return v

    def _name(self, e, nid, depth):
        if e.id in self.subst:
            return [(self.subst[e.id], ())]
        ws = self.writes(e.id)
        if not ws or e.id in self.opaque:
            return [(e, ())]
        if any(isinstance(st, ast.NamedExpr) and wn == nid for wn, st in ws):
            # `f((u := a), u)`: whether this use sees the binding depends on the evaluation order inside one
            # statement, which the statement-level CFG does not model
            raise AnalysisError("%s is bound by an assignment expression in the statement that also reads it (%s)" % (e.id, self.fi.short))
        defs, entry = self.reaching(e.id, nid)
        if entry or not defs:
            return [(e, ())]
        if not all(self._substitutable(e.id, wn, st, v, btw, nid) for wn, st, v, btw in defs):
            return [(e, ())]
        out = []
        for wn, st, v, btw in defs:
            key = (e.id, wn, nid)
            if key in self._active:
                raise AnalysisError("loop-carried definition of %s in %s" % (e.id, self.fi.short))
            self._active.add(key)
            try:
                if self.path_conds:
                    calts = self.expand_conds(self._path_conditions(e.id, wn, btw, nid), depth + 1)
                else:
                    calts = [()]
                vals = self.expand(v, wn, depth + 1)
                stale = self._stale(e.id, st, v, btw, nid)
                if stale:
                    vals = [(_retag(v2, stale, e.id), tuple((_retag(t, stale, e.id), pol) for t, pol in c2)) for v2, c2 in vals]
            finally:
                self._active.discard(key)
            for c in calts:
                for v2, c2 in vals:
                    out.append((v2, c + c2))
            self._tick(len(out))
        return out

    def _inline(self, c, depth):
        g = self.inline[c]
        if c not in self._subs:
            self._subs[c] = Expander(g, self.subst, self.inline, self.pure, self.minmax, self.path_conds, fields=self.fields)
        sub = self._subs[c]
        sub._count = 0
        out = []
        rets = [n for n in walk_no_nested(g.node) if isinstance(n, ast.Return)]
        if not rets or any(r.value is None for r in rets):
            raise AnalysisError("%s cannot be inlined (no value returned on some path)" % g.short)
        if not sub.cfg.must_pass(sub.cfg.entry, [sub.cfg.loc1(r) for r in rets]):
            raise AnalysisError("%s cannot be inlined (falls off the end)" % g.short)
        for r in rets:
            rn = sub.cfg.loc1(r)
            conds = [(t, pol) for t, pol, _ in sub.cfg.guards(rn)]
            for ca in sub.expand_conds(conds, depth + 1):
                for v, c2 in sub.expand(r.value, rn, depth + 1):
                    out.append((v, ca + c2))
        self._tick(len(out))
        return out

    def _generic(self, e, nid, depth):
        slots = []
        for f, v in ast.iter_fields(e):
            if isinstance(v, ast.expr):
                slots.append((f, None, v))
            elif isinstance(v, list):
                for i, item in enumerate(v):
                    if isinstance(item, ast.keyword):
                        slots.append((f, i, item))
                    elif isinstance(item, ast.expr):
                        slots.append((f, i, item))
        if not slots:
            return [(e, ())]
        alts = [({}, ())]
        changed = False
        for f, i, v in slots:
            target = v.value if isinstance(v, ast.keyword) else v
            opts = self.expand(target, nid, depth + 1)
            if len(opts) != 1 or opts[0][0] is not target or opts[0][1]:
                changed = True
            alts = [(dict(d, **{"%s/%s" % (f, i): (f, i, v, x)}), c + cx) for d, c in alts for x, cx in opts]
            self._tick(len(alts))
        if not changed:
            return [(e, ())]
        out = []
        for d, c in alts:
            new = copy.copy(e)
            lists = {}
            for f, i, v, x in d.values():
                if i is None:
                    setattr(new, f, x)
                else:
                    if f not in lists:
                        lists[f] = list(getattr(e, f))
                    if isinstance(v, ast.keyword):
                        lists[f][i] = ast.keyword(arg=v.arg, value=x)
                    else:
                        lists[f][i] = x
            for f, l in lists.items():
                setattr(new, f, l)
            out.append((new, c))
        return out


# -- literals ----------------------------------------------------------------

_FALSY = {"False", "None", "0", "''", "b''", "()", "[]"}


def _const_poly(p):
    return p.const_value() if isinstance(p, Poly) else None


def lit_eval(l):
    """True / False when the literal is decided by constants, else None."""
    k = l[0]
    if k == "lt":
        c = _const_poly(l[1])
        return None if c is None else c < 0
    if k in ("eq", "ne") and len(l) == 2:
        c = _const_poly(l[1])
        if c is None:
            return None
        return (c == 0) if k == "eq" else (c != 0)
    if k in ("is", "isnot") and len(l) == 3:
        a, b = l[1], l[2]
        consts = {"None", "True", "False"}
        if a == b:
            return k == "is"
        if a in consts and b in consts:
            return k == "isnot"
        return None
    if k in ("truth", "nottruth"):
        a = l[1]
        v = None
        if a in _FALSY:
            v = False
        elif a == "True" or a.lstrip("-").isdigit():
            v = True
        if v is None:
            return None
        return v if k == "truth" else not v
    return None


def _neg(l):
    k = l[0]
    if k == "lt":
        return ("lt", -l[1] - Poly.const(1))
    flip = {"eq": "ne", "ne": "eq", "is": "isnot", "isnot": "is", "in": "notin", "notin": "in", "truth": "nottruth", "nottruth": "truth"}
    return (flip[k],) + tuple(l[1:])


def _diff_const(p, q):
    d = p - q
    return d.const_value()


def entails(lits, goal):
    """Sufficient syntactic entailment of one literal by a conjunction (integers)."""
    ev = lit_eval(goal)
    if ev is not None:
        return ev
    if goal in lits:
        return True
    k = goal[0]
    if k == "lt":
        q = goal[1]
        for l in lits:
            if l[0] == "lt":
                c = _diff_const(q, l[1])  # q = p + c, p <= -1
                if c is not None and c <= 0:
                    return True
                if c == 1 and (("ne", q) in lits or ("ne", -q) in lits):
                    # q - 1 < 0 (q <= 0 over the integers) together with q != 0 is q < 0: `end != total` after
                    # `end = min(.., total)` is the same fact as `end < total`
                    return True
            elif l[0] == "eq" and len(l) == 2:
                for s in (1, -1):
                    c = _diff_const(q, l[1] * Poly.const(s))  # q = +-p + c = c
                    if c is not None and c < 0:
                        return True
        return False
    if k == "ne" and len(goal) == 2:
        return entails(lits, ("lt", goal[1])) or entails(lits, ("lt", -goal[1]))
    if k == "eq" and len(goal) == 2:
        return entails(lits, ("lt", goal[1] - Poly.const(1))) and entails(lits, ("lt", -goal[1] - Poly.const(1)))
    return False


def simplify(lits):
    """Drop literals decided true; None when the conjunction is contradictory."""
    keep = set()
    for l in lits:
        ev = lit_eval(l)
        if ev is False:
            return None
        if ev is None:
            keep.add(l)
    for l in keep:
        try:
            if _neg(l) in keep:
                return None
        except KeyError:
            pass
        if l[0] in ("lt",) or (l[0] == "eq" and len(l) == 2):
            rest = keep - {l}
            if l[0] == "lt" and entails(rest, ("lt", -l[1] - Poly.const(1))):
                return None
            if l[0] == "eq" and (entails(rest, ("lt", l[1])) or entails(rest, ("lt", -l[1]))):
                return None
        if l[0] == "is":
            for m in keep:
                if m[0] == "is" and m[1] == l[1] and m[2] != l[2] and {m[2], l[2]} <= {"None", "True", "False"}:
                    return None
    return frozenset(keep)


def _dnf(N, e, pol):
    """DNF (list of literal lists) of boolean expression e with polarity."""
    x = e if pol else ast.UnaryOp(op=ast.Not(), operand=e)
    try:
        return [list(c) for c in N.dnf(x)]
    except NormError:
        txt = stmt_text(e)
        return [[("truth" if pol else "nottruth", txt)]]


def nf_conds(N, conds):
    """Expanded conditions -> list of simplified literal sets (alternatives)."""
    alts = [frozenset()]
    for t, pol in conds:
        parts = _dnf(N, t, pol)
        nxt = []
        for a in alts:
            for p in parts:
                s = simplify(a | set(p))
                if s is not None:
                    nxt.append(s)
        alts = nxt
        if not alts:
            break
    return alts


def alts_expr(X, N, e, nid, extra_conds=()):
    """[(literal set, expanded expression)] for e at node nid."""
    out = []
    pre = X.expand_conds(list(extra_conds)) if extra_conds else [()]
    for v, c in X.expand(e, nid):
        for p in pre:
            for lits in nf_conds(N, p + c):
                out.append((lits, v))
    return out


def alts_bool(X, N, e, nid, extra_conds=()):
    """[(literal set, truth value)] for the boolean expression e at node nid:
    every alternative is a conjunction under which e has the given value."""
    out = []
    for lits, v in alts_expr(X, N, e, nid, extra_conds):
        for truth in (True, False):
            for p in _dnf(N, v, truth):
                s = simplify(lits | set(p))
                if s is not None:
                    out.append((s, truth))
    return out


def node_conditions(fi, node):
    """[(test, polarity)] known to hold when `node` executes: dominating branch
    outcomes plus the tests of the enclosing if/while statements (which also
    covers `a or b` tests that no single branch outcome dominates)."""
    cfg = cfg_of(fi)
    out = []
    seen = set()
    for nid in cfg.locate(node)[:1]:
        for t, pol, _ in cfg.guards(nid):
            if (id(t), pol) not in seen:
                seen.add((id(t), pol))
                out.append((t, pol))
    cur = node
    while cur is not None and cur is not fi.node:
        par = cfg.parent.get(id(cur))
        if isinstance(par, (ast.If, ast.While)):
            pol = None
            if any(cur is s for s in par.body):
                pol = True
            elif isinstance(par, ast.If) and any(cur is s for s in par.orelse):
                pol = False
            if pol is not None and not (isinstance(par.test, ast.Constant)) and (id(par.test), pol) not in seen:
                seen.add((id(par.test), pol))
                out.append((par.test, pol))
        cur = par
    return out


def cond_dnf(X, N, fi, node):
    """Simplified DNF (list of literal sets) of the conditions of `node`."""
    out = []
    for c in X.expand_conds(node_conditions(fi, node)):
        out.extend(nf_conds(N, c))
    return out


def holds_at(X, N, fi, node, lit):
    alts = cond_dnf(X, N, fi, node)
    return bool(alts) and all(entails(a, lit) for a in alts)


def canon(X, e, nid):
    """Expression with single-definition locals replaced by their values (no
    path conditions); None when the definitions are ambiguous."""
    saved = X.path_conds
    X.path_conds = False
    try:
        alts = X.expand(e, nid)
    finally:
        X.path_conds = saved
    return alts[0][0] if len(alts) == 1 else None


def canon_chain(X, e, nid):
    c = canon(X, e, nid)
    return chain(c) if c is not None else None


def enclosing_loops(cfg, node, root):
    out = []
    cur = cfg.parent.get(id(node))
    while cur is not None and cur is not root:
        if isinstance(cur, (ast.While, ast.For, ast.AsyncFor)):
            out.append(cur)
        cur = cfg.parent.get(id(cur))
    return out


def exc_class(prog, fi, raise_node):
    """Qualified class of `raise X(...)` / `raise X`, or None."""
    e = raise_node.exc
    if e is None:
        return None
    if isinstance(e, ast.Call):
        e = e.func
    c = chain(e)
    return prog.resolve_in_module(fi.module, c) if c else None


def pseudo_nodes(cfg):
    return [n for n in cfg.nodes if n.kind in ("T", "F") and isinstance(n.ast, ast.expr)]


def pseudo_lits(X, N, cfg, p):
    """Literal-set alternatives asserted by branch pseudo node p."""
    tn = test_nid(cfg, p.ast)
    out = []
    saved = X.path_conds
    X.path_conds = False
    try:
        opts = X.expand(p.ast, tn)
    finally:
        X.path_conds = saved
    for t, _c in opts:
        out.extend(nf_conds(N, ((t, p.kind == "T"),)))
    return out


def pseudo_asserting(X, N, cfg, accept):
    """Ids of the pseudo nodes every alternative of which satisfies accept(literal set)."""
    out = set()
    for p in pseudo_nodes(cfg):
        try:
            alts = pseudo_lits(X, N, cfg, p)
        except AnalysisError:
            continue
        if alts and all(accept(a) for a in alts):
            out.add(p.id)
    return out


def C(v):
    return ast.Constant(value=v)


def P(src, N=None):
    return (N or Normalizer()).poly(ast.parse(src, mode="eval").body)


class DivNormalizer(Normalizer):
    """Normalizer in which the spellings of integer division by a constant power agree.  For Python integers (any
    sign) `x % k == x - k*(x // k)`, `x & (2^j - 1) == x % 2^j`, `x & -2^j == x - x % 2^j` (`x & ~1023`) and
    `x >> j == x // 2^j`, so `m - m % 1024`, `(m >> 10) << 10`, `m & ~1023` and `1024 * (m // 1024)` all become
    the same polynomial over the one opaque atom floordiv(m, 1024)."""

    def _int(self, e):
        try:
            k = self.poly(e).const_value()
        except NormError:
            try:
                k = norm.consteval(e)
            except (NormError, TypeError, ValueError):
                return None
            return k if isinstance(k, int) and not isinstance(k, bool) else None
        return int(k) if k is not None and k.denominator == 1 else None

    @staticmethod
    def _fd(l, k):
        return Poly.atom("floordiv(%r,%r)" % (l, Poly.const(k)))

    def poly(self, e):
        if isinstance(e, ast.BinOp):
            if isinstance(e.op, ast.Mod):
                k = self._int(e.right)
                if k is not None and k > 0:
                    l = self.poly(e.left)
                    return l - Poly.const(k) * self._fd(l, k)
            elif isinstance(e.op, ast.BitAnd):
                for a, b in ((e.left, e.right), (e.right, e.left)):
                    k = self._int(b)
                    if k is not None and k > 0 and (k & (k + 1)) == 0:
                        l = self.poly(a)
                        return l - Poly.const(k + 1) * self._fd(l, k + 1)
                    if k is not None and k < 0 and (-k & (-k - 1)) == 0:
                        l = self.poly(a)
                        return Poly.const(-k) * self._fd(l, -k)
            elif isinstance(e.op, ast.RShift):
                k = self._int(e.right)
                if k is not None and 0 <= k <= 64:
                    return self._fd(self.poly(e.left), 2 ** k)
        return super().poly(e)


def unit_exp(s):
    """Exponent of the byte unit of a block number at size exponent s (A.4; BERT counts in 1024)."""
    return min(s, 6) + 4


# ===========================================================================
# C05.a  Message._extract_block
# ===========================================================================


def flat_keywords(call):
    """{keyword name: value expression} of a call, with every spelling of a keyword argument treated alike:
    `f(k=v)`, `f(**{"k": v})`, `f(**dict(k=v))`, `f(**{**a, "k": v})` (the caller has already replaced locals by
    their definitions, so `opts = {name: v}; f(**opts)` arrives here as a dict display).  None when a `**`
    operand is not a dict display with constant string keys -- the keyword set is then unknown.  A name given
    twice is a TypeError at run time (call) / last one wins (display); both are reported as unknown."""
    out = {}

    def put(k, v):
        if k in out:
            return False
        out[k] = v
        return True

    def splat(d):
        if isinstance(d, ast.Dict):
            for k, v in zip(d.keys, d.values):
                if k is None:
                    if not splat(v):
                        return False
                elif isinstance(k, ast.Constant) and isinstance(k.value, str):
                    if not put(k.value, v):
                        return False
                else:
                    return False
            return True
        if isinstance(d, ast.Call) and chain(d.func) == "dict" and len(d.args) <= 1:
            if d.args and not splat(d.args[0]):
                return False
            for k in d.keywords:
                if k.arg is None:
                    if not splat(k.value):
                        return False
                elif not put(k.arg, k.value):
                    return False
            return True
        return False

    for k in call.keywords:
        if k.arg is None:
            if not splat(k.value):
                return None
        elif not put(k.arg, k.value):
            return None
    return out


_PATH_LIMIT = 2048


def _dict_value(v):
    return isinstance(v, ast.Dict) or (isinstance(v, ast.Call) and chain(v.func) == "dict")


def buildup_alternatives(fi, binds, events, nid, what):
    """The contents a mapping has at CFG node `nid`, as dict displays -- one per way of getting there.

    binds:  [(CFG node, initial value expression)] -- the statements that (re)bind the mapping;
    events: {CFG node: [(key expression | None for a `**`/update operand, value expression, "set" | "default")]}
            -- the statements that insert into it (`d[k] = v`, `d.update(..)`, `d |= ..`, `d.setdefault(k, v)`,
            or, for a message under construction, `m.opt.k = v`).
    Result: [(display, ((test, polarity), ...))]: for every acyclic path from a binding to `nid` that passes no
    other binding, the display `{**{**init, k1: v1}, k2: v2}` of the inserts met on the path in path order
    (`{k: v, **prev}` for setdefault) together with the branch outcomes taken on the path.  Paths that differ
    only in the outcome of one test and carry the same inserts are merged (the test is then irrelevant).  This
    is the same fact whether the inserts are unconditional, sit in the arms of an if/else, or follow a guard
    clause.  Refused (AnalysisError): an insert inside a loop, a value that mentions a local rebound before
    `nid`, more than _PATH_LIMIT paths."""
    cfg = cfg_of(fi)
    bindnodes = {bn for bn, _ in binds}
    back_all = rreach(cfg, nid, avoid=bindnodes) | {nid}
    # nothing an insert (or the initial value) mentions may be rebound before the mapping is read
    for sn, items in [(bn, [(None, v, "set")]) for bn, v in binds] + list(events.items()):
        between = cfg.reach({sn}) & back_all
        if sn != nid and nid not in cfg.reach({sn}):
            continue
        for kx, vx, _mode in items:
            for y in names_in(vx) | (names_in(kx) if kx is not None else set()):
                if any(set(cfg.locate(w)) & between for w in writes_to_name(fi.node, y)):
                    raise AnalysisError("%s: %s is rebound between the store and the read" % (what, y))
    out = []
    for bn, init in binds:
        if bn == nid:
            continue
        fwd = cfg.reach({bn}, avoid=bindnodes)
        if nid not in fwd:
            continue
        region = (fwd & back_all) | {nid}
        on_cycle = {q for q in region if q in cfg.reach({q}, avoid=bindnodes) & region}
        for sn in events:
            if sn in region and sn in on_cycle:
                raise AnalysisError("%s: store %s is in a loop" % (what, stmt_text(cfg.nodes[sn].ast, 60)))
        paths = {}

        def dfs(n, seen, steps, conds):
            if n == nid:
                paths[(steps, frozenset((id(t), pol) for t, pol in conds))] = (steps, conds)
                if len(paths) > _PATH_LIMIT:
                    raise AnalysisError("%s: too many paths between the initial binding and the read" % what)
                return
            for m, lab in cfg.succ[n]:
                if lab == "back" or m not in region or m in seen:
                    continue
                nd = cfg.nodes[m]
                st2, c2 = steps, conds
                if m in events and m != nid:
                    st2 = steps + (m,)
                if nd.kind in ("T", "F") and isinstance(nd.ast, ast.expr) and m not in on_cycle:
                    c2 = conds + ((nd.ast, nd.kind == "T"),)
                dfs(m, seen | {m}, st2, c2)

        dfs(bn, frozenset([bn]), (), ())
        # merge paths with equal inserts that differ in exactly one branch outcome
        groups = {}
        for steps, conds in paths.values():
            groups.setdefault(steps, set()).add(frozenset((id(t), pol) for t, pol in conds))
        tests = {id(t): t for _steps, conds in paths.values() for t, _pol in conds}
        for steps, csets in groups.items():
            changed = True
            while changed:
                changed = False
                for c in list(csets):
                    for lit in c:
                        twin = (c - {lit}) | {(lit[0], not lit[1])}
                        if twin in csets and twin != c:
                            csets.discard(c)
                            csets.discard(twin)
                            csets.add(c - {lit})
                            changed = True
                            break
                    if changed:
                        break
            # drop alternatives subsumed by a weaker one
            for c in list(csets):
                if any(o < c for o in csets):
                    csets.discard(c)
            for c in sorted(csets, key=lambda x: sorted((str(k), v) for k, v in x)):
                cur = init
                for sn in steps:
                    for kx, vx, mode in events[sn]:
                        if mode == "set":
                            cur = ast.Dict(keys=[None, kx], values=[cur, vx])
                        else:
                            cur = ast.Dict(keys=[kx, None], values=[vx, cur])
                out.append((cur, tuple((tests[i], pol) for i, pol in sorted(c, key=lambda x: (str(x[0]), x[1])))))
    if not out:
        raise AnalysisError("%s: no binding reaches the read" % what)
    return out


def _stmt_call(cfg, n):
    """n is a call evaluated as a statement of its own (its value is discarded)."""
    st = cfg.nodes[cfg.loc1(n)].ast
    return isinstance(st, ast.Expr) and st.value is n


def _other_uses(fi, name, allowed):
    """Name nodes `name` in the function that are not in `allowed` (ids) and not arguments of a logging call."""
    logged = set()
    for c in ast.walk(fi.node):
        if isinstance(c, ast.Call) and is_log_call(c):
            logged |= {id(x) for x in ast.walk(c)}
    return [x for x in ast.walk(fi.node) if isinstance(x, ast.Name) and x.id == name and id(x) not in allowed and id(x) not in logged]


def dict_buildup(fi, nm, nid, operand=None):
    """Displays (with path conditions) of the dict local `nm` at node nid when it is built up by stores after its
    binding; None when the name is only ever bound (the Expander's reaching definitions then describe it)."""
    cfg = cfg_of(fi)
    stores = stores_to(fi.node, nm, nested=False)
    if all(kind == "assign" and not isinstance(n, ast.AugAssign) for kind, n in stores):
        return None
    what = "dict %s passed as ** operand in %s" % (nm, fi.short)
    binds, events, allowed = [], {}, set()
    if operand is not None:
        allowed.add(id(operand))
    for kind, n in stores:
        items = None
        if kind == "assign" and isinstance(n, ast.Assign) and len(n.targets) == 1 and isinstance(n.targets[0], ast.Name):
            if not _dict_value(n.value):
                raise AnalysisError("%s: bound to something that is not a dict display" % what)
            binds.append((cfg.loc1(n), n.value))
            allowed.add(id(n.targets[0]))
            continue
        if kind == "assign" and isinstance(n, ast.AnnAssign) and isinstance(n.target, ast.Name) and n.value is not None:
            if not _dict_value(n.value):
                raise AnalysisError("%s: bound to something that is not a dict display" % what)
            binds.append((cfg.loc1(n), n.value))
            allowed.add(id(n.target))
            continue
        if kind == "assign" and isinstance(n, ast.AugAssign) and isinstance(n.op, ast.BitOr) and isinstance(n.target, ast.Name):
            items = [(None, n.value, "set")]  # d |= other  ==  d.update(other)
            allowed.add(id(n.target))
        elif kind == "setitem" and isinstance(n, ast.Assign) and all(
                isinstance(t, ast.Subscript) and isinstance(t.value, ast.Name) and t.value.id == nm and not isinstance(t.slice, ast.Slice) for t in n.targets):
            items = [(t.slice, n.value, "set") for t in n.targets]
            allowed |= {id(t.value) for t in n.targets}
        elif kind == "update" and isinstance(n, ast.Call) and _stmt_call(cfg, n) and isinstance(n.func.value, ast.Name) \
                and len(n.args) <= 1 and not any(isinstance(x, ast.Starred) for x in n.args):
            items = [(None, x, "set") for x in n.args] + [(ast.Constant(value=kk.arg) if kk.arg is not None else None, kk.value, "set") for kk in n.keywords]
            allowed.add(id(n.func.value))
        elif kind == "setdefault" and isinstance(n, ast.Call) and _stmt_call(cfg, n) and isinstance(n.func.value, ast.Name) \
                and 1 <= len(n.args) <= 2 and not n.keywords and not any(isinstance(x, ast.Starred) for x in n.args):
            items = [(n.args[0], n.args[1] if len(n.args) == 2 else ast.Constant(value=None), "default")]
            allowed.add(id(n.func.value))
        if items is None:
            raise AnalysisError("%s: modified by something other than item assignment / update() / setdefault(): %s" % (what, stmt_text(n, 60)))
        events.setdefault(cfg.loc1(n), []).extend(items)
    if not binds:
        raise AnalysisError("%s: no initial binding" % what)
    others = _other_uses(fi, nm, allowed)
    if others:
        raise AnalysisError("%s: the dict is also used in a way the checker does not interpret (it may be modified there)" % what)
    return buildup_alternatives(fi, binds, events, nid, what)


def message_buildup(fi, nm, call, bn, nid, result=None):
    """`m = self.copy(payload=p); m.opt.block1 = v; return m` states the same fact as `self.copy(payload=p,
    block1=v)` (Message.copy hands every keyword that is not a message field to setattr(new.opt, k, v)); a later
    `m.payload = p` is the keyword payload=p.  Returns [(call with the stores folded into a `**{...}` operand,
    path conditions)], or None when nothing is stored into the message after its construction.  Stores to other
    attributes of the message are carried under keys no clause asks for."""
    cfg = cfg_of(fi)
    what = "message %s built in %s" % (nm, fi.short)
    events, allowed = {}, set()
    if result is not None:
        allowed.add(id(result))
    for st in walk_no_nested(fi.node):
        if isinstance(st, ast.Return) and isinstance(st.value, ast.Name) and st.value.id == nm:
            allowed.add(id(st.value))  # handing the message out at another exit does not change it
        if isinstance(st, ast.Assign) and len(st.targets) == 1 and isinstance(st.targets[0], ast.Name) and st.targets[0].id == nm:
            allowed.add(id(st.targets[0]))
        if isinstance(st, ast.Assign):
            for t in st.targets:
                c = chain(t) if isinstance(t, ast.Attribute) else None
                if c is None or not c.startswith(nm + "."):
                    continue
                parts = c.split(".")[1:]
                if len(parts) == 2 and parts[0] == "opt":
                    key = parts[1]
                elif parts == ["payload"]:
                    key = "payload"
                elif len(parts) == 1:
                    key = "attribute:" + parts[0]
                else:
                    raise AnalysisError("%s: store to %s is outside the rule's vocabulary" % (what, c))
                events.setdefault(cfg.loc1(st), []).append((ast.Constant(value=key), st.value, "set"))
                base = t
                while isinstance(base, ast.Attribute):
                    base = base.value
                allowed.add(id(base))
        elif isinstance(st, ast.Call) and chain(st.func) == "setattr" and len(st.args) == 3 and not st.keywords and chain(st.args[0]) == nm + ".opt" \
                and _stmt_call(cfg, st):
            events.setdefault(cfg.loc1(st), []).append((st.args[1], st.args[2], "set"))
            allowed.add(id(st.args[0].value))
    if not events:
        return None
    if _other_uses(fi, nm, allowed):
        raise AnalysisError("%s: the message is also used in a way the checker does not interpret before it is returned" % what)
    out = []
    for disp, conds in buildup_alternatives(fi, [(bn, ast.Dict(keys=[], values=[]))], events, nid, what):
        new = copy.copy(call)
        new.keywords = list(call.keywords) + [ast.keyword(arg=None, value=disp)]
        out.append((new, conds))
    # the constructor arguments are read where the message is returned: they must mean the same there
    between = cfg.reach({bn}) & (rreach(cfg, nid) | {nid})
    for y in names_in(call):
        if any(set(cfg.locate(w)) & between for w in writes_to_name(fi.node, y) if cfg.loc1(w) != bn):
            raise AnalysisError("%s: %s is rebound between the construction and the return" % (what, y))
    return out


def splat_alternatives(fi, call, nid):
    """[(call', path conditions)]: `call` (evaluated at CFG node nid) with every `**name` operand whose dict is
    built up by stores after its binding replaced by the equivalent dict display (see buildup_alternatives).
    Calls without such operands come back unchanged as the only alternative."""
    if not isinstance(call, ast.Call):
        return [(call, ())]
    alts = [([], ())]
    changed = False
    for k in call.keywords:
        disp = dict_buildup(fi, k.value.id, nid, k.value) if k.arg is None and isinstance(k.value, ast.Name) else None
        if disp is None:
            alts = [(kws + [k], c) for kws, c in alts]
            continue
        changed = True
        alts = [(kws + [ast.keyword(arg=None, value=d)], c + dc) for kws, c in alts for d, dc in disp]
    if not changed:
        return [(call, ())]
    out = []
    for kws, c in alts:
        new = copy.copy(call)
        new.keywords = kws
        out.append((new, c))
    return out


def materialise_splats(fi, call, nid):
    """Single-alternative form of splat_alternatives (kept for callers that cannot use path conditions)."""
    alts = splat_alternatives(fi, call, nid)
    if len(alts) != 1:
        raise AnalysisError("dict passed as ** operand in %s is built up differently on different paths" % fi.short)
    return alts[0][0]


def _kw(call, name):
    kws = flat_keywords(call)
    if kws is None:
        raise AnalysisError("keyword set of %s cannot be determined (a ** operand is not a dict display with constant keys)" % stmt_text(call))
    return kws.get(name)


@R.clause("C05.a", "_extract_block: size = 2^(szx+4), start = num*size, slice [start, min(start+size, len)), more <=> end < len, option (num, more, szx); out of range raises; BERT unit 1024")
def a(ctx):
    fi = ctx.prog.func(MSG + "_extract_block")
    p = params(fi)
    ctx.need(len(p) == 3, "_extract_block signature changed")
    num, szx, mbs = p
    for q in p:
        ctx.need(not writes_to_name(fi.node, q), "_extract_block rebinds its parameter %s" % q)
    cfg = cfg_of(fi)
    rets = [n for n in walk_no_nested(fi.node) if isinstance(n, ast.Return)]
    ctx.floor("return statements in _extract_block", len(rets), 1)
    ctx.ob("every normal exit of _extract_block returns a block", all(r.value is not None for r in rets) and cfg.must_pass(cfg.entry, [cfg.loc1(r) for r in rets]),
           fi, fi.node, construct="_extract_block")
    N = DivNormalizer(rename={num: "NUM", mbs: "MAXBERT"})
    L = P("len(self.payload)")
    NUM = Poly.atom("NUM")
    fam = {}  # (return stmt, family) -> list of failure texts

    def rec(r, family, ok, why):
        fam.setdefault((id(r), family), [r, family, []])
        if not ok:
            fam[(id(r), family)][2].append(why)

    def pure(call):
        # constructing a dict / tuple / Block option value / message copy from pure operands is pure
        c = chain(call.func) or ""
        return pure_or_predicate(call) or c in ("dict", "tuple", "self.copy") or c.split(".")[-1] == BT.split(".")[-2]

    # `m = self.copy(...); return m`: the message is read where it is built (the definition dominates the return);
    # stores into the message between its construction and the return, and dicts built up for a `**` operand,
    # are folded into the call (one alternative per path, with that path's branch outcomes)
    rvals = {}
    for r in rets:
        if r.value is None:
            continue
        e, at = r.value, cfg.loc1(r)
        forms = None
        if isinstance(e, ast.Name):
            ws = writes_to_name(fi.node, e.id)
            if len(ws) == 1 and Expander._def_value(e.id, ws[0]) is not None and cfg.dominates(cfg.loc1(ws[0]), at):
                built, bn = Expander._def_value(e.id, ws[0]), cfg.loc1(ws[0])
                if isinstance(built, ast.Call):
                    folded = message_buildup(fi, e.id, built, bn, at, r.value)
                    if folded is not None:
                        # read at the return: splat operands of the constructor call are resolved there as well
                        forms = [(c2, at, pc + pc2) for c1, pc in folded for c2, pc2 in splat_alternatives(fi, c1, at)]
                e, at = built, bn
        if forms is None:
            forms = [(c, at, pc) for c, pc in splat_alternatives(fi, e, at)]
        rvals[id(r)] = forms
    nalts = 0
    for s in range(8):
        bert = s == 7
        W = "BERT" if bert else "regular"
        X = Expander(fi, subst={szx: C(s)}, pure=pure)
        size = P("1024 * (MAXBERT // 1024)") if bert else Poly.const(2 ** (s + 4))
        start = NUM * Poly.const(2 ** unit_exp(s))
        A = start + size
        for r in rets:
            if r.value is None:
                continue
            for lits, v in [x for form, at, pc in rvals[id(r)] for x in alts_expr(X, N, form, at, node_conditions(fi, r) + list(pc))]:
                nalts += 1
                ctx.need(isinstance(v, ast.Call), "_extract_block returns something that is not a call building the block message")
                pay = _kw(v, "payload")
                b1, b2 = _kw(v, "block1"), _kw(v, "block2")
                ctx.need(pay is not None and (b1 is not None) != (b2 is not None), "_extract_block: returned message lacks payload= or exactly one of block1=/block2=")
                ctx.need(isinstance(pay, ast.Subscript) and chain(pay.value) == "self.payload" and isinstance(pay.slice, ast.Slice) and pay.slice.step is None
                         and pay.slice.lower is not None and pay.slice.upper is not None,
                         "_extract_block: payload of the block is not a slice self.payload[lo:hi]")
                opt = b1 if b1 is not None else b2
                elts = block_triple(opt)
                ctx.need(elts is not None, "_extract_block: block option is not a (num, more, szx) triple")
                # a local the expansion could not replace by its definitions (bound by a loop / with / an impure
                # call, possibly unbound, rebound after the value was taken) is a value the checker does not know:
                # comparing its *name* with the reference would report a violation about nothing
                for part in (pay.slice.lower, pay.slice.upper) + tuple(elts):
                    for x in ast.walk(part):
                        if isinstance(x, ast.Name) and (writes_to_name(fi.node, x.id.split("@")[0]) or "@" in x.id):
                            raise AnalysisError("_extract_block: the value of local %s in %s cannot be traced to its definitions" % (x.id, stmt_text(part, 60)))
                try:
                    lo, hi = N.poly(pay.slice.lower), N.poly(pay.slice.upper)
                except NormError as e:
                    raise AnalysisError("_extract_block: slice bounds outside the arithmetic vocabulary: %s" % e)
                t = "szx=%d" % s
                rec(r, "%s: block starts at num * %s" % (W, "1024" if bert else "2^(szx+4)"), lo == start, "%s: start = %r" % (t, lo))
                if hi == A:
                    # a slice bound beyond the end is clamped to len(payload) by the slice itself, so
                    # payload[start:start+size] *is* payload[start:min(start+size, len)]
                    okhi = True
                elif hi == L:
                    okhi = entails(lits, ("lt", L - A - Poly.const(1)))
                else:
                    okhi = False
                rec(r, "%s: block ends at min(start + size, len(payload)) with size = %s" % (W, "1024*(max_bert_size//1024)" if bert else "2^(szx+4)"),
                    okhi, "%s: end = %r under %s" % (t, hi, _show(lits)))
                rec(r, "%s: a block is only produced when start < len(payload) (out of range raises)" % W, entails(lits, ("lt", start - L)), "%s: conditions %s" % (t, _show(lits)))
                is_req = ("truth", "self.code.is_request()") in lits
                is_resp = ("nottruth", "self.code.is_request()") in lits
                rec(r, "%s: requests carry the descriptor in Block1, responses in Block2" % W, (is_req and b1 is not None) or (is_resp and b2 is not None),
                    "%s: %s under %s" % (t, "block1" if b1 is not None else "block2", _show(lits)))
                try:
                    on, os_ = N.poly(elts[0]), N.poly(elts[2])
                except NormError as e:
                    raise AnalysisError("_extract_block: option fields outside the arithmetic vocabulary: %s" % e)
                rec(r, "%s: option carries the requested block number and size exponent" % W, on == NUM and os_ == Poly.const(s), "%s: (num, szx) = (%r, %r)" % (t, on, os_))
                for truth in (True, False):
                    for part in _dnf(N, elts[1], truth):
                        ls = simplify(lits | set(part))
                        if ls is None:
                            continue
                        goal = ("lt", A - L) if truth else ("lt", L - A - Poly.const(1))
                        rec(r, "%s: more flag is set exactly when the block ends before the end of the body" % W, entails(ls, goal),
                            "%s: more=%s under %s" % (t, truth, _show(ls)))
    ctx.floor("evaluated alternatives of _extract_block", nalts, 16)
    for r, family, fails in fam.values():
        ctx.ob(family, not fails, fi, r, detail="; ".join(fails[:4]) if fails else None)


def _show(lits):
    return "{" + ", ".join(sorted(_lit_text(l) for l in lits)) + "}"


def _lit_text(l):
    if l[0] == "lt":
        return "%r < 0" % (l[1],)
    if l[0] in ("eq", "ne") and len(l) == 2:
        return "%r %s 0" % (l[1], "==" if l[0] == "eq" else "!=")
    return " ".join(str(x) for x in l)


# ===========================================================================
# C05.b  BlockwiseTuple
# ===========================================================================


BLOCK_FIELDS = ("block_number", "more", "size_exponent")


def namedtuple_fields(prog, ci):
    """Field names (in positional order) of a class built on collections.namedtuple(...) / typing.NamedTuple,
    read from the class statement: `class C(namedtuple("N", [...]))`, `class C(Base)` with
    `Base = namedtuple(...)` in the same module, or annotated fields of a typing.NamedTuple body."""
    def from_call(e):
        if isinstance(e, ast.Call) and (chain(e.func) or "").split(".")[-1] == "namedtuple" and len(e.args) >= 2:
            try:
                v = norm.consteval(e.args[1])
            except (NormError, TypeError, ValueError):
                return None
            if isinstance(v, str):
                v = v.replace(",", " ").split()
            if isinstance(v, (tuple, list)) and all(isinstance(x, str) for x in v):
                return list(v)
        return None

    for b in ci.node.bases:
        got = from_call(b)
        if got is None and isinstance(b, ast.Name):
            for st in ast.walk(ci.module.tree):
                if isinstance(st, ast.Assign) and len(st.targets) == 1 and isinstance(st.targets[0], ast.Name) and st.targets[0].id == b.id:
                    got = from_call(st.value)
        if got is not None:
            return got
        if (chain(b) or "").split(".")[-1] == "NamedTuple":
            return [st.target.id for st in ci.node.body if isinstance(st, ast.AnnAssign) and isinstance(st.target, ast.Name)]
    return None


def block_triple(e, fields=BLOCK_FIELDS):
    """(num, more, szx) expressions of a Block option value: a tuple display, or a constructor call with
    positional and/or keyword arguments named after the fields; None otherwise."""
    if isinstance(e, ast.Tuple):
        return list(e.elts) if len(e.elts) == 3 and not any(isinstance(x, ast.Starred) for x in e.elts) else None
    if isinstance(e, ast.Call) and not any(isinstance(a, ast.Starred) for a in e.args):
        kws = flat_keywords(e)
        if kws is None or len(e.args) + len(kws) != 3 or not set(kws) <= set(fields[len(e.args):]):
            return None
        return list(e.args) + [kws[f] for f in fields[len(e.args):]]
    return None


def _returns(fi):
    return [n for n in walk_no_nested(fi.node) if isinstance(n, ast.Return) and n.value is not None]


def _is_property(fi):
    return any(chain(d) == "property" for d in fi.node.decorator_list)


@R.clause("C05.b", "BlockwiseTuple: size = 2^(min(szx,6)+4), start = num*size, payload-size validity, reduced_to keeps start and never raises the exponent")
def b(ctx):
    prog = ctx.prog
    f_size, f_start, f_valid, f_red = (prog.func(BT + n) for n in ("size", "start", "is_valid_for_payload_size", "reduced_to"))
    ctx.need(_is_property(f_size) and _is_property(f_start), "BlockwiseTuple.size/start are no longer properties")
    ci = prog.cls(BT[:-1])
    fields = namedtuple_fields(prog, ci)
    ctx.need(fields is not None and tuple(fields) == BLOCK_FIELDS, "BlockwiseTuple is no longer a named tuple of (block_number, more, size_exponent)")
    fields = tuple(fields)
    inline = {"self." + n: m for n, m in ci.methods.items() if _is_property(m) and n not in BLOCK_FIELDS}
    FX = {"self": fields}
    N = Normalizer(rename={"self.block_number": "NUM"})
    NUM = Poly.atom("NUM")

    # size, start
    for fi, what, ref in ((f_size, "size == 2^(min(szx,6)+4)", lambda s: Poly.const(2 ** unit_exp(s))),
                          (f_start, "start == block_number * size", lambda s: NUM * Poly.const(2 ** unit_exp(s)))):
        fails = []
        n = 0
        rets = _returns(fi)
        ctx.floor("returns of BlockwiseTuple.%s" % fi.name, len(rets), 1)
        cfg = cfg_of(fi)
        ctx.need(cfg.must_pass(cfg.entry, [cfg.loc1(r) for r in rets]), "BlockwiseTuple.%s can fall off its end" % fi.name)
        for s in range(8):
            X = Expander(fi, subst={"self.size_exponent": C(s)}, inline={k: v for k, v in inline.items() if v is not fi}, fields=FX)
            for r in rets:
                for lits, v in alts_expr(X, N, r.value, cfg.loc1(r), [(t, pol) for t, pol, _ in cfg.guards(cfg.loc1(r))]):
                    n += 1
                    try:
                        got = N.poly(v)
                    except NormError:
                        got = None
                    if got != ref(s) or lits:
                        fails.append("szx=%d: %r%s" % (s, got, (" under " + _show(lits)) if lits else ""))
        ctx.floor("evaluations of BlockwiseTuple.%s" % fi.name, n, 8)
        ctx.ob("BlockwiseTuple.%s for every size exponent 0..7" % what, not fails, fi, fi.node, detail="; ".join(fails[:4]) if fails else None,
               construct="BlockwiseTuple.%s" % fi.name)

    # is_valid_for_payload_size
    fi = f_valid
    pp = params(fi)
    ctx.need(len(pp) == 1 and not writes_to_name(fi.node, pp[0]), "is_valid_for_payload_size signature changed")
    Nv = Normalizer(rename={pp[0]: "PS"})
    PS = Poly.atom("PS")
    cfg = cfg_of(fi)
    rets = _returns(fi)
    ctx.floor("returns of is_valid_for_payload_size", len(rets), 1)
    ctx.ob("is_valid_for_payload_size decides on every path", cfg.must_pass(cfg.entry, [cfg.loc1(r) for r in rets])
           and not [n for n in walk_no_nested(fi.node) if isinstance(n, ast.Return) and n.value is None], fi, fi.node, construct="BlockwiseTuple.is_valid_for_payload_size")
    fam = {"more": [], "last": [], "bert-more": [], "bert-last": []}
    cnt = 0
    for s in range(8):
        X = Expander(fi, subst={"self.size_exponent": C(s)}, inline=inline, fields=FX)
        size = Poly.const(2 ** unit_exp(s))
        for r in rets:
            rn = cfg.loc1(r)
            for lits, truth in alts_bool(X, Nv, r.value, rn, [(t, pol) for t, pol, _ in cfg.guards(rn)]):
                cnt += 1
                worlds = []
                if ("nottruth", "self.more") not in lits:
                    worlds.append(True)
                if ("truth", "self.more") not in lits:
                    worlds.append(False)
                rest = frozenset(l for l in lits if l not in (("truth", "self.more"), ("nottruth", "self.more")))
                for more in worlds:
                    if s < 7 and more:
                        goal = ("eq", norm._signnorm(PS - size)) if truth else ("ne", norm._signnorm(PS - size))
                        key = "more"
                    elif s < 7:
                        goal = ("lt", PS - size - Poly.const(1)) if truth else ("lt", size - PS)
                        key = "last"
                    elif more:
                        m = P("PS % 1024")
                        goal = ("eq", m) if truth else ("ne", m)
                        key = "bert-more"
                    else:
                        goal = None
                        key = "bert-last"
                    ok = entails(rest, goal) if goal is not None else truth
                    if not ok:
                        fam[key].append("szx=%d: returns %s under %s" % (s, truth, _show(lits)))
    ctx.floor("evaluated alternatives of is_valid_for_payload_size", cnt, 16)
    texts = {"more": "a block with more-flag is valid exactly when the payload size equals the block size",
             "last": "a final block is valid exactly when the payload size does not exceed the block size",
             "bert-more": "a BERT block with more-flag is valid exactly when the payload is a multiple of 1024",
             "bert-last": "a final BERT block is accepted with any payload size"}
    for key, fails in fam.items():
        ctx.ob(texts[key], not fails, fi, fi.node, detail="; ".join(fails[:4]) if fails else None, construct="BlockwiseTuple.is_valid_for_payload_size [%s]" % key)

    # reduced_to
    fi = f_red
    pp = params(fi)
    ctx.need(len(pp) == 1 and not writes_to_name(fi.node, pp[0]), "reduced_to signature changed")
    cfg = cfg_of(fi)
    rets = _returns(fi)
    ctx.floor("returns of reduced_to", len(rets), 1)
    ctx.ob("reduced_to returns a descriptor on every path", cfg.must_pass(cfg.entry, [cfg.loc1(r) for r in rets])
           and not [n for n in walk_no_nested(fi.node) if isinstance(n, ast.Return) and n.value is None], fi, fi.node, construct="BlockwiseTuple.reduced_to")
    f_exp, f_startkeep, f_more = [], [], []
    cnt = 0
    for s in range(8):
        for m in range(8):
            X = Expander(fi, subst={"self.size_exponent": C(s), pp[0]: C(m)}, inline=inline, fields=FX)
            for r in rets:
                rn = cfg.loc1(r)
                for lits, v in alts_expr(X, N, r.value, rn, [(t, pol) for t, pol, _ in cfg.guards(rn)]):
                    cnt += 1
                    w = "szx=%d,max=%d" % (s, m)
                    if isinstance(v, ast.Name) and v.id == "self":
                        n2, s2, more_ok = NUM, Poly.const(s), True
                    else:
                        if isinstance(v, ast.Call) and chain(v.func) == "self._replace" and not v.args:
                            # namedtuple API: the fields not named keep their value
                            kws = flat_keywords(v)
                            ctx.need(kws is not None and set(kws) <= set(fields), "reduced_to: fields replaced by self._replace cannot be determined")
                            keep = {"block_number": ast.Attribute(value=ast.Name(id="self", ctx=ast.Load()), attr="block_number", ctx=ast.Load()),
                                    "more": ast.Attribute(value=ast.Name(id="self", ctx=ast.Load()), attr="more", ctx=ast.Load()), "size_exponent": C(s)}
                            elts = [kws.get(f, keep[f]) for f in fields]
                        else:
                            elts = block_triple(v, fields)
                        ctx.need(elts is not None, "reduced_to returns something that is neither self nor a (num, more, szx) triple")
                        elts = [elts[fields.index(f)] for f in BLOCK_FIELDS]
                        try:
                            n2, s2 = N.poly(elts[0]), N.poly(elts[2])
                        except NormError as e:
                            raise AnalysisError("reduced_to: fields outside the arithmetic vocabulary: %s" % e)
                        more_ok = chain(elts[1]) == "self.more"
                    sc = s2.const_value()
                    if sc is None or sc != min(s, m):
                        f_exp.append("%s: exponent %r" % (w, s2))
                    if sc is None or sc.denominator != 1 or not (0 <= sc <= 7) or n2 * Poly.const(2 ** unit_exp(int(sc))) != NUM * Poly.const(2 ** unit_exp(s)):
                        f_startkeep.append("%s: (num, szx) = (%r, %r)" % (w, n2, s2))
                    if not more_ok:
                        f_more.append(w)
    ctx.floor("evaluated alternatives of reduced_to", cnt, 64)
    ctx.ob("reduced_to yields exponent min(szx, maximum): it never grows and never exceeds the maximum", not f_exp, fi, fi.node,
           detail="; ".join(f_exp[:4]) if f_exp else None, construct="BlockwiseTuple.reduced_to [exponent]")
    ctx.ob("reduced_to preserves the byte offset num * 2^(min(szx,6)+4)", not f_startkeep, fi, fi.node,
           detail="; ".join(f_startkeep[:4]) if f_startkeep else None, construct="BlockwiseTuple.reduced_to [start]")
    ctx.ob("reduced_to keeps the more flag", not f_more, fi, fi.node, detail="; ".join(f_more[:4]) if f_more else None, construct="BlockwiseTuple.reduced_to [more]")


# ===========================================================================
# C05.c / C05.f  Block1 loop of BlockwiseRequest._run
# ===========================================================================


class _Roles:
    pass


def _own_stmt(cfg, node):
    return cfg.nodes[cfg.loc1(node)].ast


def _assigned_name(st, value):
    if isinstance(st, ast.Assign) and len(st.targets) == 1 and isinstance(st.targets[0], ast.Name) and st.value is value:
        return st.targets[0].id
    if isinstance(st, ast.AnnAssign) and isinstance(st.target, ast.Name) and st.value is value:
        return st.target.id
    return None


def bound_args(call, callee):
    """{parameter name: argument expression} of a call to the method `callee` (positional and keyword
    arguments alike); None when the call uses * / ** or does not fit the signature."""
    names = params(callee)
    if any(isinstance(a, ast.Starred) for a in call.args) or len(call.args) > len(names):
        return None
    out = dict(zip(names, call.args))
    for k in call.keywords:
        if k.arg is None or k.arg not in names or k.arg in out:
            return None
        out[k.arg] = k.value
    return out


def flag_names(fi):
    """Locals of fi that are boolean flags: every binding in the function is a plain assignment `x = True` /
    `x = False` (no parameter, no for / with / except / walrus / unpacking target, not declared nonlocal or global
    anywhere inside).  The value of such a local at a test is the constant of the last assignment executed, so
    the walks below carry it along a path instead of treating the test as a free condition -- which makes a loop
    that is left through `done = True` / `while not done` the same thing as one left through `break`."""
    shared = {n for st in ast.walk(fi.node) if isinstance(st, (ast.Nonlocal, ast.Global)) for n in st.names}
    cands = {n.id for n in walk_no_nested(fi.node) if isinstance(n, ast.Name) and isinstance(n.ctx, ast.Store)}
    shared |= {n.id for n in walk_no_nested(fi.node) if isinstance(n, ast.Name) and isinstance(n.ctx, ast.Del)}
    out = set()
    for nm in cands - shared - set(params(fi, skip_self=False)):
        ws = writes_to_name(fi.node, nm)
        if ws and all(_flag_assignment(w, {nm}) is not None for w in ws):
            out.add(nm)
    return out


def _flag_assignment(st, flags):
    """(name, value) when the statement is `<flag> = True/False`, else None."""
    if isinstance(st, ast.Assign) and len(st.targets) == 1 and isinstance(st.targets[0], ast.Name) and st.targets[0].id in flags \
            and isinstance(st.value, ast.Constant) and isinstance(st.value.value, bool):
        return st.targets[0].id, st.value.value
    if isinstance(st, ast.AnnAssign) and isinstance(st.target, ast.Name) and st.target.id in flags and isinstance(st.value, ast.Constant) and isinstance(st.value.value, bool):
        return st.target.id, st.value.value
    return None


def _lit_mentions_name(l, name):
    for x in l[1:]:
        if isinstance(x, Poly):
            if any(a == name or a.startswith(name + ".") for a in x.atoms()):
                return True
        elif isinstance(x, str) and (x == name or x.startswith(name + ".")):
            return True
    return False


def flag_facts_at(r, nid):
    """What is known about the boolean flags when CFG node nid executes: the value a dominating test of the flag
    found (`while sending:` for the loop body) or a dominating assignment gave it, provided no other assignment of
    the flag lies on a path from there to nid that does not pass the test / assignment again."""
    cfg = r.cfg
    out = set()
    for f in sorted(r.flags):
        ws = writes_to_name(r.fi.node, f)
        wnodes = {n for w in ws for n in cfg.locate(w) if cfg.nodes[n].kind not in ("T", "F")}
        cands = [(p, pol) for t, pol, p in cfg.guards(nid) if isinstance(t, ast.Name) and t.id == f]
        for w in ws:
            fa = _flag_assignment(w, {f})
            cands.extend((n, fa[1]) for n in cfg.locate(w) if n in wnodes and n != nid and cfg.dominates(n, nid))
        vals = set()
        for p, v in cands:
            between = cfg.reach({p}, avoid={p}) & (rreach(cfg, nid, avoid={p}) | {nid})
            if not (between & (wnodes - {p})):
                vals.add(v)
        if len(vals) == 1:
            out.add(("truth" if vals.pop() else "nottruth", f))
    return frozenset(out)


def _block1_roles(ctx):
    """Identify, by data flow only, the block cursor, the exponent variable, the
    message sent in a round, its request and its response in BlockwiseRequest._run."""
    fi = ctx.prog.func(BR + "_run")
    cfg = cfg_of(fi)
    r = _Roles()
    r.fi, r.cfg = fi, cfg
    callee = ctx.prog.func(MSG + "_extract_block")
    ctx.need(len(params(callee)) == 3, "_extract_block signature changed")
    calls = [n for n in walk_no_nested(fi.node) if isinstance(n, ast.Call) and isinstance(n.func, ast.Attribute) and n.func.attr == "_extract_block"]
    ctx.floor("_extract_block call sites in BlockwiseRequest._run", len(calls), 1)
    ctx.need(len(calls) == 1, "several _extract_block call sites in BlockwiseRequest._run")
    call = calls[0]
    ba = bound_args(call, callee)
    ctx.need(ba is not None and len(ba) == 3, "_run: arguments of _extract_block cannot be matched to its parameters")
    pc, ps, pm = params(callee)
    ctx.need(isinstance(ba[pc], ast.Name) and isinstance(ba[ps], ast.Name), "_run: block cursor / size exponent handed to _extract_block are not locals")
    r.call, r.cursor, r.szx, r.maxarg = call, ba[pc].id, ba[ps].id, ba[pm]
    r.call_nid = cfg.loc1(call)
    r.N = Normalizer()
    r.req = canon_chain(Expander(fi), call.func.value, r.call_nid)
    ctx.need(r.req in params(fi), "_run: _extract_block is not called on the application request parameter")
    cut = _assigned_name(_own_stmt(cfg, call), call)
    loops = enclosing_loops(cfg, call, fi.node)
    ctx.need(loops, "_run: _extract_block is not called inside the Block1 loop")
    r.outer = loops[0]
    # the request of a round: protocol.request(<message>) whose message can be the block just cut (directly, or
    # through a local that is bound to the cut block on some path and to the whole request on the others)
    sends = []
    XO = Expander(fi, path_conds=False)
    for n, bb in find("$p.request($x, $**kw)", r.outer):
        sn = cfg.loc1(n)
        x = bb["x"]
        if not isinstance(x, ast.Name):
            continue
        vals = [v for v, _c in XO.expand(x, sn)]
        if any(v is call or (isinstance(v, ast.Name) and cut is not None and v.id == cut) for v in vals):
            ctx.need(all(v is call or (isinstance(v, ast.Name) and v.id == cut) or chain(v) == r.req for v in vals),
                     "_run: the message sent in a round is neither the block just cut nor the application request")
            sends.append((n, x.id))
    ctx.need(len(sends) == 1, "_run: expected exactly one request built from the current block (found %d)" % len(sends))
    r.send, r.blk = sends[0]
    r.send_nid = cfg.loc1(r.send)
    # the local holding the message of the round is a role of its own ("what was sent"), whichever of the
    # two it is bound to: it is never replaced by its definitions
    # boolean flags are carried along the paths as facts (fact_walk) / values (RoundExec), not replaced by the set of
    # constants that may reach a test
    r.flags = flag_names(fi) - {r.blk, r.cursor, r.szx}
    r.X = Expander(fi, opaque={r.blk} | r.flags)
    # its response: `x = await <request>.response`, the request being the call itself or a local bound to it
    r.resp = None
    for n in ast.walk(r.outer):
        if isinstance(n, ast.Await) and isinstance(n.value, ast.Attribute) and n.value.attr == "response":
            base = n.value.value
            if base is r.send or (isinstance(base, ast.Name) and resolve_local(fi.node, base) is r.send):
                nm = _assigned_name(_own_stmt(cfg, n), n)
                if nm is not None:
                    ctx.need(r.resp is None, "_run: the block response is awaited twice")
                    r.resp, r.resp_nid = nm, cfg.loc1(n)
    ctx.need(r.resp is not None, "_run: no `x = await <block request>.response` in the Block1 loop")
    ctx.need(r.send_nid == r.resp_nid or cfg.dominates(r.send_nid, r.resp_nid), "_run: response awaited before the request is sent")

    def in_outer(st):
        return any(l is r.outer for l in enclosing_loops(cfg, st, fi.node))

    r.cur_writes = [w for w in writes_to_name(fi.node, r.cursor) if in_outer(w)]
    r.szx_writes = [w for w in writes_to_name(fi.node, r.szx) if in_outer(w)]
    b1n = "%s.opt.block1" % r.resp
    x1n = "%s.opt.block1" % r.blk
    r.match = ("eq", norm._signnorm(Poly.atom(b1n + ".block_number") - Poly.atom(x1n + ".block_number")))
    r.mismatch = ("ne", r.match[1])
    r.final = ("nottruth", x1n + ".more")
    r.resp_more = b1n + ".more"
    r.resp_szx = b1n + ".size_exponent"
    r.mism = pseudo_asserting(r.X, r.N, cfg, lambda a: entails(a, r.mismatch))
    r.matchp = pseudo_asserting(r.X, r.N, cfg, lambda a: entails(a, r.match))
    return r


# -- one round of the Block1 loop as a state transformer ----------------------
#
# The obligations on the cursor and the exponent are phrased over the *effect of one round*: starting right
# after a block was cut at (cursor, szx) = (CUR, s), with the server acknowledging the block number and
# answering with size exponent a, which (cursor, szx) does the next cut (or the next request) see?  The round is
# executed by the checker's own evaluator on the CFG for every s, a in 0..7: the exponent, the acknowledged
# exponent and everything derived from them are concrete integers, the cursor is a polynomial over the atom CUR
# (and over len(<sent>.payload)//1024 for BERT); tests the valuation decides are followed, the others fork.
# How the code spells the bookkeeping (a while loop that halves step by step, a for loop over a range, one shift
# by a computed amount, conditional expressions, helpers that were expanded in place, tuple assignments) is
# immaterial: only the resulting state is compared with RFC 7959 section 2.5 / RFC 8323 section 6.


class _Undecided(Exception):
    pass


class _Unknown(Exception):
    pass


class _Raises(Exception):
    """The evaluated operation raises at run time on this valuation (negative shift count, division by zero):
    the path ends there."""


_OPS = {ast.Add: "add", ast.Sub: "sub", ast.Mult: "mul", ast.FloorDiv: "floordiv", ast.Mod: "mod", ast.Pow: "pow", ast.LShift: "shl",
        ast.RShift: "shr", ast.BitAnd: "and", ast.BitOr: "or", ast.BitXor: "xor", ast.Div: "div"}


def _is_num(v):
    return isinstance(v, int)  # bool included


def _as_poly(v):
    if isinstance(v, Poly):
        return v
    if _is_num(v):
        return Poly.const(int(v))
    raise _Unknown("not a number: %r" % (v,))


def _settle(v):
    """A polynomial without atoms is the integer it denotes."""
    if isinstance(v, Poly):
        c = v.const_value()
        if c is not None and c.denominator == 1:
            return int(c)
    return v


def _divisible(p, k):
    return all((c / k).denominator == 1 for c in p.t.values())


def _arith(op, l, r):
    l, r = _settle(l), _settle(r)
    if _is_num(l) and _is_num(r):
        l, r = int(l), int(r)
        try:
            if op == "add":
                return l + r
            if op == "sub":
                return l - r
            if op == "mul":
                return l * r
            if op == "floordiv":
                return l // r
            if op == "mod":
                return l % r
            if op == "pow" and 0 <= r < 200:
                return l ** r
            if op == "shl" and 0 <= r < 200:
                return l << r
            if op == "shr" and r >= 0:
                return l >> r
            if op == "and":
                return l & r
            if op == "or":
                return l | r
            if op == "xor":
                return l ^ r
        except ZeroDivisionError:
            raise _Raises("division by zero")
        if op in ("shl", "shr") and r < 0:
            raise _Raises("negative shift count")
        raise _Unknown("arithmetic %s outside the evaluator" % op)
    if isinstance(l, (tuple, list)) and isinstance(r, (tuple, list)) and op == "add":
        return tuple(l) + tuple(r)
    lp, rp = _as_poly(l), _as_poly(r)
    if op == "add":
        return lp + rp
    if op == "sub":
        return lp - rp
    if op == "mul":
        return lp * rp
    if op in ("shl", "shr") and _is_num(r) and r < 0:
        raise _Raises("negative shift count")
    if op in ("floordiv", "mod") and _is_num(r) and r == 0:
        raise _Raises("division by zero")
    if op == "shl" and _is_num(r) and 0 <= r < 200:
        return lp * Poly.const(2 ** int(r))
    if op == "pow" and _is_num(r) and 0 <= r <= 4:
        out = Poly.const(1)
        for _ in range(int(r)):
            out = out * lp
        return out
    if op == "pow" and _is_num(l) and int(l) == 2:
        return norm.pow2(rp)
    if op in ("floordiv", "shr") and _is_num(r):
        k = int(r) if op == "floordiv" else (2 ** int(r) if 0 <= r < 200 else 0)
        if k > 0 and _divisible(lp, k):
            return lp * Poly.const(Fraction(1, k))  # exact: every atom stands for an integer
    if op == "mod" and _is_num(r) and int(r) > 0 and _divisible(lp, int(r)):
        return 0
    if op in ("floordiv", "mod", "shr"):
        return Poly.atom("%s(%r,%r)" % (op, lp, rp))  # the Normalizer's spelling of these atoms
    raise _Unknown("arithmetic %s on symbolic operands" % op)


_NO_SCOPE = {}


class RoundEval:
    """Expression evaluator of the round transformer.  Values are Python ints / bools / None / strings /
    tuples / ranges (concrete) or Poly (symbolic integers).  `env` holds the tracked locals, `facts` maps
    canonical attribute chains to concrete values; single-assignment locals that are not tracked are read
    through their definitions, everything else is an atom named by its canonical chain."""

    def __init__(self, fi, facts, tracked):
        self.fi = fi
        self.facts = facts
        self.tracked = tracked
        self.lenv = {k: v for k, v in norm.local_env(fi.node).items() if k not in tracked}
        self.call_hook = None  # (call, callee chain, argument values, keyword values) -> value, for calls the evaluator does not know

    def canon_chain(self, c):
        head, _, rest = c.partition(".")
        seen = set()
        while head in self.lenv and head not in seen:
            seen.add(head)
            tgt = chain(self.lenv[head])
            if tgt is None:
                break
            c = tgt + ("." + rest if rest else "")
            head, _, rest = c.partition(".")
        return c

    def truth(self, v):
        v = _settle(v)
        if isinstance(v, Poly):
            raise _Undecided()
        if isinstance(v, range):
            return len(v) > 0
        return bool(v)

    def compare(self, op, a, b):
        a, b = _settle(a), _settle(b)
        if isinstance(op, (ast.Is, ast.IsNot)):
            if isinstance(a, Poly) or isinstance(b, Poly):
                raise _Undecided()
            if a is None or b is None or isinstance(a, bool) or isinstance(b, bool):
                same = a is b
                return same if isinstance(op, ast.Is) else not same
            raise _Undecided()
        if isinstance(op, (ast.In, ast.NotIn)):
            if isinstance(b, (tuple, list, range, set, frozenset, dict)) and not isinstance(a, Poly) and not any(isinstance(x, Poly) for x in b):
                return (a in b) if isinstance(op, ast.In) else (a not in b)
            raise _Undecided()
        if isinstance(a, Poly) or isinstance(b, Poly):
            if not ((isinstance(a, Poly) or _is_num(a)) and (isinstance(b, Poly) or _is_num(b))):
                raise _Undecided()
            d = (_as_poly(a) - _as_poly(b)).const_value()
            if d is None:
                raise _Undecided()
            a, b = d, 0
        try:
            if isinstance(op, ast.Eq):
                return a == b
            if isinstance(op, ast.NotEq):
                return a != b
            if isinstance(op, ast.Lt):
                return a < b
            if isinstance(op, ast.LtE):
                return a <= b
            if isinstance(op, ast.Gt):
                return a > b
            if isinstance(op, ast.GtE):
                return a >= b
        except TypeError:
            pass
        raise _Unknown("comparison outside the evaluator")

    def ev(self, e, env, scope=None, depth=0):
        if type(e) is ast.Constant:
            return e.value
        if scope is None:
            scope = _NO_SCOPE
        if type(e) is ast.Name:
            if e.id in scope:
                return scope[e.id]
            if e.id in env:
                v = env[e.id]
                if isinstance(v, _Opaque):
                    raise _Unknown("value of %s is outside the evaluator: %s" % (e.id, v.why))
                return v
        if depth > 80:
            raise _Unknown("expression too deep")
        ev = lambda x, sc=scope: self.ev(x, env, sc, depth + 1)
        if isinstance(e, ast.Name):
            if e.id in self.tracked:
                raise _Unknown("%s read before it is bound in the round" % e.id)
            if e.id in self.lenv:
                try:
                    return self.ev(self.lenv[e.id], env, None, depth + 1)
                except _Unknown:
                    pass
            c = self.canon_chain(e.id)
            return self.facts[c] if c in self.facts else Poly.atom(c)
        if isinstance(e, ast.Attribute):
            c = chain(e)
            if c is None:
                raise _Unknown("attribute of a computed value")
            c = self.canon_chain(c)
            return self.facts[c] if c in self.facts else Poly.atom(c)
        if isinstance(e, (ast.Tuple, ast.List)):
            out = []
            for x in e.elts:
                if isinstance(x, ast.Starred):
                    out.extend(self._seq(ev(x.value)))
                else:
                    out.append(ev(x))
            return tuple(out)
        if isinstance(e, ast.Dict):
            out = {}
            for k, x in zip(e.keys, e.values):
                xv = ev(x)
                if k is None:
                    if not isinstance(xv, dict):
                        raise _Unknown("** of a value that is not a concrete dict")
                    out.update(xv)
                else:
                    kv = _settle(ev(k))
                    if isinstance(kv, Poly):
                        raise _Unknown("symbolic dict key")
                    out[kv] = xv
            return out
        if isinstance(e, ast.Subscript):
            v, i = ev(e.value), (_settle(ev(e.slice)) if not isinstance(e.slice, ast.Slice) else None)
            if isinstance(v, (tuple, range)) and _is_num(i):
                if -len(v) <= i < len(v):
                    return v[i]
                raise _Raises("index out of range")
            if isinstance(v, dict) and i is not None and not isinstance(i, Poly):
                if i in v:
                    return v[i]
                raise _Raises("KeyError")
            raise _Unknown("subscript outside the evaluator")
        if isinstance(e, ast.UnaryOp):
            if isinstance(e.op, ast.Not):
                return not self.truth(ev(e.operand))
            v = _settle(ev(e.operand))
            if isinstance(e.op, ast.USub):
                return -v if _is_num(v) else Poly.const(0) - _as_poly(v)
            if isinstance(e.op, ast.UAdd):
                return v
            if isinstance(e.op, ast.Invert) and _is_num(v):
                return ~int(v)
            raise _Unknown("unary operator")
        if isinstance(e, ast.BoolOp):
            v = None
            for x in e.values:
                v = ev(x)
                t = self.truth(v)
                if t != isinstance(e.op, ast.And):
                    return v
            return v
        if isinstance(e, ast.Compare):
            left = ev(e.left)
            for op, right in zip(e.ops, e.comparators):
                rv = ev(right)
                if not self.compare(op, left, rv):
                    return False
                left = rv
            return True
        if isinstance(e, ast.IfExp):
            return ev(e.body) if self.truth(ev(e.test)) else ev(e.orelse)
        if isinstance(e, ast.BinOp):
            if type(e.op) not in _OPS:
                raise _Unknown("operator")
            return _arith(_OPS[type(e.op)], ev(e.left), ev(e.right))
        if isinstance(e, (ast.GeneratorExp, ast.ListComp, ast.SetComp)):
            return tuple(self._comprehend(e.elt, e.generators, env, dict(scope), depth))
        if isinstance(e, ast.NamedExpr):
            raise _Unknown("assignment expression")
        if isinstance(e, ast.Call):
            return self._call(e, env, scope, depth)
        raise _Unknown("expression kind %s" % type(e).__name__)

    @staticmethod
    def _seq(v):
        if isinstance(v, (tuple, list, range)):
            return list(v)
        raise _Unknown("iteration over a value that is not a concrete sequence")

    def _bind_scope(self, target, v, scope):
        if isinstance(target, ast.Name):
            scope[target.id] = v
        elif isinstance(target, (ast.Tuple, ast.List)) and isinstance(v, tuple) and len(v) == len(target.elts):
            for t, x in zip(target.elts, v):
                self._bind_scope(t, x, scope)
        else:
            raise _Unknown("comprehension target")

    def _comprehend(self, elt, gens, env, scope, depth):
        if not gens:
            yield self.ev(elt, env, scope, depth + 1)
            return
        g = gens[0]
        if g.is_async:
            raise _Unknown("async comprehension")
        for v in self._seq(self.ev(g.iter, env, scope, depth + 1)):
            sc = dict(scope)
            self._bind_scope(g.target, v, sc)
            if all(self.truth(self.ev(c, env, sc, depth + 1)) for c in g.ifs):
                yield from self._comprehend(elt, gens[1:], env, sc, depth)

    def _call(self, e, env, scope, depth):
        if isinstance(e.func, ast.Attribute) and e.func.attr in ("get", "keys", "values", "items") and not e.keywords:
            try:
                recv = self.ev(e.func.value, env, scope, depth + 1)
            except _Unknown:
                recv = None
            if isinstance(recv, dict):
                args = [_settle(self.ev(a, env, scope, depth + 1)) for a in e.args]
                if e.func.attr == "get" and 1 <= len(args) <= 2 and not isinstance(args[0], Poly):
                    return recv.get(args[0], args[1] if len(args) == 2 else None)
                if e.func.attr != "get" and not args:
                    return tuple(getattr(recv, e.func.attr)())
                raise _Unknown("dict method call")
        fn = chain(e.func)
        if e.keywords and not (fn in ("sum", "min", "max") and all(k.arg in ("start", "default") for k in e.keywords)) and (self.call_hook is None or any(k.arg is None for k in e.keywords)):
            raise _Unknown("call with keywords")
        args = []
        for a in e.args:
            if isinstance(a, ast.Starred):
                args.extend(self._seq(self.ev(a.value, env, scope, depth + 1)))
            else:
                args.append(_settle(self.ev(a, env, scope, depth + 1)))
        kw = {k.arg: _settle(self.ev(k.value, env, scope, depth + 1)) for k in e.keywords}
        conc = all(not isinstance(a, Poly) for a in args)
        if fn == "range" and conc and 1 <= len(args) <= 3 and all(_is_num(a) for a in args):
            rg = range(*[int(a) for a in args])
            if len(rg) > 64:
                raise _Unknown("range too long")
            return rg
        if fn == "len" and len(args) == 1:
            if isinstance(args[0], (tuple, range, str, bytes)):
                return len(args[0])
            if isinstance(args[0], Poly):
                return Poly.atom("len(%r)" % (args[0],))
        if fn in ("min", "max") and args:
            vals = self._seq(args[0]) if len(args) == 1 else args
            if not vals and "default" in kw:
                return kw["default"]
            if not vals:
                raise _Unknown("min/max of nothing")
            best = vals[0]
            for v in vals[1:]:
                lt = self.compare(ast.Lt(), v, best)
                if (fn == "min") == bool(lt):
                    best = v
            return best
        if fn == "sum" and 1 <= len(args) <= 2:
            acc = args[1] if len(args) == 2 else kw.get("start", 0)
            for v in self._seq(args[0]):
                acc = _arith("add", acc, v)
            return _settle(acc)
        if fn in ("int", "bool", "abs") and len(args) == 1 and _is_num(args[0]):
            return {"int": int, "bool": bool, "abs": abs}[fn](args[0])
        if fn == "int" and len(args) == 1 and isinstance(args[0], Poly):
            return args[0]
        if fn == "bool" and len(args) == 1:
            return self.truth(args[0])
        if fn == "divmod" and len(args) == 2:
            return (_arith("floordiv", args[0], args[1]), _arith("mod", args[0], args[1]))
        if fn in ("tuple", "list", "sorted", "reversed") and len(args) == 1 and conc:
            s = self._seq(args[0])
            if any(isinstance(x, Poly) for x in s) and fn == "sorted":
                raise _Unknown("sorting symbolic values")
            return tuple(sorted(s) if fn == "sorted" else (reversed(s) if fn == "reversed" else s))
        if fn in ("all", "any") and len(args) == 1:
            ts = [self.truth(x) for x in self._seq(args[0])]
            return all(ts) if fn == "all" else any(ts)
        if fn == "pow" and len(args) == 2:
            return _arith("pow", args[0], args[1])
        if self.call_hook is not None:
            return self.call_hook(e, fn, args, kw)
        raise _Unknown("call of %s" % (fn or "a computed function"))


_EVAL_BUILTINS = {"len", "min", "max", "int", "bool", "abs", "sum", "range", "divmod", "pow", "tuple", "list", "sorted", "reversed", "all", "any"}


def _arithmetic_only(e):
    """The value is bookkeeping arithmetic (no awaits, no calls other than the evaluator's builtins): only such
    definitions make their targets part of the tracked state; `block = request._extract_block(cursor, ...)` is an
    object computed *from* the cursor, not part of it."""
    for n in ast.walk(e):
        if isinstance(n, (ast.Await, ast.Yield, ast.YieldFrom, ast.Lambda)):
            return False
        if isinstance(n, ast.Call) and chain(n.func) not in _EVAL_BUILTINS:
            return False
    return True


def _freeze(env):
    return tuple(sorted((k, repr(v)) for k, v in env.items()))


class RoundExec:
    STEPS = 6000

    def __init__(self, ctx, r):
        self.r = r
        cfg = self.cfg = r.cfg
        fi = r.fi
        # tracked locals: the cursor, the exponent, every local of the loop whose definition mentions a tracked
        # one, and the targets of the loop's for statements (the evaluator steps through those concretely)
        T = {r.cursor, r.szx}
        stmts = [n for n in ast.walk(r.outer) if isinstance(n, (ast.Assign, ast.AugAssign, ast.AnnAssign, ast.For))]
        changed = True
        while changed:
            changed = False
            for st in stmts:
                if isinstance(st, ast.For):
                    tg = {x.id for x in ast.walk(st.target) if isinstance(x, ast.Name)}
                    if not tg <= T:
                        T |= tg
                        changed = True
                    continue
                val = st.value
                if val is None or not (names_in(val) & T) or not _arithmetic_only(val):
                    continue
                tgts = st.targets if isinstance(st, ast.Assign) else [st.target]
                tg = {x.id for t in tgts for x in ast.walk(t) if isinstance(x, ast.Name) and isinstance(x.ctx, ast.Store)}
                if not tg <= T:
                    T |= tg
                    changed = True
        ctx.need(r.blk not in T and r.resp not in T, "_run: the message sent / its response are computed from the cursor")
        self.bookkeeping = set(T)  # cursor, exponent and what is computed from them
        # boolean flags are part of the state too: assignments bind them, and a test of a flag whose value is not
        # known yet binds it on either outcome (so `done = True; continue` followed by `while not done` leaves)
        self.flags = set(r.flags) - T
        T = T | self.flags
        self.tracked = T
        self.live = rreach(cfg, r.call_nid) | rreach(cfg, r.send_nid) | {r.call_nid, r.send_nid}

    # -- statement effects -----------------------------------------------
    def _bind(self, target, v, env, E, st):
        if isinstance(target, ast.Name):
            if target.id in self.tracked:
                env[target.id] = _settle(v)
            return
        if isinstance(target, (ast.Tuple, ast.List)):
            names = {x.id for x in ast.walk(target) if isinstance(x, ast.Name)} & self.tracked
            if not names:
                return
            if any(isinstance(x, ast.Starred) for x in target.elts) or not isinstance(v, tuple) or len(v) != len(target.elts):
                for nm in names:
                    env[nm] = _Opaque(stmt_text(st, 80))
                return
            for t, x in zip(target.elts, v):
                self._bind(t, x, env, E, st)
        # attribute / subscript targets do not touch the tracked locals

    def _stmt(self, st, env, E):
        if isinstance(st, (ast.Assign, ast.AnnAssign, ast.AugAssign)):
            tgts = st.targets if isinstance(st, ast.Assign) else [st.target]
            names = {x.id for t in tgts for x in ast.walk(t) if isinstance(x, ast.Name) and isinstance(x.ctx, ast.Store)} & self.tracked
            if not names or getattr(st, "value", None) is None:
                return
            try:
                if isinstance(st, ast.AugAssign):
                    if type(st.op) not in _OPS:
                        raise _Unknown("operator")
                    v = _arith(_OPS[type(st.op)], E.ev(ast.Name(id=st.target.id, ctx=ast.Load()), env), E.ev(st.value, env))
                else:
                    v = E.ev(st.value, env)
            except (_Unknown, _Undecided) as x:
                v = _Opaque("%s (%s)" % (stmt_text(st, 80), x))
            # _Raises propagates: the caller ends the path
            if isinstance(v, _Opaque):
                for nm in names:
                    env[nm] = v
                return
            for t in tgts:
                self._bind(t, v, env, E, st)
            return
        for n in walk_no_nested(st):
            if isinstance(n, ast.NamedExpr) and n.target.id in self.tracked:
                env[n.target.id] = _Opaque(stmt_text(st, 80))
            elif isinstance(n, ast.Name) and isinstance(n.ctx, ast.Del) and n.id in self.tracked:
                env.pop(n.id, None)

    # -- the walk ----------------------------------------------------------
    def run(self, s, a):
        """States (cursor, szx) seen by the next cut / the next request after a round that starts right after a
        cut at (CUR, s) with the block number acknowledged and the server answering with exponent a.
        Returns (list of (cursor value, exponent value, where), diverged)."""
        r, cfg = self.r, self.cfg
        E = RoundEval(r.fi, {r.resp_szx: a}, self.tracked)
        env0 = {r.cursor: Poly.atom("CUR"), r.szx: s}
        # locals derived from the exponent before the cut (at the top of the loop body) keep the values that the
        # straight run from the loop head to the cut gives them, provided that run leaves cursor and exponent alone
        heads = [h for h in cfg.locate(r.outer) if cfg.nodes[h].kind in ("join", "for")]
        if heads:
            pre, div = self._walk(E, [(d, lab, dict(env0), True) for d, lab in cfg.succ[heads[0]] if lab not in ("exc", "F")])
            cuts = [env for nid, env in pre if nid == r.call_nid]
            if cuts and not div and all(_freeze({k: env.get(k) for k in env0}) == _freeze(env0) for env in cuts):
                for k, v in cuts[0].items():
                    if k not in env0 and not k.startswith("@") and not isinstance(v, _Opaque) and all(k in env and repr(env[k]) == repr(v) for env in cuts):
                        env0[k] = v
        ends, div = self._walk(E, [(d, lab, dict(env0), False) for d, lab in cfg.succ[r.call_nid] if lab != "exc"])
        return [(env.get(r.cursor), env.get(r.szx), "next cut" if nid == r.call_nid else "next request") for nid, env in ends], div

    def _walk(self, E, todo):
        """Run the states (node, incoming edge label, env, request already sent) until the next cut / the next
        request; returns ([(stop node, env)], diverged)."""
        r, cfg = self.r, self.cfg
        seen = set()
        out = []
        steps = 0
        while todo:
            nid, lab, env, sent = todo.pop()
            refine = None
            steps += 1
            if steps > self.STEPS:
                return out, True
            if nid == r.call_nid or (nid == r.send_nid and sent):
                out.append((nid, env))
                continue
            if nid not in self.live or nid in r.mism:
                continue
            nd = cfg.nodes[nid]
            if nd.kind == "for":
                key = "@for%d" % nid
                try:
                    if lab != "back" or key not in env:
                        env[key] = (tuple(E._seq(E.ev(nd.ast.iter, env))), 0)
                    else:
                        env[key] = (env[key][0], env[key][1] + 1)
                    seq, i = env[key]
                except _Raises:
                    continue
                except (_Unknown, _Undecided) as x:
                    writes = {n.id for n in ast.walk(nd.ast) if isinstance(n, ast.Name) and isinstance(n.ctx, ast.Store)} & self.tracked
                    tg = {n.id for n in ast.walk(nd.ast.target) if isinstance(n, ast.Name)}
                    if writes - tg:
                        raise AnalysisError("_run: for loop over %s writes %s but cannot be stepped through (%s)" % (stmt_text(nd.ast.iter, 60), sorted(writes - tg), x))
                    seq, i = (), 0  # a loop that does not touch the tracked state is skipped
                want = "T" if i < len(seq) else "F"
                if want == "T":
                    self._bind(nd.ast.target, seq[i], env, E, nd.ast)
                else:
                    env.pop(key, None)
                nxt = [(d, l) for d, l in cfg.succ[nid] if l == want]
            elif nd.kind == "test":
                try:
                    t = E.truth(E.ev(nd.ast, env))
                    nxt = [(d, l) for d, l in cfg.succ[nid] if l == ("T" if t else "F")]
                except _Raises:
                    continue
                except (_Unknown, _Undecided):
                    nxt = [(d, l) for d, l in cfg.succ[nid] if l in ("T", "F")]
                    if isinstance(nd.ast, ast.Name) and nd.ast.id in self.flags and nd.ast.id not in env:
                        refine = nd.ast.id
            elif nd.kind in ("return", "raise", "exit", "rexit"):
                continue
            else:
                if nd.kind == "stmt" and nd.ast is not None:
                    try:
                        self._stmt(nd.ast, env, E)
                    except _Raises:
                        continue  # an exception leaves the round: no next block on this path
                if nid == r.send_nid:
                    sent = True
                nxt = [(d, l) for d, l in cfg.succ[nid] if l != "exc"]
            for d, l in nxt:
                env2 = dict(env)
                if refine is not None and l in ("T", "F"):
                    env2[refine] = l == "T"
                key = (d, l == "back", sent, _freeze(env2))
                if key in seen:
                    continue
                seen.add(key)
                todo.append((d, l, env2, sent))
        return out, False


class _Opaque:
    def __init__(self, why):
        self.why = why

    def __repr__(self):
        return "<?%s>" % self.why


def _round_table(ctx, r):
    """{(s, a): (states, diverged)} for s, a in 0..7 (computed once per run and shared by C05.c and C05.f)."""
    table = getattr(r.fi, "_c05_round_table", None)
    if table is None:
        ex = RoundExec(ctx, r)
        table = {}
        for s in range(8):
            for a in range(8):
                table[(s, a)] = ex.run(s, a)
        r.fi._c05_round_table = table
    return table


def _judge_round(r, s, a, states, diverged):
    """Failure texts per family for one (s, a) against RFC 7959 section 2.5 / RFC 8323 section 6:
    next exponent = min(s, a); next cursor * unit(next exponent) = (CUR + advance) * unit(s) where advance is one
    block (BERT: len(<sent>.payload) // 1024 units) and unit(x) = 2^(min(x,6)+4)."""
    w = "szx=%d, server answers %d" % (s, a)
    fails = {"exp": [], "adv": [], "off": []}
    if diverged:
        fails["exp"].append("%s: the round does not come to an end (exponent bookkeeping diverges)" % w)
        return fails
    if s == 7:  # the reference is spelled by the same evaluator that executes the round
        adv = _as_poly(RoundEval(r.fi, {}, set()).ev(ast.parse("len(%s.payload) // 1024" % r.blk, mode="eval").body, {}))
    else:
        adv = Poly.const(1)
    want_s = min(s, a)
    if not any(where == "next cut" for _c, _s, where in states):
        fails["exp"].append("%s: no path of the round reaches the next cut (the transfer cannot continue)" % w)
    for cur, sx, where in states:
        for v in (cur, sx):
            if isinstance(v, _Opaque):
                raise AnalysisError("_run: cursor / exponent bookkeeping outside the evaluator's vocabulary: %s" % v.why)
        if cur is None or sx is None:
            raise AnalysisError("_run: cursor / exponent unbound at the %s" % where)
        sx = _settle(sx)
        if not _is_num(sx) or isinstance(sx, bool) or sx != want_s:
            fails["exp"].append("%s: exponent %r at the %s, expected %d" % (w, sx, where, want_s))
            continue
        try:
            got = _as_poly(cur) * Poly.const(2 ** unit_exp(int(sx)))
        except _Unknown:
            raise AnalysisError("_run: the cursor is not an integer expression at the %s" % where)
        want = (Poly.atom("CUR") + adv) * Poly.const(2 ** unit_exp(s))
        if got != want:
            fam = "adv" if a >= s else "off"
            fails[fam].append("%s: cursor %r at the %s (byte offset %r, expected %r)" % (w, _as_poly(cur), where, got, want))
    return fails


def fact_walk(r, starts, tracked, fork=False, flags=None):
    """Consistent continuations of a round of the Block1 loop.  From the given (CFG node, facts) states the loop
    body is walked along non-exceptional edges; every branch outcome adds the literals it asserts (c05
    vocabulary, locals replaced by their definitions) to the facts of the state, and an outcome that contradicts
    the facts already collected is not taken -- so `if last and bad: raise` / `if last: break`, a named
    condition tested twice, nested ifs and guard clauses all yield the same states.  Tests over the tracked
    bookkeeping locals (which change during the round) add nothing; an assignment of True / False to a boolean flag
    (flag_names) replaces what is known about the flag.  The facts concern one round: the walk
    ends at the next cut / request.  With fork=True an outcome that asserts a disjunction (`x in (A, B)` taken, a chained
    comparison not taken, a local with several reaching definitions) continues once per disjunct instead of adding
    nothing: every execution is still covered by a state whose facts hold in it.  Returns [(kind, node id, facts)]
    with kind in 'leave' (the loop is left normally / the function returns), 'next' (next round), 'raise'."""
    cfg, X, N = r.cfg, r.X, r.N
    flags = r.flags if flags is None else flags
    inside_ast = {id(n) for n in ast.walk(r.outer)}

    def inside(nid):
        a = cfg.nodes[nid].ast
        if a is None:
            return cfg.nodes[nid].kind not in ("exit", "rexit", "entry")
        while a is not None:
            if id(a) in inside_ast:
                return True
            a = cfg.parent.get(id(a))
        return False

    lit_cache = {}

    def lits_of(pid_):
        if pid_ not in lit_cache:
            p_ = cfg.nodes[pid_]
            got = None
            if isinstance(p_.ast, ast.expr) and not (names_in(p_.ast) & tracked):
                try:
                    alts = pseudo_lits(X, N, cfg, p_)
                except AnalysisError:
                    alts = []
                if len(alts) == 1:
                    got = [alts[0]]
                elif not alts:
                    got = False  # the outcome is impossible (decided by constants)
                elif fork:
                    got = list(dict.fromkeys(alts))
            lit_cache[pid_] = got
        return lit_cache[pid_]

    out, seen = [], set()
    todo = list(starts)
    while todo:
        nid, facts = todo.pop()
        if (nid, facts) in seen:
            continue
        seen.add((nid, facts))
        if len(seen) > 20000:
            raise AnalysisError("_run: too many states in the Block1 round walk")
        nd = cfg.nodes[nid]
        if nd.kind == "raise":
            out.append(("raise", nid, facts))
            continue
        if nid in (r.call_nid, r.send_nid) and (nid, facts) not in starts:
            out.append(("next", nid, facts))
            continue
        if nd.kind in ("return", "exit") or not inside(nid):
            out.append(("leave", nid, facts))
            continue
        fa = _flag_assignment(nd.ast, flags) if nd.kind == "stmt" and flags else None
        if fa is not None:
            # `flag = True`: whatever was known about the flag is replaced by its new value
            facts = frozenset(l for l in facts if not _lit_mentions_name(l, fa[0])) | {("truth" if fa[1] else "nottruth", fa[0])}
        for d, lab in cfg.succ[nid]:
            if lab == "exc":
                continue
            nfs = [facts]
            if cfg.nodes[d].kind in ("T", "F") and nd.kind == "test":
                L = lits_of(d)
                if L is False:
                    continue
                if L is not None:
                    nfs = [x for x in (simplify(set(facts) | set(alt)) for alt in L) if x is not None]
            for nf in nfs:
                todo.append((d, nf))
    return out


@R.clause("C05.c", "Block1 loop: the acknowledged block number is compared before the cursor moves and a mismatch raises; cursor +1 (BERT +len//1024) once per block; size reduction keeps cursor*2^(szx+4) and only lowers szx; the final block refuses more/2.31")
def c(ctx):
    r = _block1_roles(ctx)
    fi, cfg, X, N = r.fi, r.cfg, r.X, r.N
    # c1: what is cut
    got_max = canon_chain(X, r.maxarg, r.call_nid)
    remote_writes = {cfg.loc1(st) for _k, st in stores_to(fi.node, r.req + ".remote")}
    stale = False
    if isinstance(r.maxarg, ast.Attribute):
        base = r.maxarg
        while isinstance(base, ast.Attribute):
            base = base.value
        if isinstance(base, ast.Name) and base.id != r.req:
            defs, entry = X.reaching(base.id, r.call_nid)
            stale = entry or any(btw & remote_writes for _wn, _st, _v, btw in defs)
    ctx.ob("each block is cut from the application request at (cursor, szx, <request>.remote.maximum_payload_size)",
           got_max == r.req + ".remote.maximum_payload_size" and not stale, fi, r.call)
    ctx.floor("cursor updates in the Block1 loop", len(r.cur_writes), 1)
    # c2: every path from the request of a round to an update of the cursor / exponent passes a branch outcome
    # that asserts "acknowledged number == number sent"
    unchecked = cfg.reach({r.send_nid}, avoid=set(r.matchp) | {r.send_nid, r.call_nid}, skip_labels=("exc",))
    for w in r.cur_writes + [x for x in r.szx_writes if x not in r.cur_writes]:
        ctx.ob("cursor / exponent update happens only after the acknowledged Block1 number was found equal to the number sent",
               not (set(cfg.locate(w)) & unchecked), fi, w)
    # c3: mismatch raises (on every consistent continuation of a branch outcome that asserts the mismatch)
    ctx.floor("branches taken on a Block1 number mismatch", len(r.mism), 1)
    tracked = RoundExec(ctx, r).bookkeeping
    for pid_ in sorted(r.mism):
        ends = []
        for alt in pseudo_lits(X, N, cfg, cfg.nodes[pid_]):
            ends.extend(fact_walk(r, [(pid_, alt)], tracked))
        raises = [cfg.nodes[n] for k, n, _f in ends if k == "raise"]
        classes = sorted({exc_class(ctx.prog, fi, n.ast) or "?" for n in raises})
        others = sorted({k for k, _n, _f in ends if k != "raise"})
        ok = not others and bool(raises) and all(ctx.prog.is_subclass(c, "aiocoap.error.UnexpectedBlock1Option") for c in classes)
        ctx.ob("a Block1 number mismatch ends the request with UnexpectedBlock1Option (no further block is sent, nothing is returned)", ok, fi, cfg.nodes[pid_].ast,
               detail="raises %s; also: %s" % (classes, others or "nothing"))
    # c4 / c5: the round transformer
    table = _round_table(ctx, r)
    nstates = sum(len(st) for st, _d in table.values())
    ctx.floor("evaluated rounds of the Block1 loop that reach the next block", nstates, 64)
    reg = {"exp": [], "adv": [], "off": []}
    bert = {"exp": [], "adv": [], "off": []}
    for (s, a), (states, div) in sorted(table.items()):
        if s == 7 and a < 7:
            continue  # C05.f
        fl = _judge_round(r, s, a, states, div)
        for k in fl:
            (bert if s == 7 else reg)[k].extend(fl[k])
    anchor = r.outer
    ctx.ob("regular exponents: after each acknowledged block the cursor advances exactly once, by one block", not reg["adv"], fi, anchor,
           detail="; ".join(reg["adv"][:4]) or None, construct="cursor advance (szx 0..6) in BlockwiseRequest._run")
    ctx.ob("BERT: after each acknowledged block the cursor advances exactly once, by len(block payload)//1024", not bert["adv"] and not bert["exp"], fi, anchor,
           detail="; ".join((bert["adv"] + bert["exp"])[:4]) or None, construct="cursor advance (szx 7) in BlockwiseRequest._run")
    ctx.ob("the next block is cut with exponent min(current, server's Block1 exponent): it is lowered exactly to what the server asked for and never grows",
           not reg["exp"], fi, anchor, detail="; ".join(reg["exp"][:4]) or None, construct="exponent step of the size reduction in BlockwiseRequest._run")
    ctx.ob("size reduction keeps the byte offset cursor * 2^(szx+4) (regular exponents)", not reg["off"] and not reg["exp"], fi, anchor,
           detail="; ".join(reg["off"][:4]) or None, construct="cursor step of the size reduction in BlockwiseRequest._run")
    # c6: final block -- every consistent way of leaving the loop normally in a round whose block was the last one
    # has seen "the response's Block1 has no more-flag" and "the response code is not 2.31"
    cont = None
    for n in ast.walk(r.outer):
        if isinstance(n, (ast.Name, ast.Attribute)) and (chain(n) or "").split(".")[-1] == "CONTINUE":
            q = ctx.prog.resolve_in_module(fi.module, chain(n))
            if q.startswith("aiocoap.numbers"):
                cont = chain(n)
    code = r.resp + ".code"

    def no_more(fs):
        return ("nottruth", r.resp_more) in fs or ("is", r.resp_more, "False") in fs

    def not_continue(fs):
        if cont is None:
            return False
        return ("ne", norm._signnorm(Poly.atom(code) - Poly.atom(cont))) in fs or ("isnot", code, cont) in fs or ("isnot", cont, code) in fs

    ends = fact_walk(r, [(d, flag_facts_at(r, r.resp_nid)) for d, lab in cfg.succ[r.resp_nid] if lab != "exc"], tracked)
    final_leaves = [(n, fs) for k, n, fs in ends if k == "leave" and (r.final in fs or ("is", r.final[1], "False") in fs)]
    ctx.floor("ways of completing the Block1 phase after the last block", len(final_leaves), 1)
    bad_more = [fs for _n, fs in final_leaves if not no_more(fs)]
    bad_code = [fs for _n, fs in final_leaves if not not_continue(fs)]
    ctx.ob("after the final block the transfer only completes if the response's Block1 has no more-flag", not bad_more, fi, r.outer,
           detail=("completes under %s" % _show(bad_more[0])) if bad_more else None, construct="final-block arm of the Block1 loop [more]")
    ctx.ob("after the final block the transfer only completes if the response code is not 2.31 Continue", not bad_code, fi, r.outer,
           detail=("completes under %s" % _show(bad_code[0])) if bad_code else None, construct="final-block arm of the Block1 loop [code]")


@R.clause("C05.f", "size reduction away from the BERT exponent keeps the byte offset (block numbers count 1024-byte units for szx 7 and for szx 6)")
def f(ctx):
    r = _block1_roles(ctx)
    fi = r.fi
    table = _round_table(ctx, r)
    fails = []
    n = 0
    for a in range(7):
        states, div = table[(7, a)]
        n += len(states)
        fl = _judge_round(r, 7, a, states, div)
        fails.extend(fl["exp"] + fl["adv"] + fl["off"])
    ctx.floor("evaluated rounds that reduce the size from the BERT exponent", n, 7)
    ctx.ob("a size reduction starting at szx 7 keeps the byte offset cursor * 1024 and lands on the server's exponent", not fails, fi, r.outer,
           detail="; ".join(fails[:4]) or None, construct="BERT step of the size reduction in BlockwiseRequest._run")


# ===========================================================================
# C05.d  Block2 assembly
# ===========================================================================


def _text(e):
    return " ".join(ast.unparse(e).split())


def stored_values(st, target_chain):
    """Value expressions an assignment statement stores into the attribute chain: plain, chained, annotated
    and augmented (`t op= v` is `t = t op v`) assignments and element-wise tuple/list assignments
    (`a, self.f = x, y`).  An element that cannot be paired with a value (starred, length mismatch, a call
    being unpacked) is reported as None."""
    out = []

    def pair(t, v):
        if isinstance(t, (ast.Tuple, ast.List)):
            if isinstance(v, (ast.Tuple, ast.List)) and len(v.elts) == len(t.elts) and not any(isinstance(x, ast.Starred) for x in list(t.elts) + list(v.elts)):
                for tt, vv in zip(t.elts, v.elts):
                    pair(tt, vv)
            elif any(chain(x) == target_chain for x in ast.walk(t) if isinstance(x, ast.Attribute)):
                out.append(None)
        elif chain(t) == target_chain:
            out.append(v)

    if isinstance(st, ast.Assign):
        for t in st.targets:
            pair(t, st.value)
    elif isinstance(st, ast.AnnAssign) and st.value is not None:
        pair(st.target, st.value)
    elif isinstance(st, ast.AugAssign) and chain(st.target) == target_chain:
        out.append(ast.BinOp(left=st.target, op=st.op, right=st.value))
    return out


def _is_concat(X, v, nid, left, right):
    """v (evaluated at CFG node nid, locals replaced by their definitions) is the byte string `left` followed by
    `right` and nothing else: `left + right`, `b"".join((left, right))`."""
    def is_chain(e, want):
        return canon_chain(X, e, nid) == want

    if isinstance(v, ast.Name):
        v = canon(X, v, nid)
        if v is None:
            return False
    if isinstance(v, ast.BinOp) and isinstance(v.op, ast.Add):
        return is_chain(v.left, left) and is_chain(v.right, right)
    if isinstance(v, ast.Call) and isinstance(v.func, ast.Attribute) and v.func.attr == "join" and len(v.args) == 1 and not v.keywords:
        sep = v.func.value
        empty = (isinstance(sep, ast.Constant) and sep.value == b"") or (isinstance(sep, ast.Call) and chain(sep.func) == "bytes" and not sep.args and not sep.keywords)
        seq = v.args[0]
        return empty and isinstance(seq, (ast.Tuple, ast.List)) and len(seq.elts) == 2 and is_chain(seq.elts[0], left) and is_chain(seq.elts[1], right)
    return False


@R.clause("C05.d", "_append_response_block: payload-size validity, start == len(payload) and equal ETag are raising guards before the append; the next Block2 request asks for len(payload)//size")
def d(ctx):
    prog = ctx.prog
    fi = prog.func(MSG + "_append_response_block")
    p = params(fi)
    ctx.need(len(p) == 1 and not writes_to_name(fi.node, p[0]), "_append_response_block signature changed")
    nb = p[0]
    cfg = cfg_of(fi)
    X, N = Expander(fi), Normalizer()
    appends = [st for k, st in stores_to(fi.node, "self.payload") if k == "assign"]
    ctx.floor("stores to self.payload in _append_response_block", len(appends), 1)
    valid = ("truth", _text(ast.parse("%s.opt.block2.is_valid_for_payload_size(len(%s.payload))" % (nb, nb), mode="eval").body))
    start = ("eq", norm._signnorm(P("%s.opt.block2.start - len(self.payload)" % nb)))
    etag = ("eq", norm._signnorm(P("%s.opt.etag - self.opt.etag" % nb)))
    guards = (("the block's payload size is valid for its Block2 descriptor", valid, None),
              ("the block's offset equals the number of bytes assembled so far", start, None),
              ("the block's ETag equals the ETag of the first block", etag, "aiocoap.error.ResourceChanged"))
    for st in appends:
        vals = stored_values(st, "self.payload")
        sn = cfg.loc1(st)
        ok = bool(vals) and all(v is not None and _is_concat(X, v, sn, "self.payload", nb + ".payload") for v in vals)
        ctx.ob("the assembled body grows by exactly the next block's payload", ok, fi, st)
        for text, lit, _cls in guards:
            ctx.ob("append happens only when " + text, holds_at(X, N, fi, st, lit), fi, st, construct="%s  [guard: %s]" % (stmt_text(st), text))
    app_nodes = {cfg.loc1(st) for st in appends}
    for text, lit, cls in guards:
        neg = _neg(lit)
        ps = pseudo_asserting(X, N, cfg, lambda a: neg in a)
        ctx.floor("branches for the negation of '%s'" % text, len(ps), 1)
        for pid_ in sorted(ps):
            region = cfg.reach({pid_}, skip_labels=("exc",))
            raises = [cfg.nodes[n] for n in region if cfg.nodes[n].kind == "raise"]
            classes = [exc_class(prog, fi, n.ast) for n in raises]
            ok = cfg.exit not in region and not (region & app_nodes) and bool(raises)
            if cls is not None:
                ok = ok and all(c is not None and prog.is_subclass(c, cls) for c in classes)
            else:
                ok = ok and all(c is not None and prog.is_subclass(c, "Exception") for c in classes)
            ctx.ob("unless %s the assembly raises%s" % (text, (" " + cls.split(".")[-1]) if cls else ""), ok, fi, cfg.nodes[pid_].ast,
                   detail="raises %s" % classes)

    # next request
    gi = prog.func(MSG + "_generate_next_block2_request")
    gp = params(gi)
    ctx.need(len(gp) == 1 and not writes_to_name(gi.node, gp[0]), "_generate_next_block2_request signature changed")
    resp = gp[0]
    gcfg = cfg_of(gi)

    def pure(call):
        c = chain(call.func) or ""
        return _default_pure(call) or c.split(".")[-1] in ("BlockwiseTuple", "reduced_to") or (isinstance(call.func, ast.Attribute) and call.func.attr == "reduced_to")

    GX = Expander(gi, pure=pure, minmax=False)
    rets = [n for n in walk_no_nested(gi.node) if isinstance(n, ast.Return)]
    ctx.floor("returns of _generate_next_block2_request", len(rets), 1)
    want_num = P("len(%s.payload) // %s.opt.block2.size" % (resp, resp))
    for rt in rets:
        ctx.need(rt.value is not None, "_generate_next_block2_request returns nothing on some path")
        for v, _c in GX.expand(rt.value, gcfg.loc1(rt)):
            b2 = _kw(v, "block2") if isinstance(v, ast.Call) else None
            ctx.need(b2 is not None, "_generate_next_block2_request: returned message has no block2= argument")
            reduced = False
            m = match("$t.reduced_to($x)", b2)
            if m is not None:
                reduced, b2 = True, m["t"]
            elts = block_triple(b2)
            ctx.need(elts is not None, "_generate_next_block2_request: Block2 value is not a (num, more, szx) triple")
            try:
                got = Normalizer().poly(elts[0])
            except NormError:
                got = None
            ctx.ob("the next Block2 request asks for block len(assembled payload) // size of the last block", got == want_num, gi, rt, detail="asks for %r" % got,
                   construct="%s  [number]" % stmt_text(rt))
            ctx.ob("the next Block2 request uses the size exponent of the last received block (at most reduced by reduced_to)",
                   chain(elts[2]) == "%s.opt.block2.size_exponent" % resp, gi, rt, detail="exponent %s%s" % (_text(elts[2]), " reduced" if reduced else ""),
                   construct="%s  [exponent]" % stmt_text(rt))


# ===========================================================================
# C05.e  error propagation
# ===========================================================================


def _exc_succ(cfg, nid):
    return {d for d, lab in cfg.succ[nid] if lab == "exc"}


def _handler_types(prog, fi, h):
    if h.type is None:
        return ["BaseException"]
    ts = h.type.elts if isinstance(h.type, ast.Tuple) else [h.type]
    out = []
    for t in ts:
        c = chain(t)
        out.append(prog.resolve_in_module(fi.module, c) if c else "?")
    return out


def _catches_exceptions(prog, types):
    """Does a handler with these types catch some subclass of Exception?"""
    for t in types:
        if t in ("BaseException", "Exception") or prog.is_subclass(t, "Exception"):
            return True
        if t == "?":
            return True
    return False


def _future_query_pure(call):
    f = call.func
    return pure_or_predicate(call) or (isinstance(f, ast.Attribute) and f.attr in ("done", "cancelled") and not call.args and not call.keywords and chain(f.value) is not None)


@R.clause("C05.e", "_complete_by_requesting_block2: a first block with number != 0 raises; a body is returned only when no more blocks are announced; assembly errors are re-raised; _run lets them escape and _run_outer hands every Exception to response.set_exception")
def e(ctx):
    prog = ctx.prog
    fi = prog.func(BR + "_complete_by_requesting_block2")
    p = params(fi)
    ctx.need(len(p) == 4, "_complete_by_requesting_block2 signature changed")
    init = p[2]
    ctx.need(not writes_to_name(fi.node, init), "_complete_by_requesting_block2 rebinds the initial response")
    cfg = cfg_of(fi)
    X, N = Expander(fi), Normalizer()
    gens = [n for n, _ in find("$r._generate_next_block2_request($a)", fi.node)]
    ctx.floor("next-block requests in _complete_by_requesting_block2", len(gens), 1)
    num0 = "%s.opt.block2.block_number" % init
    zero = ("eq", Poly.atom(num0))
    # `if num != 0:` and `if num:` are the same test of an integer
    for g in gens:
        ctx.ob("further blocks are requested only when the first response carried block number 0",
               holds_at(X, N, fi, g, zero) or holds_at(X, N, fi, g, ("nottruth", num0)), fi, g)
    nz = pseudo_asserting(X, N, cfg, lambda a: _neg(zero) in a or ("truth", num0) in a)
    ctx.floor("branches for a non-zero first block number", len(nz), 1)
    for pid_ in sorted(nz):
        region = cfg.reach({pid_}, skip_labels=("exc",))
        raises = [cfg.nodes[n] for n in region if cfg.nodes[n].kind == "raise"]
        classes = [exc_class(prog, fi, n.ast) for n in raises]
        ctx.ob("a first block with a non-zero number raises UnexpectedBlock2", cfg.exit not in region and bool(raises)
               and all(c is not None and prog.is_subclass(c, "aiocoap.error.UnexpectedBlock2") for c in classes), fi, cfg.nodes[pid_].ast, detail="raises %s" % classes)

    # returns: only when the latest response announces no further block
    def done(a):
        for l in a:
            if l[0] == "is" and l[1].endswith(".opt.block2") and l[2] == "None":
                return True
            if l[0] == "is" and l[1].endswith(".opt.block2.more") and l[2] == "False":
                return True
            if l[0] == "nottruth" and l[1].endswith(".opt.block2.more"):
                return True
        return False

    # A loop flag (`while more_expected:` ... `more_expected = block2.more is not False`) is read through its
    # reaching definitions, including the one that arrives over the back edge: the outcome "flag is false" then
    # asserts what the defining expression asserted when it was evaluated (its operands are not rebound between
    # the definition and the test, else they are given their own atoms by Expander._stale).  Alternatives decided
    # by constants (the initial `True`) drop out as contradictory.
    XL = Expander(fi, loop_carried=True)
    last = pseudo_asserting(XL, N, cfg, done)
    rets = [n for n in walk_no_nested(fi.node) if isinstance(n, ast.Return)]
    ctx.floor("returns of _complete_by_requesting_block2", len(rets), 2)
    for rt in rets:
        rn = cfg.loc1(rt)
        ok = rn not in cfg.reach({cfg.entry}, avoid=last)
        ctx.ob("a response is returned only on a path where a Block2-less response or a cleared more-flag was seen", ok, fi, rt)
    ctx.ob("the function cannot end without an explicit return", cfg.must_pass(cfg.entry, [cfg.loc1(rt) for rt in rets]) and all(rt.value is not None for rt in rets), fi, fi.node,
           construct="_complete_by_requesting_block2")

    # the handler around _append_response_block re-raises
    apps = [n for n, _ in find("$r._append_response_block($a)", fi.node)]
    ctx.floor("_append_response_block call sites", len(apps), 1)
    for ap in apps:
        an = cfg.loc1(ap)
        hs = [h for h in _exc_succ(cfg, an) if cfg.nodes[h].kind == "handler"]
        bad = []
        for h in hs:
            inside = cfg.reach({h}, include_src=True)
            raises = {n for n in inside if cfg.nodes[n].kind == "raise"}
            if not cfg.must_pass(h, raises, to=cfg.exit) or any(g2 in cfg.reach({h}, avoid=raises, skip_labels=("exc",)) for g2 in [cfg.loc1(g) for g in gens]):
                bad.append(h)
        ctx.ob("an error raised while appending a block is not swallowed: every handler around the append re-raises on all paths", not bad, fi, ap,
               detail="%d handler(s), %d swallow" % (len(hs), len(bad)))
        fresh = False
        if len(ap.args) == 1 and isinstance(ap.args[0], ast.Name):
            defs, entry = X.reaching(ap.args[0].id, an)
            fresh = bool(defs) and not entry and all(
                isinstance(st, ast.Assign) and isinstance(st.value, ast.Await) and enclosing_loops(cfg, st, fi.node)[:1] == enclosing_loops(cfg, ap, fi.node)[:1]
                for _wn, st, _v, _b in defs)
        ctx.ob("the block appended is the response awaited in the same round of the loop", fresh, fi, ap, construct="%s  [argument]" % stmt_text(ap))

    # _run: block-wise errors escape
    ri = prog.func(BR + "_run")
    rcfg = cfg_of(ri)
    sites = [n for n in walk_no_nested(ri.node) if isinstance(n, ast.Raise)]
    sites = [n for n in sites if (exc_class(prog, ri, n) or "").startswith("aiocoap.error.")]
    calls = [n for n, _ in find("$c._complete_by_requesting_block2($*a)", ri.node)]
    ctx.floor("protocol-error raise sites in _run", len(sites), 2)
    ctx.floor("_complete_by_requesting_block2 call sites in _run", len(calls), 1)
    for n in sites + calls:
        nid = rcfg.loc1(n)
        srcs = {nid} if rcfg.nodes[nid].kind == "raise" else _exc_succ(rcfg, nid)
        r2 = rcfg.reach(srcs, include_src=True) - ({nid} if rcfg.nodes[nid].kind != "raise" else set())
        ctx.ob("an error raised at this point of _run leaves _run (no handler turns it into a normal completion)", rcfg.exit not in r2 and rcfg.rexit in r2, ri, n)
    sets = [n for n, bb in find("$f.set_result($v)", ri.node) if chain(bb["f"]) in params(ri)]
    ctx.floor("set_result sites in _run", len(sets), 1)
    for srt in sets:
        v = resolve_local(ri.node, srt.args[0])
        ok = isinstance(v, ast.Await) and any(v.value is c for c in calls)
        ctx.ob("the result handed to the caller is the body assembled by _complete_by_requesting_block2", ok, ri, srt)

    # _run_outer
    oi = prog.func(BR + "_run_outer")
    op = params(oi)
    ocfg = cfg_of(oi)
    runs = [n for n, _ in find("$c._run($*a)", oi.node)]
    ctx.floor("calls of _run in _run_outer", len(runs), 1)
    for rc in runs:
        rn = ocfg.loc1(rc)
        ctx.need(len(rc.args) >= 2 and isinstance(rc.args[1], ast.Name) and rc.args[1].id in op, "_run_outer: the response future is not passed through to _run")
        fut = rc.args[1].id
        tries = [t for t in walk_no_nested(oi.node) if isinstance(t, ast.Try) and any(contains(s, rc) for s in t.body)]
        ctx.ob("_run is awaited inside a try statement", bool(tries), oi, rc, construct="%s  [try]" % stmt_text(rc))
        seen_exc = False
        for t in tries:
            for h in t.handlers:
                types = _handler_types(prog, oi, h)
                if not _catches_exceptions(prog, types):
                    continue
                covers_all = any(x in ("Exception", "BaseException") for x in types)
                hn = [i for i in ocfg.locate(h) if ocfg.nodes[i].kind == "handler"]
                ctx.need(hn, "_run_outer: handler has no CFG node")
                setx = {ocfg.loc1(n) for n, _ in find("%s.set_exception(%s)" % (fut, h.name), h)} if h.name else set()
                # branch outcomes inside the handler that assert "<future>.done()", whether the call is tested in
                # place or through a local (`pending = not response.done()` ... `if pending:`): a state query of
                # the future is substituted like a pure predicate (nothing is awaited inside the handler)
                OX, ON = Expander(oi, pure=_future_query_pure), Normalizer()
                in_handler = {id(x) for s_ in h.body for x in ast.walk(s_)}
                done_lit = ("truth", "%s.done()" % fut)
                donep = {pz for pz in pseudo_asserting(OX, ON, ocfg, lambda a: done_lit in a) if id(ocfg.nodes[pz].ast) in in_handler}
                ok = bool(setx) and ocfg.must_pass(hn[0], setx | donep)
                ctx.ob("an exception caught from _run is stored in the response future unless the future is already done", ok, oi, h,
                       construct="except %s" % ", ".join(types))
                for sx in setx:
                    ctx.ob("set_exception is attempted only on a future that is not done",
                           holds_at(OX, ON, oi, ocfg.nodes[sx].ast, ("nottruth", "%s.done()" % fut)), oi, ocfg.nodes[sx].ast)
                if covers_all:
                    seen_exc = True
                    break
            ctx.ob("every Exception escaping _run is caught in _run_outer", seen_exc, oi, t, construct="try around %s" % stmt_text(rc))


# ===========================================================================
# C05.i  the Block2 follow-up request stays inside the blockwise operation of the request it repeats
# ===========================================================================
#
# A server matches the blocks of one operation by (endpoint, code, every option that is part of the cache key
# except Block1 / Block2 / Observe) -- RFC 7959 section 2.4 and 2.7, RFC 7641 section 3.6.  The follow-up request is a
# copy of the original request, so the necessary condition is a statement about ALL overrides the copy is
# given (keywords, `**` operands, attribute stores after the construction): each of them is either a message
# field outside the key, or an option the matching ignores: Block1, Block2, Observe, or a NoCacheKey option
# (RFC 7252 section 5.4.6: number & 0x1e == 0x1c).  An override that hands the original's own value back
# (`k=self.opt.k`) changes nothing.  The option a keyword addresses is read from the Options class (keyword ->
# OptionNumber member -> number); nothing here knows option names other than the three the RFCs exempt.  A keyword
# that is not an option view of Options is a field of the message (Message.copy's own keywords): payload, mid,
# token, mtype, transport_tuning and remote are outside the key, `code` and `uri` are inside it, anything else is
# refused.  (Message.copy's body is deliberately not read: how it consumes its keywords is not this clause's
# business, and its spelling is free.)

_KEY_NEUTRAL_FIELDS = {"payload", "mid", "token", "mtype", "transport_tuning", "remote"}
_KEY_FIELDS = {"code", "uri"}
_OPERATION_EXEMPT = ("BLOCK1", "BLOCK2", "OBSERVE")


def _option_number_of(prog, attr):
    """Number of the option the attribute `attr` of Options addresses, read from the class body
    (`attr = <view>(OptionNumber.X, ...)`) and the OptionNumber members; None when it cannot be read."""
    oc = prog.cls("options.Options")
    e = oc.attrs.get(attr)
    if e is None:
        return None, None
    members = prog.cls("numbers.optionnumbers.OptionNumber").attrs
    hits = []
    for n in ast.walk(e):
        if isinstance(n, ast.Attribute) and (chain(n.value) or "").split(".")[-1] == "OptionNumber" and n.attr in members:
            hits.append(n.attr)
    if len(set(hits)) != 1:
        return None, None
    v = members[hits[0]]
    if isinstance(v, ast.Constant) and isinstance(v.value, int) and not isinstance(v.value, bool):
        return hits[0], v.value
    return None, None


def _returned_call_forms(fi, r):
    """[(call, CFG node)] for `return <call>` / `m = <call>; <stores into m>; return m` (stores folded into the
    call as in C05.a), `**` operands built up by stores materialised."""
    cfg = cfg_of(fi)
    e, at = r.value, cfg.loc1(r)
    forms = None
    if isinstance(e, ast.Name):
        ws = writes_to_name(fi.node, e.id)
        if len(ws) == 1 and Expander._def_value(e.id, ws[0]) is not None and cfg.dominates(cfg.loc1(ws[0]), at):
            built, bn = Expander._def_value(e.id, ws[0]), cfg.loc1(ws[0])
            if isinstance(built, ast.Call):
                folded = message_buildup(fi, e.id, built, bn, at, r.value)
                if folded is not None:
                    forms = [(c2, at) for c1, _pc in folded for c2, _pc2 in splat_alternatives(fi, c1, at)]
                elif _other_uses(fi, e.id, {id(r.value)} | {id(t) for w in ws for t in ast.walk(w) if isinstance(t, ast.Name) and isinstance(t.ctx, ast.Store)}):
                    raise AnalysisError("message %s built in %s is used in a way the checker does not interpret before it is returned" % (e.id, fi.short))
            e, at = built, bn
    if forms is None:
        forms = [(c, at) for c, _pc in splat_alternatives(fi, e, at)]
    return forms


@R.clause("C05.i", "_generate_next_block2_request: the follow-up request is a copy of the original whose overrides touch only message fields outside the blockwise key and options the matching of blocks ignores (Block1, Block2, Observe, NoCacheKey options)")
def i_followup_key(ctx):
    prog = ctx.prog
    gi = prog.func(MSG + "_generate_next_block2_request")
    gcfg = cfg_of(gi)
    option_attrs = prog.cls("options.Options").attrs
    exempt = {}
    members = prog.cls("numbers.optionnumbers.OptionNumber").attrs
    for nm in _OPERATION_EXEMPT:
        v = members.get(nm)
        ctx.need(isinstance(v, ast.Constant) and isinstance(v.value, int), "OptionNumber.%s is not an integer constant" % nm)
        exempt[v.value] = nm

    def pure(call):
        c = chain(call.func) or ""
        return _default_pure(call) or c in ("dict", "tuple", "self.copy") or c.split(".")[-1] in ("BlockwiseTuple", "reduced_to") \
            or (isinstance(call.func, ast.Attribute) and call.func.attr == "reduced_to")

    GX = Expander(gi, pure=pure, minmax=False, path_conds=False)
    rets = [n for n in walk_no_nested(gi.node) if isinstance(n, ast.Return)]
    ctx.floor("returns of _generate_next_block2_request", len(rets), 1)
    nover = 0
    for rt in rets:
        ctx.need(rt.value is not None, "_generate_next_block2_request returns nothing on some path")
        for form, at in _returned_call_forms(gi, rt):
            for v, _c in GX.expand(form, at):
                ctx.need(isinstance(v, ast.Call) and isinstance(v.func, ast.Attribute) and v.func.attr == "copy" and chain(v.func.value) == "self" and not v.args,
                         "_generate_next_block2_request: the follow-up request is not built as self.copy(<overrides>)")
                kws = flat_keywords(v)
                ctx.need(kws is not None, "_generate_next_block2_request: keyword set of the copy cannot be determined")
                for k, val in sorted(kws.items()):
                    nover += 1
                    con = "%s(%s=...)  [override]" % (_text(v.func), k)
                    is_attr = k.startswith("attribute:")  # `m.<field> = v` after the construction (message_buildup)
                    if is_attr:
                        k = k[len("attribute:"):]
                    if is_attr or k not in option_attrs:
                        # not an option view of Options: a field of the message itself
                        if k in _KEY_NEUTRAL_FIELDS:
                            continue
                        if k in _KEY_FIELDS:
                            same = k == "code" and chain(val) == "self.code"
                            ctx.ob("the follow-up request keeps the code and the Uri options of the request it repeats", same, gi, rt, construct=con,
                                   detail="%s=%s" % (k, _text(val)))
                            continue
                        raise AnalysisError("_generate_next_block2_request overrides %r of the follow-up request, whose role in the blockwise key the rule does not know" % k)
                    name, num = _option_number_of(prog, k)
                    ctx.need(num is not None, "option number addressed by Options.%s cannot be read from the class body" % k)
                    ignored = num in exempt or (num & 0x1E) == 0x1C
                    same = chain(val) == "self.opt.%s" % k
                    ctx.ob("an option the follow-up request overrides is one the matching of blocks ignores (Block1/Block2/Observe or NoCacheKey)",
                           ignored or same, gi, rt, construct=con, detail="%s=%s addresses option %s (%d), part of the blockwise key" % (k, _text(val), name, num))
    ctx.floor("overrides of the follow-up request", nover, 1)


# ===========================================================================
# C05.j  a follow-up block is rejected only for what the property lets the client reject
# ===========================================================================
#
# A conforming server may express the same byte offset in a smaller block size at any time (RFC 7959 section 2.4), so
# the only facts about a follow-up response that may end the transfer with an error are: its payload does not
# fit its descriptor, its byte offset (NUM x size) is not the number of bytes assembled so far, its ETag differs.
# Stated over ALL paths: every `raise` that can be reached from the point where the follow-up response arrives
# without passing through the assembly call -- and every `raise` of the assembly function whose condition
# depends on the block handed in -- sits under conditions that entail one of these three facts.  A rejection
# under any other condition (block number, size exponent, code, ...) refuses transfers the property requires to
# succeed.  Conditions are compared as normal-form literals after replacing locals by their definitions.


def _rejection_literals(X, N, nid, resp, body):
    """Normal-form literals of the three legitimate rejection facts for response expression `resp` and assembled
    message expression `body`, with locals read as at CFG node nid."""
    refs = ("not %s.opt.block2.is_valid_for_payload_size(len(%s.payload))" % (resp, resp),
            "%s.opt.block2.start != len(%s.payload)" % (resp, body),
            "%s.opt.etag != %s.opt.etag" % (resp, body))
    out = set()
    saved = X.path_conds
    X.path_conds = False
    try:
        for src in refs:
            e = ast.parse(src, mode="eval").body
            for v, _c in X.expand(e, nid):
                for conj in _dnf(N, v, True):
                    if len(conj) == 1:
                        out.add(conj[0])
    finally:
        X.path_conds = saved
    return out


def _lit_talks_about(l, name):
    """The local `name` occurs anywhere in the literal's operands (also inside opaque atoms such as len(name.f))."""
    pat_ = re.compile(r"(?<![A-Za-z0-9_.])%s(?![A-Za-z0-9_])" % re.escape(name))
    for x in l[1:]:
        if isinstance(x, Poly):
            if any(pat_.search(str(a)) for a in x.atoms()):
                return True
        elif pat_.search(str(x)):
            return True
    return False


def _justified(X, N, fi, raise_stmt, lits, only_about=None):
    """Every alternative of the conditions of the raise entails one legitimate rejection literal (or, with
    only_about, does not mention that name at all: the condition is then not about the block)."""
    alts = cond_dnf(X, N, fi, raise_stmt)
    if not alts:
        return True, []  # unreachable under its own conditions
    bad = []
    for a in alts:
        if any(entails(a, l) for l in lits):
            continue
        if only_about is not None and not any(_lit_talks_about(l, only_about) for l in a):
            continue
        bad.append(a)
    return not bad, bad


@R.clause("C05.j", "a follow-up Block2 response ends the transfer with an error only when its payload size does not fit its descriptor, its byte offset is not the length assembled so far, or its ETag differs -- in _append_response_block and on every path of _complete_by_requesting_block2 from the response to a raise that does not pass the assembly")
def j_rejections(ctx):
    prog = ctx.prog
    # the assembly function
    fi = prog.func(MSG + "_append_response_block")
    p = params(fi)
    ctx.need(len(p) == 1 and not writes_to_name(fi.node, p[0]), "_append_response_block signature changed")
    nb = p[0]
    cfg = cfg_of(fi)
    X, N = Expander(fi), Normalizer()
    raises = [n for n in walk_no_nested(fi.node) if isinstance(n, ast.Raise)]
    ctx.floor("raise statements in _append_response_block", len(raises), 3)
    for rs in raises:
        lits = _rejection_literals(X, N, cfg.loc1(rs), nb, "self")
        ok, bad = _justified(X, N, fi, rs, lits, only_about=nb)
        ctx.ob("a block is refused by the assembly only for a payload-size, byte-offset or ETag inconsistency", ok, fi, rs,
               detail="; ".join(_show(a) for a in bad[:2]))

    # the requesting loop
    li = prog.func(BR + "_complete_by_requesting_block2")
    lcfg = cfg_of(li)
    LX, LN = Expander(li), Normalizer()
    apps = [n for n, _ in find("$r._append_response_block($a)", li.node)]
    ctx.floor("_append_response_block call sites", len(apps), 1)
    nsrc = 0
    for ap in apps:
        an = lcfg.loc1(ap)
        ctx.need(len(ap.args) == 1 and isinstance(ap.args[0], ast.Name) and chain(ap.func.value) is not None and not ap.keywords,
                 "_complete_by_requesting_block2: the assembly call is not <message>._append_response_block(<local>)")
        resp, body = ap.args[0].id, chain(ap.func.value)
        defs, _entry = LX.reaching(resp, an)
        srcs = {wn for wn, st, _v, _b in defs if any(isinstance(x, ast.Await) for x in ast.walk(st))}
        ctx.need(srcs, "_complete_by_requesting_block2: the block handed to the assembly is not an awaited response")
        nsrc += len(srcs)
        region = lcfg.reach(srcs, avoid={lcfg.loc1(a2) for a2 in apps}, skip_labels=("exc",))
        for n in sorted(region):
            nd = lcfg.nodes[n]
            if nd.kind != "raise":
                continue
            lits = _rejection_literals(LX, LN, n, resp, body)
            ok, bad = _justified(LX, LN, li, nd.ast, lits)
            ctx.ob("a follow-up response is refused outside the assembly only for a payload-size, byte-offset or ETag inconsistency", ok, li, nd.ast,
                   detail="; ".join(_show(a) for a in bad[:2]))
    ctx.floor("awaited follow-up responses", nsrc, 1)


# ---------------------------------------------------------------------------
# seeded faults (sensitivity self-test)
F_MSG = "aiocoap/message.py"
F_OPT = "aiocoap/optiontypes.py"
# every Max-Message-Size up to 3300, then the neighbourhood (+-1, +-28, +-100, +-128) of every multiple of 1024 up to 70000 and the 32-bit extremes
MMS_DOMAIN = sorted(set(range(1, 3301)) | {k * 1024 + d for k in range(3, 69) for d in (-129, -128, -127, -101, -100, -99, -29, -28, -27, -1, 0, 1, 27, 28, 29, 99, 100, 101, 127, 128, 129)} | {2 ** 31 - 1, 2 ** 32 - 1})


class _Returned(Exception):
    def __init__(self, value):
        self.value = value


class ConcreteRunner:
    """Runs a loop-free function body (assignments to locals, if statements, returns) in the checker's own
    evaluator with the attribute chains in `facts` bound to concrete values; run() returns the returned value.
    AnalysisError when the body leaves the evaluator's vocabulary or falls off its end."""

    def __init__(self, fi, prog=None, _depth=0):
        self.fi = fi
        self.prog = prog
        self._depth = _depth
        self._callees = {}
        local_names = {n.id for n in ast.walk(fi.node) if isinstance(n, ast.Name) and isinstance(n.ctx, ast.Store)} | set(params(fi))
        self.E = RoundEval(fi, {}, local_names)
        if prog is not None and fi.cls is not None:
            self.E.call_hook = self._method_call

    def _method_call(self, call, fn, args, kw):
        """`self.m(...)` on a plain method of the same class hierarchy is run in the same evaluator (same facts),
        its parameters bound to the argument values."""
        f = call.func
        if not (isinstance(f, ast.Attribute) and isinstance(f.value, ast.Name) and f.value.id == "self") or self._depth >= 4:
            raise _Unknown("call of %s" % (fn or "a computed function"))
        callee = self.prog.lookup_method(self.fi.cls.qn, f.attr)
        if callee is None or callee.is_async or callee.node.decorator_list or callee.node.args.vararg or callee.node.args.kwarg or callee.node.args.kwonlyargs:
            raise _Unknown("call of %s" % fn)
        names = params(callee)
        defaults = callee.node.args.defaults
        bound = dict(zip(names, args))
        if len(args) > len(names) or any(k in bound or k not in names for k in kw):
            raise _Unknown("arguments of %s" % fn)
        bound.update(kw)
        sub = self._callees.get(f.attr)
        if sub is None:
            sub = self._callees[f.attr] = ConcreteRunner(callee, self.prog, self._depth + 1)
        for nm, d in zip(names[len(names) - len(defaults):], defaults):
            if nm not in bound:
                bound[nm] = sub.E.ev(d, {})
        if set(bound) != set(names):
            raise _Unknown("arguments of %s" % fn)
        sub.E.facts = self.E.facts
        try:
            sub._run(callee.node.body, dict(bound))
        except _Returned as r:
            return r.value
        return None

    def _bind(self, t, v, st, env):
        if isinstance(t, ast.Name):
            env[t.id] = v
        elif isinstance(t, (ast.Tuple, ast.List)) and isinstance(v, tuple) and len(v) == len(t.elts) and not any(isinstance(x, ast.Starred) for x in t.elts):
            for tt, vv in zip(t.elts, v):
                self._bind(tt, vv, st, env)
        else:
            raise _Unknown("assignment target in %s" % stmt_text(st, 60))

    def _run(self, stmts, env):
        E = self.E
        for st in stmts:
            if isinstance(st, ast.Assign):
                v = E.ev(st.value, env)
                for t in st.targets:
                    self._bind(t, v, st, env)
            elif isinstance(st, ast.If):
                self._run(st.body if E.truth(E.ev(st.test, env)) else st.orelse, env)
            elif isinstance(st, ast.Return) and st.value is not None:
                raise _Returned(_settle(E.ev(st.value, env)))
            elif isinstance(st, (ast.Pass, ast.Assert)) or (isinstance(st, ast.Expr) and (isinstance(st.value, ast.Constant) or (isinstance(st.value, ast.Call) and is_log_call(st.value)))):
                continue
            elif isinstance(st, ast.AnnAssign) and st.value is not None:
                self._bind(st.target, E.ev(st.value, env), st, env)
            elif isinstance(st, ast.AugAssign) and isinstance(st.target, ast.Name) and type(st.op) in _OPS:
                env[st.target.id] = _arith(_OPS[type(st.op)], E.ev(ast.Name(id=st.target.id, ctx=ast.Load()), env), E.ev(st.value, env))
            else:
                raise _Unknown("statement %s" % stmt_text(st, 60))

    def run(self, facts):
        self.E.facts = facts
        try:
            self._run(self.fi.node.body, {})
        except _Returned as r:
            return r.value
        except (_Unknown, _Undecided, _Raises) as x:
            raise AnalysisError("%s outside the evaluator's vocabulary: %s" % (self.fi.short, x or type(x).__name__))
        raise AnalysisError("%s does not return a value" % self.fi.short)


@R.clause("C05.g", "BERT on reliable transports: whenever the peer's settings allow size exponent 7, the announced payload size holds at least one 1024-byte unit and the resulting message fits the peer's Max-Message-Size")
def g_bert_sizes(ctx):
    """Added after an independently written breaking change rewrote RFC8323Remote.maximum_payload_size so that for
    a Max-Message-Size between 1153 and 2047 it fell below 1024 while maximum_block_size_exp stayed 7: _extract_block's
    BERT size 1024*(max//1024) became 0 and the client sent empty non-final blocks for ever.  Both properties are
    evaluated by the checker's own evaluator for every Max-Message-Size in MMS_DOMAIN (all values to 3300, the
    neighbourhood of every multiple of 1024 to 70000; block-wise announced or not, CSM seen or not)."""
    try:
        ex = ctx.prog.cls("transports.rfc8323common.RFC8323Remote").methods["maximum_block_size_exp"]
        pl = ctx.prog.cls("transports.rfc8323common.RFC8323Remote").methods["maximum_payload_size"]
    except KeyError:
        raise AnalysisError("RFC8323Remote.maximum_block_size_exp / maximum_payload_size missing")
    bad_unit = bad_fit = None
    n = 0
    rex, rpl = ConcreteRunner(ex, ctx.prog), ConcreteRunner(pl, ctx.prog)
    for csm in (False, True):
        for bw in (False, True):
            for mms in (MMS_DOMAIN if csm else [1152]):
                settings = {"self._remote_settings": {"max-message-size": mms, "block-wise-transfer": bw} if csm else None}
                e = rex.run(settings)
                p = rpl.run(settings)
                if not (_is_num(e) and _is_num(p)):
                    raise AnalysisError("RFC8323Remote size properties do not evaluate to integers (%r, %r)" % (e, p))
                n += 1
                if e == 7 and p // 1024 < 1 and bad_unit is None:
                    bad_unit = (mms, bw, csm, e, p)
                if csm and bw and e == 7 and 1024 * (p // 1024) + 128 > mms and bad_fit is None and mms > 1152:
                    bad_fit = (mms, bw, csm, e, p)
                if e not in (6, 7) and bad_unit is None:
                    bad_unit = (mms, bw, csm, e, p)
    ctx.extra["bert_size_evaluations"] = n
    ctx.ob("with size exponent 7 the payload size holds at least one 1024-byte BERT unit", bad_unit is None, pl, pl.node, construct="RFC8323Remote.maximum_payload_size: BERT unit",
           detail="Max-Message-Size %s (block-wise %s, CSM seen %s): exponent %s but payload size %s" % bad_unit if bad_unit else "%d settings evaluated" % n)
    ctx.ob("a full BERT block plus 128 bytes of header/options fits the peer's Max-Message-Size", bad_fit is None, pl, pl.node, construct="RFC8323Remote.maximum_payload_size: fit",
           detail="Max-Message-Size %s: BERT block of %s bytes" % (bad_fit[0], 1024 * (bad_fit[4] // 1024)) if bad_fit else None)


# ===========================================================================
# C05.h  the Block1 phase does not end on a successful acknowledgement of an intermediate block
# ===========================================================================


class CodeDomain:
    """The literals (c05 vocabulary) a path has collected about ONE response code, read over the finite domain of
    the code byte 0..255.  A literal is evaluated by the checker's own evaluator with the code chain bound to a
    concrete value: comparisons with members of numbers.codes.Code (read from the class statement), arithmetic
    on the code (`>> 5`, `// 32`, `% 32`), the properties and the argument-less predicates of Code (their bodies are
    run by ConcreteRunner on the value) -- so `not code.is_successful()`, `code.class_ != 2`, `code >= 96 or
    code < 64`, `code.class_ in (4, 5)` and `code in (BAD_REQUEST, ...)` are all the same kind of fact."""

    def __init__(self, prog, fi, code_chain):
        self.prog, self.fi, self.code = prog, fi, code_chain
        ci = prog.cls("numbers.codes.Code")
        self.members = {}
        for name, expr in ci.attrs.items():
            try:
                v = norm.consteval(expr)
            except (NormError, TypeError, ValueError):
                continue
            if isinstance(v, int) and not isinstance(v, bool):
                self.members[name] = v
        if len(self.members) < 8:
            raise AnalysisError("numbers.codes.Code: members cannot be read from the class statement")
        self.self_facts = {"self." + n: v for n, v in self.members.items()}
        self.props = {n: m for n, m in ci.methods.items() if _is_property(m)}
        self.preds = {n: m for n, m in ci.methods.items() if not m.node.decorator_list and not m.is_async and not params(m) and not n.startswith("__")}
        self._runners = {}
        self._facts = {}
        self._atoms = {}
        self._locals = {n.id for n in ast.walk(fi.node) if isinstance(n, ast.Name) and isinstance(n.ctx, ast.Store)} | set(params(fi, skip_self=False))
        self._E = RoundEval(fi, {}, self._locals)
        self._E.lenv = {}  # atoms are canonical already: locals are not read through their definitions
        self._lit = {}
        self._pvals = {}

    def _run(self, m, c, props=None):
        if m.short not in self._runners:
            self._runners[m.short] = ConcreteRunner(m, self.prog)
        sf = dict(self.self_facts, self=c)
        for n, v in (self._props(c) if props is None else props).items():
            sf["self." + n] = v
        return self._runners[m.short].run(sf)

    def _props(self, c):
        """{property name: value} of Code at value c, for the properties whose bodies the evaluator can run (a
        property may read another one: evaluated to a fixed point)."""
        if c not in self._pvals:
            vals = {}
            for _round in range(3):
                before = len(vals)
                for n, m in self.props.items():
                    if n in vals:
                        continue
                    try:
                        v = self._run(m, c, vals)
                    except AnalysisError:
                        continue
                    if v is None or isinstance(v, (int, str)):
                        vals[n] = v
                if len(vals) == before:
                    break
            self._pvals[c] = vals
        return self._pvals[c]

    def facts(self, c):
        if c not in self._facts:
            f = {self.code: c}
            for n, v in self._props(c).items():
                f["%s.%s" % (self.code, n)] = v
            self._facts[c] = f
        return self._facts[c]

    def mentions(self, text):
        i = text.find(self.code)
        while i >= 0:
            before = text[i - 1] if i > 0 else " "
            after = text[i + len(self.code)] if i + len(self.code) < len(text) else " "
            if not (before.isalnum() or before in "_.") and not (after.isalnum() or after == "_"):
                return True
            i = text.find(self.code, i + 1)
        return False

    def _member_of(self, name):
        """Value of a name / chain of the analysed module that denotes a member of Code, else None."""
        if name.split(".")[0] in self._locals:
            return None
        try:
            q = self.prog.resolve_in_module(self.fi.module, name)
        except AnalysisError:
            return None
        if q and q.startswith("aiocoap.numbers") and q.split(".")[-1] in self.members:
            return self.members[q.split(".")[-1]]
        return None

    def value(self, text, c):
        """Value of an atom / expression text (the Normalizer's spelling) with the code bound to c; _Unknown /
        _Undecided when it is not a function of the code alone."""
        if text not in self._atoms:
            try:
                self._atoms[text] = ast.parse(text, mode="eval").body
            except SyntaxError:
                self._atoms[text] = None
        e = self._atoms[text]
        if e is None:
            raise _Unknown("atom %s" % text)
        facts = dict(self.facts(c))
        for n in ast.walk(e):
            if isinstance(n, (ast.Name, ast.Attribute)):
                ch = chain(n)
                if ch is not None and ch not in facts and not self.mentions(ch):
                    v = self._member_of(ch)
                    if v is not None:
                        facts[ch] = v
        E = self._E
        E.facts = facts

        def hook(call, fn, args, kw):
            if fn in ("shr", "floordiv", "mod") and len(args) == 2 and not kw:  # the Normalizer's opaque operators
                return _arith(fn, args[0], args[1])
            if fn and not args and not kw and fn.startswith(self.code + ".") and fn[len(self.code) + 1:] in self.preds:
                try:
                    return self._run(self.preds[fn[len(self.code) + 1:]], c)
                except AnalysisError as x:
                    raise _Unknown(str(x))
            raise _Unknown("call of %s" % (fn or "a computed function"))

        E.call_hook = hook
        try:
            return _settle(E.ev(e, {}))
        except _Raises as x:
            raise _Unknown(str(x))

    def _poly(self, p, c):
        total = Fraction(0)
        for mon, coef in p.t.items():
            term = Fraction(coef)
            for a, k in mon:
                v = self.value(a, c)
                if not _is_num(v):
                    raise _Unknown("atom %s is not a number" % a)
                term *= Fraction(int(v)) ** k
            total += term
        return total

    def lit_mentions(self, l):
        if len(l) == 2 and isinstance(l[1], Poly):
            return any(self.mentions(a) for a in l[1].atoms())
        return any(isinstance(x, str) and self.mentions(x) for x in l[1:])

    def lit_value(self, l, c):
        """Truth of one literal at code value c; None when the literal is not a function of the code alone."""
        k = l[0]
        try:
            if len(l) == 2 and isinstance(l[1], Poly):
                v = self._poly(l[1], c)
                return {"lt": v < 0, "eq": v == 0, "ne": v != 0}.get(k)
            if k in ("truth", "nottruth") and len(l) == 2:
                t = self._E.truth(self.value(l[1], c))
                return t if k == "truth" else not t
            if len(l) == 3 and k in ("is", "isnot", "eq", "ne", "in", "notin"):
                a, b = self.value(l[1], c), self.value(l[2], c)
                if isinstance(a, Poly) or isinstance(b, Poly):
                    return None
                if k in ("in", "notin"):
                    if not isinstance(b, (tuple, list, range)) or any(isinstance(x, Poly) for x in b):
                        return None
                    return (a in b) == (k == "in")
                # members of an IntEnum are singletons per value: identity of two codes is equality of their values
                return (a == b and type(a) is type(b)) == (k in ("is", "eq"))
        except (_Unknown, _Undecided, AnalysisError):
            return None
        return None

    def admits(self, lits, c):
        """No literal of the conjunction is false at code value c.  A literal that mentions the code but cannot be
        evaluated is refused (AnalysisError): guessing either way would be a false verdict."""
        for l in lits:
            if not self.lit_mentions(l):
                continue
            if (l, c) not in self._lit:
                self._lit[(l, c)] = self.lit_value(l, c)
            v = self._lit[(l, c)]
            if v is None:
                raise AnalysisError("_run: condition over the response code outside the evaluator's vocabulary: %s" % _lit_text(l))
            if v is False:
                return False
        return True


SUCCESS_CODES = range(2 << 5, 3 << 5)  # RFC 7252 section 5.9.1: class 2, 2.00 .. 2.31


@R.clause("C05.h", "Block1 loop: after a block that was not the last one, an acknowledgement that carries a Block1 option completes the Block1 phase only when its code is an error (a 2.xx acknowledgement of an intermediate block, whatever its more-flag, is not the result of the request)")
def h(ctx):
    """Added after an independently written regression flattened the tail of the loop to
    `if not (block1.more and code.is_successful()): break`: a server that processes the body block by block
    acknowledges intermediate blocks with 2.xx and M=0 (RFC 7959 section 2.3), the client stopped after the first
    block and reported success while the server held a truncated body.

    Necessary condition: the bytes after the block just sent reach the server only if another round follows.  So
    on every consistent way of leaving the loop normally in a round whose block was NOT the last one
    (`<sent>.opt.block1.more` not refuted by the path) and whose response acknowledged it with a Block1 option (the
    confirmed client gives up on a server that ignores the option altogether; that path is not judged), the
    conditions collected on the path must exclude every 2.xx code -- only an error response may be passed on as the
    final result of a partial upload.  Raising is always allowed.  The conditions are read over the finite domain
    of the code byte (CodeDomain), whichever way they are spelled and ordered."""
    r = _block1_roles(ctx)
    fi, cfg = r.fi, r.cfg
    tracked = RoundExec(ctx, r).bookkeeping
    D = CodeDomain(ctx.prog, fi, r.resp + ".code")
    ack = "%s.opt.block1" % r.resp
    ends = fact_walk(r, [(d, flag_facts_at(r, r.resp_nid)) for d, lab in cfg.succ[r.resp_nid] if lab != "exc"], tracked, fork=True)
    ctx.floor("continuations of a round of the Block1 loop", len(ends), 3)
    ctx.need(any(k == "next" for k, _n, _fs in ends), "_run: no continuation of a round reaches the next block")

    def last_block(fs):
        return r.final in fs or ("is", r.final[1], "False") in fs

    def unacknowledged(fs):
        return ("is", ack, "None") in fs or ("nottruth", ack) in fs

    leaves = [(n, fs) for k, n, fs in ends if k == "leave" and not last_block(fs) and not unacknowledged(fs)]
    bad = []
    for n, fs in leaves:
        ok_codes = [c for c in SUCCESS_CODES if D.admits(fs, c)]
        if ok_codes:
            bad.append((fs, ok_codes))
    detail = None
    if bad:
        fs, codes = bad[0]
        detail = "the loop is left with code %d.%02d possible under %s" % (codes[0] >> 5, codes[0] & 31, _show(fs))
    ctx.ob("after an intermediate block the Block1 phase completes only on an error response: a successful acknowledgement never ends the upload early",
           not bad, fi, r.outer, detail=detail, construct="intermediate-block exits of the Block1 loop")
    ctx.extra["block1_intermediate_exits_judged"] = len(leaves)


# ===========================================================================
# C05.k  tokens of consecutive block exchanges never repeat
# ===========================================================================

TOKEN_CALLS = 2048


def _token_generator(ctx):
    """(request function, class, generator method): the method whose value TokenManager.request stores into the
    `.token` of the message it sends -- found by what is stored, through locals, not by the method's name."""
    req = ctx.prog.func("tokenmanager.TokenManager.request")
    calls = []
    for n in walk_no_nested(req.node):
        if isinstance(n, ast.Assign) and any(isinstance(t, ast.Attribute) and t.attr == "token" for t in n.targets):
            calls.append(resolve_local(req.node, n.value))
        elif isinstance(n, ast.Call):
            for k in n.keywords:
                if k.arg in ("token", "_token"):
                    calls.append(resolve_local(req.node, k.value))
    ctx.need(len(calls) == 1, "TokenManager.request: exactly one place gives the outgoing message its token (found %d)" % len(calls))
    v = calls[0]
    ctx.need(isinstance(v, ast.Call) and isinstance(v.func, ast.Attribute) and isinstance(v.func.value, ast.Name) and v.func.value.id == "self"
             and not v.args and not v.keywords,
             "TokenManager.request: the token is the value of a parameterless method of the manager (found %s)" % _text(v))
    gen = ctx.prog.lookup_method(req.cls.qn, v.func.attr)
    ctx.need(gen is not None and is_plain_sync(gen), "the token generator self.%s is a plain synchronous method" % v.func.attr)
    return req, req.cls, gen


@R.clause("C05.k", "tokens of consecutive exchanges never repeat: with nothing else outstanding, thousands of successive values of the token generator are pairwise distinct (a late duplicate of one block response can then never be matched to the next block exchange or the next request)")
def k_token_freshness(ctx):
    """Added after an independently written change made TokenManager.next_token hand out "the first token after the
    context's random start that is not currently outstanding": a block-wise transfer is a SEQUENCE of exchanges, each
    finished (its key popped from outgoing_requests) before the next begins, so every block request and every
    following request carried the same token; responses are matched by (token, remote) only and not de-duplicated at
    that level, so a delayed second copy of the last Block2 response of GET /a became the body of GET /b.

    Necessary condition (property text: "every loss/duplication pattern of the individual block exchanges ... never
    yields a truncated, duplicated or mixed body"): the token of an exchange differs from the tokens of the exchanges
    before it even when those are no longer outstanding.  Decided by the checker's own concrete evaluator
    (_kit_c05.Machine): one manager object with its fields initialised as __init__ initialises them (a random start
    is a choice point: lowest and highest value), every field the generator does not write itself left in its
    initial state -- exactly the state between the exchanges of one sequential transfer -- and the generator called
    TOKEN_CALLS times.  All values must be byte strings, of at most 8 bytes (RFC 7252 section 3: TKL 0..8), and
    pairwise distinct.  The generator is interpreted, not matched: counter + to_bytes, struct.pack, masks instead of
    a modulus, helper methods, loops and comprehensions are all the same to it.  Premise of the simulation (need, not a
    violation): the fields the generator writes have no other writer in the class besides __init__.  A generator the
    evaluator cannot interpret (randomness drawn per call, foreign objects) is refused."""
    from ._kit_c05 import Machine, Refuse
    req, ci, gen = _token_generator(ctx)
    repeat = shape = None
    written = set()
    for pick in (0, 1):
        M = Machine(ctx.prog, ci, pick)
        seen = {}
        try:
            for i in range(TOKEN_CALLS):
                t = M.call(gen, [], {})
                if not isinstance(t, bytes) or len(t) > 8:
                    shape = shape or (i, t)
                    break
                if t in seen:
                    repeat = repeat or (seen[t], i, t, M.state.get(next(iter(sorted(M.fields_written))), None) if M.fields_written else None)
                    break
                seen[t] = i
        except Refuse as x:
            raise AnalysisError("%s is outside the vocabulary of the token evaluator: %s" % (gen.short, x))
        written |= M.fields_written
    ctx.extra["token_generator"] = gen.short
    ctx.extra["token_generator_state_fields"] = sorted(written)
    ctx.ob("the token generator returns a byte string of at most 8 bytes", shape is None, gen, gen.node, construct="token generator: value shape",
           detail="call %d returns %r" % shape if shape else None)
    ctx.ob("successive tokens are pairwise distinct although no earlier exchange is outstanding any more (a late duplicate of an earlier block response must not match the next exchange)",
           repeat is None, gen, gen.node, construct="token generator: freshness",
           detail=("call %d returns the token of call %d again (%s)" % (repeat[1] + 1, repeat[0] + 1, repeat[2].hex() or "empty")) if repeat
           else "%d successive tokens from the lowest and from the highest start value are pairwise distinct" % TOKEN_CALLS)
    # premise of the simulation: nobody else moves the generator's state
    for fld in sorted(written):
        for q in [ci.qn] + list(ctx.prog.subclasses(ci.qn)):
            c = ctx.prog.classes.get(q)
            for name, m in (c.methods.items() if c else ()):
                if m is gen or name == "__init__":
                    continue
                ctx.need(not stores_to(m.node, "self." + fld), "%s also writes the token generator's state self.%s: the simulation of the generator alone does not describe the tokens handed out" % (m.short, fld))


F_PRO = "aiocoap/protocol.py"
F_TOK = "aiocoap/tokenmanager.py"

R.seed("C05.k", F_TOK, "self._token = (self._token + 1) % (2**64)\n        return self._token.to_bytes(8, \"big\")", "token = (self._token + 1) % (2**64)\n        return token.to_bytes(8, \"big\")",
       "the counter is never stored back: every request carries the same token")
R.seed("C05.k", F_TOK, "self._token = (self._token + 1) % (2**64)", "self._token = (self._token + 1) % 256", "tokens repeat after 256 requests")
R.seed("C05.k", F_TOK, "return self._token.to_bytes(8, \"big\").lstrip(b\"\\0\")", "return self._token.to_bytes(8, \"big\")[-1:]", "only the low byte of the counter is used")
R.seed("C05.k", F_TOK, "self._token = (self._token + 1) % (2**64)", "self._token = (self._token + 2) % 4 + 65536", "counter cycles through two values")
R.seed("C05.k", F_TOK, "return self._token.to_bytes(8, \"big\").lstrip(b\"\\0\")", "return (self._token >> 1).to_bytes(8, \"big\").lstrip(b\"\\0\")", "two consecutive counter values share a token")
R.seed("C05.k", F_TOK, "self._token = (self._token + 1) % (2**64)\n        return self._token.to_bytes(8, \"big\").lstrip(b\"\\0\")",
       "in_use = {token for (token, _) in self.outgoing_requests}\n        candidate = self._token\n        while True:\n            candidate = (candidate + 1) % (2**64)\n            token = candidate.to_bytes(8, \"big\").lstrip(b\"\\0\")\n            if token not in in_use:\n                return token",
       "first token that is not outstanding: sequential exchanges reuse it")

R.seed("C05.a", F_MSG, "more = True if end < len(self.payload) else False", "more = True if end <= len(self.payload) else False", "more flag on the final block")
R.seed("C05.a", F_MSG, "size = 2 ** (size_exp + 4)", "size = 2 ** (size_exp + 3)", "half-size blocks")
R.seed("C05.a", F_MSG, "            start = number * size\n", "            start = (number + 1) * size\n", "offset off by one block")
R.seed("C05.a", F_MSG, "if start >= len(self.payload):", "if start > len(self.payload):", "empty block past the end instead of an error")
R.seed("C05.a", F_MSG, "end = start + size if start + size < len(self.payload) else len(self.payload)", "end = start + size if start + size > len(self.payload) else len(self.payload)", "max instead of min")
R.seed("C05.a", F_MSG, "blockopt = (number, more, size_exp)", "blockopt = (number, more, 6)", "descriptor does not carry the exponent used")
R.seed("C05.a", F_MSG, "            start = number * 1024\n", "            start = number * size_exp\n", "BERT offset unit")
R.seed("C05.a", F_MSG, "return self.copy(payload=payload, mid=None, block1=blockopt)", "return self.copy(payload=payload, mid=None, block2=blockopt)", "request block described in Block2")
R.seed("C05.b", F_OPT, "return 2 ** (min(self.size_exponent, 6) + 4)", "return 2 ** (self.size_exponent + 4)", "BERT size 2048")
R.seed("C05.b", F_OPT, "return payloadsize == self.size", "return payloadsize <= self.size", "short non-final block accepted")
R.seed("C05.b", F_OPT, "return payloadsize <= self.size", "return payloadsize < self.size", "full final block rejected")
R.seed("C05.b", F_OPT, "min(self.size_exponent, 6) - maximum_exponent", "self.size_exponent - maximum_exponent", "reduction from BERT doubles the offset")
R.seed("C05.b", F_OPT, "return type(self)(increasednumber, self.more, maximum_exponent)", "return type(self)(increasednumber, self.more, self.size_exponent)", "exponent not reduced")
R.seed("C05.b", F_OPT, "if maximum_exponent >= self.size_exponent:", "if maximum_exponent >= 0:", "never reduces")
R.seed("C05.b", F_OPT, "return self.block_number * self.size", "return (self.block_number + 1) * self.size")
R.seed("C05.c", F_PRO, "                block_cursor *= 2\n", "                pass\n", "cursor not rescaled on size reduction")
R.seed("C05.c", F_PRO, "                size_exp -= 1\n", "                size_exp += 1\n", "exponent grows")
R.seed("C05.c", F_PRO, "                block_cursor += 1\n", "                block_cursor += 2\n", "skips a block")
R.seed("C05.c", F_PRO, '                raise error.UnexpectedBlock1Option("Block number mismatch")', '                log.warning("Block number mismatch")', "mismatch tolerated")
R.seed("C05.c", F_PRO, "if block1.block_number != current_block1.opt.block1.block_number:", "if block1.block_number > current_block1.opt.block1.block_number:", "only larger numbers rejected")
R.seed("C05.c", F_PRO, "                if block1.more or blockresponse.code == CONTINUE:", "                if blockresponse.code == CONTINUE:", "more flag on the final acknowledgement accepted")
R.seed("C05.c", F_PRO, "                if block1.more or blockresponse.code == CONTINUE:", "                if block1.more:", "2.31 on the final block accepted")
R.seed("C05.c", F_PRO, "while block1.size_exponent < size_exp:", "while block1.size_exponent <= size_exp:", "reduces below what the server asked for")
R.seed("C05.c", F_PRO, "block_cursor += len(current_block1.payload) // 1024", "block_cursor += 1", "BERT message of several KiB counted as one block")
R.seed("C05.d", F_MSG, "        if next_block.opt.etag != self.opt.etag:\n            raise error.ResourceChanged()\n", "", "ETag guard deleted: mixed body")
R.seed("C05.d", F_MSG, "if block2.start != len(self.payload):", "if block2.start > len(self.payload):", "overlapping block appended twice")
R.seed("C05.d", F_MSG, "        if not block2.is_valid_for_payload_size(len(next_block.payload)):\n            raise error.UnexpectedBlock2(\"Payload size does not match Block2\")\n", "", "short block accepted")
R.seed("C05.d", F_MSG, "            raise error.ResourceChanged()", "            return", "changed representation silently skipped")
R.seed("C05.d", F_MSG, "next_after_received = len(response.payload) // response.opt.block2.size", "next_after_received = len(response.payload) // response.opt.block2.size + 1", "asks for the block after next")
R.seed("C05.d", F_MSG, "next_after_received, False, response.opt.block2.size_exponent", "next_after_received, False, 6", "exponent grows back to 6")
R.seed("C05.e", F_PRO, "                log.error(\"Error assembling blockwise response, passing on error %r\", e)\n                raise\n", "                log.error(\"Error assembling blockwise response, passing on error %r\", e)\n", "assembly error swallowed")
R.seed("C05.e", F_PRO, "            raise error.UnexpectedBlock2()\n", "            pass\n", "transfer starting in the middle accepted")
R.seed("C05.e", F_PRO, "            if block2.more is False:\n                return assembled_response", "            if block2.more is not False:\n                return assembled_response", "truncated body returned")
R.seed("C05.e", F_PRO, "                logged = True\n                response.set_exception(e)\n", "                logged = True\n", "error never reaches the caller")
R.seed("C05.e", F_PRO, "        except Exception as e:\n            logged = False", "        except error.Error as e:\n            logged = False", "non-aiocoap exceptions lost")
R.seed("C05.f", F_PRO, "                block_cursor *= 2\n", "                block_cursor *= 4\n", "a reduction by one step quadruples the cursor (also when coming down from the BERT exponent)")

R.seed("C05.f", F_PRO, "                if size_exp != 7:\n", "                if True:\n", "the step from the BERT exponent to 6 doubles the cursor although both count 1024-byte units")
R.seed("C05.c", F_PRO, "while block1.size_exponent < size_exp:", "while block1.size_exponent != size_exp:", "a server answering with a larger exponent makes the reduction run away")
R.seed("C05.c", F_PRO, "                if size_exp != 7:\n", "                if size_exp < 6:\n", "the step from exponent 6 to 5 no longer doubles the cursor")
R.seed("C05.d", F_MSG, "        self.payload += next_block.payload\n        self.opt.block2 = block2", "        self.payload = next_block.payload + self.payload\n        self.opt.block2 = block2", "block prepended instead of appended")
R.seed("C05.e", F_PRO, "if initial_response.opt.block2.block_number != 0:", "if initial_response.opt.block2.block_number > 1:", "a transfer starting at block 1 accepted")
R.seed("C05.a", F_MSG, "        if self.code.is_request():\n            return self.copy(payload=payload, mid=None, block1=blockopt)", "        if not self.code.is_request():\n            return self.copy(payload=payload, mid=None, block1=blockopt)", "descriptor options swapped between requests and responses")
# sixth pass: the generalised value resolution (chained assignment, min(), masks, dicts / messages built up on
# several paths) still bites when the fault is written in one of the newly understood spellings
R.seed("C05.a", F_MSG, "            start = number * 1024\n            size = 1024 * (max_bert_size // 1024)\n",
       "            start = size = 1024 * (max_bert_size // 1024)\n            start *= number\n", "chained assignment: BERT offset counted in whole messages instead of 1024-byte units")
R.seed("C05.a", F_MSG, "end = start + size if start + size < len(self.payload) else len(self.payload)", "end = min(start + size, len(self.payload) - 1)",
       "min() spelling: the last byte of the body is never sent")
R.seed("C05.a", F_MSG, "size = 1024 * (max_bert_size // 1024)", "size = max_bert_size & 1023", "mask spelling: remainder instead of the whole 1024-byte units")
R.seed("C05.a", F_MSG, "        if self.code.is_request():\n            return self.copy(payload=payload, mid=None, block1=blockopt)\n        else:\n            return self.copy(payload=payload, mid=None, block2=blockopt)\n",
       "        kw = {\"payload\": payload, \"mid\": None}\n        if self.code.is_request():\n            kw[\"block2\"] = blockopt\n        else:\n            kw[\"block1\"] = blockopt\n        return self.copy(**kw)\n",
       "keyword dict filled on two paths: options swapped")
R.seed("C05.a", F_MSG, "        if self.code.is_request():\n            return self.copy(payload=payload, mid=None, block1=blockopt)\n        else:\n            return self.copy(payload=payload, mid=None, block2=blockopt)\n",
       "        block = self.copy(payload=payload, mid=None)\n        block.opt.block2 = blockopt\n        return block\n",
       "option stored into the built message: a request block is described in Block2")
R.seed("C05.a", F_MSG, "            size = 2 ** (size_exp + 4)\n            start = number * size\n", "            size = (16, 32, 64, 128, 256, 512, 1024)[size_exp]\n            start = number * (16, 32, 64, 128, 256, 512, 512)[size_exp]\n",
       "table spelling: offsets of 1024-byte blocks counted in 512-byte units")

R.seed("C05.g", "aiocoap/transports/rfc8323common.py", "            return ((max_message_size - 128) // 1024) * 1024 + slack", "            return (max_message_size // 1024) * 1024 - 128 + slack", "payload size below 1024 for Max-Message-Size 1153..2047 while the exponent stays 7: empty BERT blocks for ever")
R.seed("C05.h", F_PRO, "                if not blockresponse.code.is_successful():\n                    break\n", "                if blockresponse.code.is_successful():\n                    break\n",
       "a successful acknowledgement of an intermediate block with M=0 ends the upload (truncated body reported as success)")
R.seed("C05.h", F_PRO, "                    # ignoring (discarding) the successful intermediate result, waiting for a final one\n                    continue\n",
       "                    break\n", "the Block1 phase ends on any acknowledgement without more-flag, successful or not")
R.seed("C05.h", F_PRO, "                if not blockresponse.code.is_successful():\n                    break\n", "                if blockresponse.code != CONTINUE:\n                    break\n",
       "only 2.31 keeps the upload going: a 2.04 acknowledgement of an intermediate block with M=0 is taken for the final result")
R.seed("C05.i", F_MSG, "            block1=None,\n            observe=None,\n        )", "            block1=None,\n            observe=None,\n            content_format=None,\n        )",
       "the follow-up request drops Content-Format: it no longer matches the blockwise key of the request that produced the body")
R.seed("C05.i", F_MSG, "            block1=None,\n            observe=None,\n        )", "            block1=None,\n            observe=None,\n            **{\"uri_query\": ()},\n        )",
       "the follow-up request drops the query (given as a ** operand)")
R.seed("C05.j", F_PRO, "            try:\n                assembled_response._append_response_block(last_response)",
       "            if block2.block_number != current_block2.opt.block2.block_number:\n                raise error.UnexpectedBlock2()\n            try:\n                assembled_response._append_response_block(last_response)",
       "the answered block number is compared with the requested one: a server that lowers the block size mid-transfer (same offset, other number) is refused")
R.seed("C05.j", F_MSG, "        if next_block.opt.etag != self.opt.etag:\n            raise error.ResourceChanged()\n",
       "        if next_block.opt.etag != self.opt.etag:\n            raise error.ResourceChanged()\n        if block2.size_exponent != self.opt.block2.size_exponent:\n            raise error.UnexpectedBlock2()\n",
       "the assembly refuses a block whose size exponent differs from the previous block's")
