"""C05 Block-wise client: both bodies intact or a loud failure."""

import ast
import copy

from ..rulekit import *
from ..norm import Normalizer, Poly, NormError

R = Rules(
    "C05",
    explanation=(
        "Structural clauses of the client side of RFC 7959 decided on the syntax trees of message.py, "
        "optiontypes.py and protocol.py.  Arithmetic clauses are decided by the checker's own evaluation of "
        "the expressions over the finite domain of the size exponent (0..7, and 0..7 x 0..7 for reduced_to): "
        "every local is replaced by its reaching definitions together with their path conditions, "
        "conditional expressions and min()/max() are split into alternatives, each alternative is brought "
        "into polynomial normal form and compared with the RFC 7959 section 2.2 / RFC 8323 section 6 "
        "reference (size = 2^(SZX+4), start = NUM*size, slice [start, min(start+size, len)), more <=> "
        "end < len, BERT unit 1024).  Ordering clauses are dominance / must-pass rules on per-function CFGs: "
        "the Block1 number comparison precedes every cursor update and its mismatch arm raises, the cursor "
        "advances exactly once per acknowledged block, the size-reduction loop is the transformer "
        "(cursor, szx) -> (cursor*2^k, szx-k) that keeps cursor*2^(szx+4), the final block refuses "
        "'more'/2.31, three raising guards precede the Block2 append, assembly errors are re-raised and "
        "reach response.set_exception.  C05.f evaluates the same size-reduction step at the BERT exponent, where "
        "block numbers count 1024-byte units exactly as at exponent 6 (RFC 8323 section 6), so the cursor must "
        "not be doubled when going from 7 to 6.  Paper step: with these premises the offsets sent are contiguous and "
        "the assembled body is a concatenation of in-order blocks of one representation.  Not decided: "
        "end-to-end byte identity over a lossy network, the independent server's behaviour."
    ),
    rule_text=(
        "reaching-definition expansion + polynomial normal forms over a finite exponent domain, "
        "dominating-guard facts, must-pass path rules, class-hierarchy facts"
    ),
)

MSG = "message.Message."
BT = "optiontypes.BlockOption.BlockwiseTuple."
BR = "protocol.BlockwiseRequest."


# ===========================================================================
# Expansion helper (shared with c07): evaluate an expression at a CFG node as a
# list of alternatives (expression without multi-definition locals / IfExp /
# min / max, path conditions).  Nothing here looks at names of locals or at
# statement positions; it follows definitions and branch outcomes.
# ===========================================================================

_PURE_BUILTINS = {"len", "min", "max", "int", "bool", "abs"}
_IMPURE_NODES = (ast.Await, ast.Yield, ast.YieldFrom, ast.NamedExpr, ast.Lambda, ast.ListComp, ast.SetComp,
                 ast.DictComp, ast.GeneratorExp, ast.JoinedStr)


def _default_pure(call):
    return chain(call.func) in _PURE_BUILTINS


def first_leaf_test(e):
    """Left-most atomic operand of a (possibly negated / short-circuit) test."""
    while True:
        if isinstance(e, ast.BoolOp):
            e = e.values[0]
        elif isinstance(e, ast.UnaryOp) and isinstance(e.op, ast.Not):
            e = e.operand
        else:
            return e


def test_nid(cfg, test):
    ids = cfg.locate(first_leaf_test(test))
    if not ids:
        raise AnalysisError("test %s has no CFG node" % stmt_text(test))
    return ids[0]


def rreach(cfg, dst, avoid=()):
    """Nodes from which dst is reachable (>= 1 edge) without entering `avoid`."""
    avoid = set(avoid)
    seen = set()
    todo = [dst]
    while todo:
        n = todo.pop()
        for p, _lab in cfg.pred[n]:
            if p in avoid or p in seen:
                continue
            seen.add(p)
            todo.append(p)
    return seen


def _const_truth(e):
    """Truth value of a test made of constants only (checker's own evaluator), else None."""
    try:
        return bool(norm.consteval(e))
    except (NormError, TypeError, ValueError):
        return None


class _Retag(ast.NodeTransformer):
    def __init__(self, names, tag):
        self.names, self.tag = names, tag

    def visit_Name(self, n):
        if n.id in self.names:
            return ast.Name(id="%s@%s" % (n.id, self.tag), ctx=ast.Load())
        return n


def _retag(e, names, tag):
    """`y` -> `y@tag`: the value local y had when local `tag` was defined."""
    return _Retag(names, tag).visit(copy.deepcopy(e))


class Expander:
    LIMIT = 20000

    def __init__(self, fi, subst=None, inline=None, pure=None, minmax=True, path_conds=True, opaque=()):
        self.opaque = set(opaque)  # locals that are never replaced by their definitions
        self.fi = fi
        self.cfg = cfg_of(fi)
        self.subst = subst or {}
        self.inline = inline or {}
        self.pure = pure or _default_pure
        self.minmax = minmax
        self.path_conds = path_conds
        self._w = {}
        self._subs = {}
        self._active = set()
        self._count = 0
        self._memo = {}

    # -- definitions ---------------------------------------------------
    def writes(self, name):
        if name not in self._w:
            out = []
            for st in writes_to_name(self.fi.node, name):
                for nid in self.cfg.locate(st):
                    if self.cfg.nodes[nid].kind in ("T", "F"):
                        continue
                    out.append((nid, st))
            self._w[name] = out
        return self._w[name]

    def _pure_value(self, v):
        for n in ast.walk(v):
            if isinstance(n, _IMPURE_NODES):
                return False
            if isinstance(n, ast.Call) and not self.pure(n):
                return False
        return True

    @staticmethod
    def _def_value(name, st):
        if isinstance(st, ast.Assign) and len(st.targets) == 1 and isinstance(st.targets[0], ast.Name):
            return st.value
        if isinstance(st, ast.AnnAssign) and st.value is not None and isinstance(st.target, ast.Name):
            return st.value
        if isinstance(st, ast.AugAssign) and isinstance(st.target, ast.Name):
            return ast.BinOp(left=ast.Name(id=name, ctx=ast.Load()), op=st.op, right=st.value)
        return None

    def reaching(self, name, nid):
        """([(def node, stmt, value, between-set)], entry_reaches) for the
        definitions of `name` that reach CFG node nid."""
        cfg = self.cfg
        ws = self.writes(name)
        avoid = {n for n, _ in ws} - {nid}
        back = rreach(cfg, nid, avoid) | {nid}
        out = []
        for wn, st in ws:
            if wn == nid and nid not in cfg.reach({wn}, avoid=avoid):
                continue
            fwd = cfg.reach({wn}, avoid=avoid)
            if nid in fwd:
                out.append((wn, st, self._def_value(name, st), fwd & back))
        entry = nid == cfg.entry or nid in cfg.reach({cfg.entry}, avoid=avoid)
        return out, entry

    def _substitutable(self, name, wn, st, value, between, nid):
        if value is None or not self._pure_value(value):
            return False
        cfg = self.cfg
        # the definition must reach the use without going round a loop
        avoid = {n for n, _ in self.writes(name)} - {nid}
        if nid not in cfg.reach({wn}, avoid=avoid, skip_labels=("back",)):
            return False
        return True

    def _stale(self, name, st, value, between, nid):
        """Locals mentioned by a definition's value that are rebound between the
        definition and the use: their definition-time value gets its own atom."""
        out = set()
        for y in names_in(value):
            if y == name and isinstance(st, ast.AugAssign):
                continue
            if any(yn in between and yn != nid for yn, _ in self.writes(y)):
                out.add(y)
        return out

    def _path_conditions(self, name, wn, between, nid):
        cfg = self.cfg
        out = []
        seen = set()
        for t, pol, _p in cfg.guards(wn):
            if (id(t), pol) not in seen:
                seen.add((id(t), pol))
                out.append((t, pol))
        avoid = {n for n, _ in self.writes(name)} - {nid}
        for p in sorted(between):
            nd = cfg.nodes[p]
            if nd.kind in ("T", "F") and p != nid:
                if nid not in cfg.reach({wn}, avoid=avoid | {p}):
                    key = (id(nd.ast), nd.kind == "T")
                    if key not in seen:
                        seen.add(key)
                        out.append((nd.ast, nd.kind == "T"))
        return out

    # -- expansion -------------------------------------------------------
    def expand_conds(self, conds, depth=0):
        """conds: [(test expr, polarity)] -> list of tuples of (expanded test, polarity)."""
        alts = [()]
        for t, pol in conds:
            tn = test_nid(self.cfg, t)
            opts = []
            for t2, c2 in self.expand(t, tn, depth + 1):
                k = _const_truth(t2)
                if k is None:
                    opts.append(((t2, pol),) + c2)
                elif k == pol:
                    opts.append(c2)
            alts = [a + o for a in alts for o in opts]
            self._tick(len(alts))
        return alts

    def _tick(self, n):
        self._count += n
        if self._count > self.LIMIT:
            raise AnalysisError("expression expansion in %s exceeds its bound" % self.fi.short)

    def expand(self, e, nid, depth=0):
        """[(expression', conditions)] for expression e evaluated at CFG node nid."""
        key = (id(e), nid, self.path_conds)
        if key not in self._memo:
            self._memo[key] = (e, self._expand(e, nid, depth))
        return self._memo[key][1]

    def _cond_alts(self, t, nid, depth):
        """Alternatives of a test: [(truth, extra conditions)], constants decided."""
        out = []
        for t2, c in self.expand(t, nid, depth + 1):
            k = _const_truth(t2)
            if k is None:
                out.append((True, c + ((t2, True),)))
                out.append((False, c + ((t2, False),)))
            else:
                out.append((k, c))
        return out

    def _expand(self, e, nid, depth):
        if depth > 60:
            raise AnalysisError("expansion too deep in %s" % self.fi.short)
        if isinstance(e, ast.Constant):
            return [(e, ())]
        if isinstance(e, (ast.Lambda, ast.ListComp, ast.SetComp, ast.DictComp, ast.GeneratorExp, ast.JoinedStr)):
            return [(e, ())]
        if isinstance(e, ast.Name):
            return self._name(e, nid, depth)
        if isinstance(e, ast.Attribute):
            c = chain(e)
            if c is not None and c in self.subst:
                return [(self.subst[c], ())]
            if c is not None and c in self.inline:
                return self._inline(c, depth)
        if isinstance(e, ast.IfExp):
            out = []
            for truth, c1 in self._cond_alts(e.test, nid, depth):
                for b, c2 in self.expand(e.body if truth else e.orelse, nid, depth + 1):
                    out.append((b, c1 + c2))
            self._tick(len(out))
            return out
        if self.minmax and isinstance(e, ast.Call) and chain(e.func) in ("min", "max") and len(e.args) == 2 and not e.keywords \
                and not any(isinstance(a, ast.Starred) for a in e.args):
            out = []
            is_min = chain(e.func) == "min"
            for a, ca in self.expand(e.args[0], nid, depth + 1):
                for b, cb in self.expand(e.args[1], nid, depth + 1):
                    lt = ast.Compare(left=a, ops=[ast.Lt()], comparators=[b])
                    k = _const_truth(lt)
                    if k is not False:
                        out.append((a if is_min else b, ca + cb + (((lt, True),) if k is None else ())))
                    if k is not True:
                        out.append((b if is_min else a, ca + cb + (((lt, False),) if k is None else ())))
            self._tick(len(out))
            return out
        return self._generic(e, nid, depth)

    def _name(self, e, nid, depth):
        if e.id in self.subst:
            return [(self.subst[e.id], ())]
        ws = self.writes(e.id)
        if not ws or e.id in self.opaque:
            return [(e, ())]
        defs, entry = self.reaching(e.id, nid)
        if entry or not defs:
            return [(e, ())]
        if not all(self._substitutable(e.id, wn, st, v, btw, nid) for wn, st, v, btw in defs):
            return [(e, ())]
        out = []
        for wn, st, v, btw in defs:
            key = (e.id, wn, nid)
            if key in self._active:
                raise AnalysisError("loop-carried definition of %s in %s" % (e.id, self.fi.short))
            self._active.add(key)
            try:
                if self.path_conds:
                    calts = self.expand_conds(self._path_conditions(e.id, wn, btw, nid), depth + 1)
                else:
                    calts = [()]
                vals = self.expand(v, wn, depth + 1)
                stale = self._stale(e.id, st, v, btw, nid)
                if stale:
                    vals = [(_retag(v2, stale, e.id), tuple((_retag(t, stale, e.id), pol) for t, pol in c2)) for v2, c2 in vals]
            finally:
                self._active.discard(key)
            for c in calts:
                for v2, c2 in vals:
                    out.append((v2, c + c2))
            self._tick(len(out))
        return out

    def _inline(self, c, depth):
        g = self.inline[c]
        if c not in self._subs:
            self._subs[c] = Expander(g, self.subst, self.inline, self.pure, self.minmax, self.path_conds)
        sub = self._subs[c]
        sub._count = 0
        out = []
        rets = [n for n in walk_no_nested(g.node) if isinstance(n, ast.Return)]
        if not rets or any(r.value is None for r in rets):
            raise AnalysisError("%s cannot be inlined (no value returned on some path)" % g.short)
        if not sub.cfg.must_pass(sub.cfg.entry, [sub.cfg.loc1(r) for r in rets]):
            raise AnalysisError("%s cannot be inlined (falls off the end)" % g.short)
        for r in rets:
            rn = sub.cfg.loc1(r)
            conds = [(t, pol) for t, pol, _ in sub.cfg.guards(rn)]
            for ca in sub.expand_conds(conds, depth + 1):
                for v, c2 in sub.expand(r.value, rn, depth + 1):
                    out.append((v, ca + c2))
        self._tick(len(out))
        return out

    def _generic(self, e, nid, depth):
        slots = []
        for f, v in ast.iter_fields(e):
            if isinstance(v, ast.expr):
                slots.append((f, None, v))
            elif isinstance(v, list):
                for i, item in enumerate(v):
                    if isinstance(item, ast.keyword):
                        slots.append((f, i, item))
                    elif isinstance(item, ast.expr):
                        slots.append((f, i, item))
        if not slots:
            return [(e, ())]
        alts = [({}, ())]
        changed = False
        for f, i, v in slots:
            target = v.value if isinstance(v, ast.keyword) else v
            opts = self.expand(target, nid, depth + 1)
            if len(opts) != 1 or opts[0][0] is not target or opts[0][1]:
                changed = True
            alts = [(dict(d, **{"%s/%s" % (f, i): (f, i, v, x)}), c + cx) for d, c in alts for x, cx in opts]
            self._tick(len(alts))
        if not changed:
            return [(e, ())]
        out = []
        for d, c in alts:
            new = copy.copy(e)
            lists = {}
            for f, i, v, x in d.values():
                if i is None:
                    setattr(new, f, x)
                else:
                    if f not in lists:
                        lists[f] = list(getattr(e, f))
                    if isinstance(v, ast.keyword):
                        lists[f][i] = ast.keyword(arg=v.arg, value=x)
                    else:
                        lists[f][i] = x
            for f, l in lists.items():
                setattr(new, f, l)
            out.append((new, c))
        return out


# -- literals ----------------------------------------------------------------

_FALSY = {"False", "None", "0", "''", "b''", "()", "[]"}


def _const_poly(p):
    return p.const_value() if isinstance(p, Poly) else None


def lit_eval(l):
    """True / False when the literal is decided by constants, else None."""
    k = l[0]
    if k == "lt":
        c = _const_poly(l[1])
        return None if c is None else c < 0
    if k in ("eq", "ne") and len(l) == 2:
        c = _const_poly(l[1])
        if c is None:
            return None
        return (c == 0) if k == "eq" else (c != 0)
    if k in ("is", "isnot") and len(l) == 3:
        a, b = l[1], l[2]
        consts = {"None", "True", "False"}
        if a == b:
            return k == "is"
        if a in consts and b in consts:
            return k == "isnot"
        return None
    if k in ("truth", "nottruth"):
        a = l[1]
        v = None
        if a in _FALSY:
            v = False
        elif a == "True" or a.lstrip("-").isdigit():
            v = True
        if v is None:
            return None
        return v if k == "truth" else not v
    return None


def _neg(l):
    k = l[0]
    if k == "lt":
        return ("lt", -l[1] - Poly.const(1))
    flip = {"eq": "ne", "ne": "eq", "is": "isnot", "isnot": "is", "in": "notin", "notin": "in", "truth": "nottruth", "nottruth": "truth"}
    return (flip[k],) + tuple(l[1:])


def _diff_const(p, q):
    d = p - q
    return d.const_value()


def entails(lits, goal):
    """Sufficient syntactic entailment of one literal by a conjunction (integers)."""
    ev = lit_eval(goal)
    if ev is not None:
        return ev
    if goal in lits:
        return True
    k = goal[0]
    if k == "lt":
        q = goal[1]
        for l in lits:
            if l[0] == "lt":
                c = _diff_const(q, l[1])  # q = p + c, p <= -1
                if c is not None and c <= 0:
                    return True
            elif l[0] == "eq" and len(l) == 2:
                for s in (1, -1):
                    c = _diff_const(q, l[1] * Poly.const(s))  # q = +-p + c = c
                    if c is not None and c < 0:
                        return True
        return False
    if k == "ne" and len(goal) == 2:
        return entails(lits, ("lt", goal[1])) or entails(lits, ("lt", -goal[1]))
    if k == "eq" and len(goal) == 2:
        return entails(lits, ("lt", goal[1] - Poly.const(1))) and entails(lits, ("lt", -goal[1] - Poly.const(1)))
    return False


def simplify(lits):
    """Drop literals decided true; None when the conjunction is contradictory."""
    keep = set()
    for l in lits:
        ev = lit_eval(l)
        if ev is False:
            return None
        if ev is None:
            keep.add(l)
    for l in keep:
        try:
            if _neg(l) in keep:
                return None
        except KeyError:
            pass
        if l[0] in ("lt",) or (l[0] == "eq" and len(l) == 2):
            rest = keep - {l}
            if l[0] == "lt" and entails(rest, ("lt", -l[1] - Poly.const(1))):
                return None
            if l[0] == "eq" and (entails(rest, ("lt", l[1])) or entails(rest, ("lt", -l[1]))):
                return None
        if l[0] == "is":
            for m in keep:
                if m[0] == "is" and m[1] == l[1] and m[2] != l[2] and {m[2], l[2]} <= {"None", "True", "False"}:
                    return None
    return frozenset(keep)


def _dnf(N, e, pol):
    """DNF (list of literal lists) of boolean expression e with polarity."""
    x = e if pol else ast.UnaryOp(op=ast.Not(), operand=e)
    try:
        return [list(c) for c in N.dnf(x)]
    except NormError:
        txt = stmt_text(e)
        return [[("truth" if pol else "nottruth", txt)]]


def nf_conds(N, conds):
    """Expanded conditions -> list of simplified literal sets (alternatives)."""
    alts = [frozenset()]
    for t, pol in conds:
        parts = _dnf(N, t, pol)
        nxt = []
        for a in alts:
            for p in parts:
                s = simplify(a | set(p))
                if s is not None:
                    nxt.append(s)
        alts = nxt
        if not alts:
            break
    return alts


def alts_expr(X, N, e, nid, extra_conds=()):
    """[(literal set, expanded expression)] for e at node nid."""
    out = []
    pre = X.expand_conds(list(extra_conds)) if extra_conds else [()]
    for v, c in X.expand(e, nid):
        for p in pre:
            for lits in nf_conds(N, p + c):
                out.append((lits, v))
    return out


def alts_bool(X, N, e, nid, extra_conds=()):
    """[(literal set, truth value)] for the boolean expression e at node nid:
    every alternative is a conjunction under which e has the given value."""
    out = []
    for lits, v in alts_expr(X, N, e, nid, extra_conds):
        for truth in (True, False):
            for p in _dnf(N, v, truth):
                s = simplify(lits | set(p))
                if s is not None:
                    out.append((s, truth))
    return out


def node_conditions(fi, node):
    """[(test, polarity)] known to hold when `node` executes: dominating branch
    outcomes plus the tests of the enclosing if/while statements (which also
    covers `a or b` tests that no single branch outcome dominates)."""
    cfg = cfg_of(fi)
    out = []
    seen = set()
    for nid in cfg.locate(node)[:1]:
        for t, pol, _ in cfg.guards(nid):
            if (id(t), pol) not in seen:
                seen.add((id(t), pol))
                out.append((t, pol))
    cur = node
    while cur is not None and cur is not fi.node:
        par = cfg.parent.get(id(cur))
        if isinstance(par, (ast.If, ast.While)):
            pol = None
            if any(cur is s for s in par.body):
                pol = True
            elif isinstance(par, ast.If) and any(cur is s for s in par.orelse):
                pol = False
            if pol is not None and not (isinstance(par.test, ast.Constant)) and (id(par.test), pol) not in seen:
                seen.add((id(par.test), pol))
                out.append((par.test, pol))
        cur = par
    return out


def cond_dnf(X, N, fi, node):
    """Simplified DNF (list of literal sets) of the conditions of `node`."""
    out = []
    for c in X.expand_conds(node_conditions(fi, node)):
        out.extend(nf_conds(N, c))
    return out


def holds_at(X, N, fi, node, lit):
    alts = cond_dnf(X, N, fi, node)
    return bool(alts) and all(entails(a, lit) for a in alts)


def canon(X, e, nid):
    """Expression with single-definition locals replaced by their values (no
    path conditions); None when the definitions are ambiguous."""
    saved = X.path_conds
    X.path_conds = False
    try:
        alts = X.expand(e, nid)
    finally:
        X.path_conds = saved
    return alts[0][0] if len(alts) == 1 else None


def canon_chain(X, e, nid):
    c = canon(X, e, nid)
    return chain(c) if c is not None else None


def enclosing_loops(cfg, node, root):
    out = []
    cur = cfg.parent.get(id(node))
    while cur is not None and cur is not root:
        if isinstance(cur, (ast.While, ast.For, ast.AsyncFor)):
            out.append(cur)
        cur = cfg.parent.get(id(cur))
    return out


def exc_class(prog, fi, raise_node):
    """Qualified class of `raise X(...)` / `raise X`, or None."""
    e = raise_node.exc
    if e is None:
        return None
    if isinstance(e, ast.Call):
        e = e.func
    c = chain(e)
    return prog.resolve_in_module(fi.module, c) if c else None


def pseudo_nodes(cfg):
    return [n for n in cfg.nodes if n.kind in ("T", "F") and isinstance(n.ast, ast.expr)]


def pseudo_lits(X, N, cfg, p):
    """Literal-set alternatives asserted by branch pseudo node p."""
    tn = test_nid(cfg, p.ast)
    out = []
    saved = X.path_conds
    X.path_conds = False
    try:
        opts = X.expand(p.ast, tn)
    finally:
        X.path_conds = saved
    for t, _c in opts:
        out.extend(nf_conds(N, ((t, p.kind == "T"),)))
    return out


def pseudo_asserting(X, N, cfg, accept):
    """Ids of the pseudo nodes every alternative of which satisfies accept(literal set)."""
    out = set()
    for p in pseudo_nodes(cfg):
        try:
            alts = pseudo_lits(X, N, cfg, p)
        except AnalysisError:
            continue
        if alts and all(accept(a) for a in alts):
            out.add(p.id)
    return out


def C(v):
    return ast.Constant(value=v)


def P(src, N=None):
    return (N or Normalizer()).poly(ast.parse(src, mode="eval").body)


def unit_exp(s):
    """Exponent of the byte unit of a block number at size exponent s (A.4; BERT counts in 1024)."""
    return min(s, 6) + 4


# ===========================================================================
# C05.a  Message._extract_block
# ===========================================================================


def _kw(call, name):
    for k in call.keywords:
        if k.arg == name:
            return k.value
    return None


@R.clause("C05.a", "_extract_block: size = 2^(szx+4), start = num*size, slice [start, min(start+size, len)), more <=> end < len, option (num, more, szx); out of range raises; BERT unit 1024")
def a(ctx):
    fi = ctx.prog.func(MSG + "_extract_block")
    p = params(fi)
    ctx.need(len(p) == 3, "_extract_block signature changed")
    num, szx, mbs = p
    for q in p:
        ctx.need(not writes_to_name(fi.node, q), "_extract_block rebinds its parameter %s" % q)
    cfg = cfg_of(fi)
    rets = [n for n in walk_no_nested(fi.node) if isinstance(n, ast.Return)]
    ctx.floor("return statements in _extract_block", len(rets), 1)
    ctx.ob("every normal exit of _extract_block returns a block", all(r.value is not None for r in rets) and cfg.must_pass(cfg.entry, [cfg.loc1(r) for r in rets]),
           fi, fi.node, construct="_extract_block")
    N = Normalizer(rename={num: "NUM", mbs: "MAXBERT"})
    L = P("len(self.payload)")
    NUM = Poly.atom("NUM")
    fam = {}  # (return stmt, family) -> list of failure texts

    def rec(r, family, ok, why):
        fam.setdefault((id(r), family), [r, family, []])
        if not ok:
            fam[(id(r), family)][2].append(why)

    nalts = 0
    for s in range(8):
        bert = s == 7
        W = "BERT" if bert else "regular"
        X = Expander(fi, subst={szx: C(s)})
        size = P("1024 * (MAXBERT // 1024)") if bert else Poly.const(2 ** (s + 4))
        start = NUM * Poly.const(2 ** unit_exp(s))
        A = start + size
        for r in rets:
            if r.value is None:
                continue
            for lits, v in alts_expr(X, N, r.value, cfg.loc1(r), node_conditions(fi, r)):
                nalts += 1
                ctx.need(isinstance(v, ast.Call), "_extract_block returns something that is not a call building the block message")
                pay = _kw(v, "payload")
                b1, b2 = _kw(v, "block1"), _kw(v, "block2")
                ctx.need(pay is not None and (b1 is not None) != (b2 is not None), "_extract_block: returned message lacks payload= or exactly one of block1=/block2=")
                ctx.need(isinstance(pay, ast.Subscript) and chain(pay.value) == "self.payload" and isinstance(pay.slice, ast.Slice) and pay.slice.step is None
                         and pay.slice.lower is not None and pay.slice.upper is not None,
                         "_extract_block: payload of the block is not a slice self.payload[lo:hi]")
                try:
                    lo, hi = N.poly(pay.slice.lower), N.poly(pay.slice.upper)
                except NormError as e:
                    raise AnalysisError("_extract_block: slice bounds outside the arithmetic vocabulary: %s" % e)
                t = "szx=%d" % s
                rec(r, "%s: block starts at num * %s" % (W, "1024" if bert else "2^(szx+4)"), lo == start, "%s: start = %r" % (t, lo))
                if hi == A:
                    okhi = entails(lits, ("lt", A - L - Poly.const(1)))
                elif hi == L:
                    okhi = entails(lits, ("lt", L - A - Poly.const(1)))
                else:
                    okhi = False
                rec(r, "%s: block ends at min(start + size, len(payload)) with size = %s" % (W, "1024*(max_bert_size//1024)" if bert else "2^(szx+4)"),
                    okhi, "%s: end = %r under %s" % (t, hi, _show(lits)))
                rec(r, "%s: a block is only produced when start < len(payload) (out of range raises)" % W, entails(lits, ("lt", start - L)), "%s: conditions %s" % (t, _show(lits)))
                is_req = ("truth", "self.code.is_request()") in lits
                is_resp = ("nottruth", "self.code.is_request()") in lits
                rec(r, "%s: requests carry the descriptor in Block1, responses in Block2" % W, (is_req and b1 is not None) or (is_resp and b2 is not None),
                    "%s: %s under %s" % (t, "block1" if b1 is not None else "block2", _show(lits)))
                opt = b1 if b1 is not None else b2
                elts = opt.elts if isinstance(opt, ast.Tuple) else (opt.args if isinstance(opt, ast.Call) and not opt.keywords else None)
                ctx.need(elts is not None and len(elts) == 3, "_extract_block: block option is not a (num, more, szx) triple")
                try:
                    on, os_ = N.poly(elts[0]), N.poly(elts[2])
                except NormError as e:
                    raise AnalysisError("_extract_block: option fields outside the arithmetic vocabulary: %s" % e)
                rec(r, "%s: option carries the requested block number and size exponent" % W, on == NUM and os_ == Poly.const(s), "%s: (num, szx) = (%r, %r)" % (t, on, os_))
                for truth in (True, False):
                    for part in _dnf(N, elts[1], truth):
                        ls = simplify(lits | set(part))
                        if ls is None:
                            continue
                        goal = ("lt", A - L) if truth else ("lt", L - A - Poly.const(1))
                        rec(r, "%s: more flag is set exactly when the block ends before the end of the body" % W, entails(ls, goal),
                            "%s: more=%s under %s" % (t, truth, _show(ls)))
    ctx.floor("evaluated alternatives of _extract_block", nalts, 16)
    for r, family, fails in fam.values():
        ctx.ob(family, not fails, fi, r, detail="; ".join(fails[:4]) if fails else None)


def _show(lits):
    return "{" + ", ".join(sorted(_lit_text(l) for l in lits)) + "}"


def _lit_text(l):
    if l[0] == "lt":
        return "%r < 0" % (l[1],)
    if l[0] in ("eq", "ne") and len(l) == 2:
        return "%r %s 0" % (l[1], "==" if l[0] == "eq" else "!=")
    return " ".join(str(x) for x in l)


# ===========================================================================
# C05.b  BlockwiseTuple
# ===========================================================================


def _returns(fi):
    return [n for n in walk_no_nested(fi.node) if isinstance(n, ast.Return) and n.value is not None]


def _is_property(fi):
    return any(chain(d) == "property" for d in fi.node.decorator_list)


@R.clause("C05.b", "BlockwiseTuple: size = 2^(min(szx,6)+4), start = num*size, payload-size validity, reduced_to keeps start and never raises the exponent")
def b(ctx):
    prog = ctx.prog
    f_size, f_start, f_valid, f_red = (prog.func(BT + n) for n in ("size", "start", "is_valid_for_payload_size", "reduced_to"))
    ctx.need(_is_property(f_size) and _is_property(f_start), "BlockwiseTuple.size/start are no longer properties")
    ci = prog.cls(BT[:-1])
    inline = {"self." + n: m for n, m in ci.methods.items() if _is_property(m) and n not in ("block_number", "more", "size_exponent")}
    N = Normalizer(rename={"self.block_number": "NUM"})
    NUM = Poly.atom("NUM")

    # size, start
    for fi, what, ref in ((f_size, "size == 2^(min(szx,6)+4)", lambda s: Poly.const(2 ** unit_exp(s))),
                          (f_start, "start == block_number * size", lambda s: NUM * Poly.const(2 ** unit_exp(s)))):
        fails = []
        n = 0
        rets = _returns(fi)
        ctx.floor("returns of BlockwiseTuple.%s" % fi.name, len(rets), 1)
        cfg = cfg_of(fi)
        ctx.need(cfg.must_pass(cfg.entry, [cfg.loc1(r) for r in rets]), "BlockwiseTuple.%s can fall off its end" % fi.name)
        for s in range(8):
            X = Expander(fi, subst={"self.size_exponent": C(s)}, inline={k: v for k, v in inline.items() if v is not fi})
            for r in rets:
                for lits, v in alts_expr(X, N, r.value, cfg.loc1(r), [(t, pol) for t, pol, _ in cfg.guards(cfg.loc1(r))]):
                    n += 1
                    try:
                        got = N.poly(v)
                    except NormError:
                        got = None
                    if got != ref(s) or lits:
                        fails.append("szx=%d: %r%s" % (s, got, (" under " + _show(lits)) if lits else ""))
        ctx.floor("evaluations of BlockwiseTuple.%s" % fi.name, n, 8)
        ctx.ob("BlockwiseTuple.%s for every size exponent 0..7" % what, not fails, fi, fi.node, detail="; ".join(fails[:4]) if fails else None,
               construct="BlockwiseTuple.%s" % fi.name)

    # is_valid_for_payload_size
    fi = f_valid
    pp = params(fi)
    ctx.need(len(pp) == 1 and not writes_to_name(fi.node, pp[0]), "is_valid_for_payload_size signature changed")
    Nv = Normalizer(rename={pp[0]: "PS"})
    PS = Poly.atom("PS")
    cfg = cfg_of(fi)
    rets = _returns(fi)
    ctx.floor("returns of is_valid_for_payload_size", len(rets), 1)
    ctx.ob("is_valid_for_payload_size decides on every path", cfg.must_pass(cfg.entry, [cfg.loc1(r) for r in rets])
           and not [n for n in walk_no_nested(fi.node) if isinstance(n, ast.Return) and n.value is None], fi, fi.node, construct="BlockwiseTuple.is_valid_for_payload_size")
    fam = {"more": [], "last": [], "bert-more": [], "bert-last": []}
    cnt = 0
    for s in range(8):
        X = Expander(fi, subst={"self.size_exponent": C(s)}, inline=inline)
        size = Poly.const(2 ** unit_exp(s))
        for r in rets:
            rn = cfg.loc1(r)
            for lits, truth in alts_bool(X, Nv, r.value, rn, [(t, pol) for t, pol, _ in cfg.guards(rn)]):
                cnt += 1
                worlds = []
                if ("nottruth", "self.more") not in lits:
                    worlds.append(True)
                if ("truth", "self.more") not in lits:
                    worlds.append(False)
                rest = frozenset(l for l in lits if l not in (("truth", "self.more"), ("nottruth", "self.more")))
                for more in worlds:
                    if s < 7 and more:
                        goal = ("eq", norm._signnorm(PS - size)) if truth else ("ne", norm._signnorm(PS - size))
                        key = "more"
                    elif s < 7:
                        goal = ("lt", PS - size - Poly.const(1)) if truth else ("lt", size - PS)
                        key = "last"
                    elif more:
                        m = P("PS % 1024")
                        goal = ("eq", m) if truth else ("ne", m)
                        key = "bert-more"
                    else:
                        goal = None
                        key = "bert-last"
                    ok = entails(rest, goal) if goal is not None else truth
                    if not ok:
                        fam[key].append("szx=%d: returns %s under %s" % (s, truth, _show(lits)))
    ctx.floor("evaluated alternatives of is_valid_for_payload_size", cnt, 16)
    texts = {"more": "a block with more-flag is valid exactly when the payload size equals the block size",
             "last": "a final block is valid exactly when the payload size does not exceed the block size",
             "bert-more": "a BERT block with more-flag is valid exactly when the payload is a multiple of 1024",
             "bert-last": "a final BERT block is accepted with any payload size"}
    for key, fails in fam.items():
        ctx.ob(texts[key], not fails, fi, fi.node, detail="; ".join(fails[:4]) if fails else None, construct="BlockwiseTuple.is_valid_for_payload_size [%s]" % key)

    # reduced_to
    fi = f_red
    pp = params(fi)
    ctx.need(len(pp) == 1 and not writes_to_name(fi.node, pp[0]), "reduced_to signature changed")
    cfg = cfg_of(fi)
    rets = _returns(fi)
    ctx.floor("returns of reduced_to", len(rets), 1)
    ctx.ob("reduced_to returns a descriptor on every path", cfg.must_pass(cfg.entry, [cfg.loc1(r) for r in rets])
           and not [n for n in walk_no_nested(fi.node) if isinstance(n, ast.Return) and n.value is None], fi, fi.node, construct="BlockwiseTuple.reduced_to")
    f_exp, f_startkeep, f_more = [], [], []
    cnt = 0
    for s in range(8):
        for m in range(8):
            X = Expander(fi, subst={"self.size_exponent": C(s), pp[0]: C(m)}, inline=inline)
            for r in rets:
                rn = cfg.loc1(r)
                for lits, v in alts_expr(X, N, r.value, rn, [(t, pol) for t, pol, _ in cfg.guards(rn)]):
                    cnt += 1
                    w = "szx=%d,max=%d" % (s, m)
                    if isinstance(v, ast.Name) and v.id == "self":
                        n2, s2, more_ok = NUM, Poly.const(s), True
                    else:
                        elts = v.elts if isinstance(v, ast.Tuple) else (v.args if isinstance(v, ast.Call) and not v.keywords else None)
                        ctx.need(elts is not None and len(elts) == 3, "reduced_to returns something that is neither self nor a (num, more, szx) triple")
                        try:
                            n2, s2 = N.poly(elts[0]), N.poly(elts[2])
                        except NormError as e:
                            raise AnalysisError("reduced_to: fields outside the arithmetic vocabulary: %s" % e)
                        more_ok = chain(elts[1]) == "self.more"
                    sc = s2.const_value()
                    if sc is None or sc != min(s, m):
                        f_exp.append("%s: exponent %r" % (w, s2))
                    if sc is None or sc.denominator != 1 or not (0 <= sc <= 7) or n2 * Poly.const(2 ** unit_exp(int(sc))) != NUM * Poly.const(2 ** unit_exp(s)):
                        f_startkeep.append("%s: (num, szx) = (%r, %r)" % (w, n2, s2))
                    if not more_ok:
                        f_more.append(w)
    ctx.floor("evaluated alternatives of reduced_to", cnt, 64)
    ctx.ob("reduced_to yields exponent min(szx, maximum): it never grows and never exceeds the maximum", not f_exp, fi, fi.node,
           detail="; ".join(f_exp[:4]) if f_exp else None, construct="BlockwiseTuple.reduced_to [exponent]")
    ctx.ob("reduced_to preserves the byte offset num * 2^(min(szx,6)+4)", not f_startkeep, fi, fi.node,
           detail="; ".join(f_startkeep[:4]) if f_startkeep else None, construct="BlockwiseTuple.reduced_to [start]")
    ctx.ob("reduced_to keeps the more flag", not f_more, fi, fi.node, detail="; ".join(f_more[:4]) if f_more else None, construct="BlockwiseTuple.reduced_to [more]")


# ===========================================================================
# C05.c / C05.f  Block1 loop of BlockwiseRequest._run
# ===========================================================================


class _Roles:
    pass


def _own_stmt(cfg, node):
    return cfg.nodes[cfg.loc1(node)].ast


def _assigned_name(st, value):
    if isinstance(st, ast.Assign) and len(st.targets) == 1 and isinstance(st.targets[0], ast.Name) and st.value is value:
        return st.targets[0].id
    if isinstance(st, ast.AnnAssign) and isinstance(st.target, ast.Name) and st.value is value:
        return st.target.id
    return None


def _block1_roles(ctx):
    """Identify, by data flow only, the block cursor, the exponent variable, the
    block just cut, its request and its response in BlockwiseRequest._run."""
    fi = ctx.prog.func(BR + "_run")
    cfg = cfg_of(fi)
    r = _Roles()
    r.fi, r.cfg = fi, cfg
    calls = list(find("$r._extract_block($c, $s, $m)", fi.node))
    ctx.floor("_extract_block call sites in BlockwiseRequest._run", len(calls), 1)
    ctx.need(len(calls) == 1, "several _extract_block call sites in BlockwiseRequest._run")
    call, b = calls[0]
    ctx.need(isinstance(b["c"], ast.Name) and isinstance(b["s"], ast.Name), "_run: block cursor / size exponent handed to _extract_block are not locals")
    r.call, r.cursor, r.szx, r.req, r.maxarg = call, b["c"].id, b["s"].id, chain(b["r"]), b["m"]
    ctx.need(r.req in params(fi), "_run: _extract_block is not called on the application request parameter")
    r.blk = _assigned_name(_own_stmt(cfg, call), call)
    ctx.need(r.blk is not None, "_run: result of _extract_block is not bound to a local")
    loops = enclosing_loops(cfg, call, fi.node)
    ctx.need(loops, "_run: _extract_block is not called inside the Block1 loop")
    r.outer = loops[0]
    sends = [n for n, bb in find("$p.request($x, $**kw)", r.outer) if isinstance(bb["x"], ast.Name) and bb["x"].id == r.blk]
    ctx.need(len(sends) == 1, "_run: expected exactly one request built from the current block (found %d)" % len(sends))
    r.send = sends[0]
    r.send_nid = cfg.loc1(r.send)
    r.q = _assigned_name(_own_stmt(cfg, r.send), r.send)
    ctx.need(r.q is not None, "_run: the block request is not bound to a local")
    r.resp = None
    for n in ast.walk(r.outer):
        if isinstance(n, ast.Await) and isinstance(n.value, ast.Attribute) and n.value.attr == "response" and isinstance(n.value.value, ast.Name) and n.value.value.id == r.q:
            nm = _assigned_name(_own_stmt(cfg, n), n)
            if nm is not None:
                ctx.need(r.resp is None, "_run: the block response is awaited twice")
                r.resp, r.resp_nid = nm, cfg.loc1(n)
    ctx.need(r.resp is not None, "_run: no `x = await <block request>.response` in the Block1 loop")
    ctx.need(cfg.dominates(r.send_nid, r.resp_nid), "_run: response awaited before the request is sent")
    r.X = Expander(fi)
    r.N = Normalizer()

    def in_outer(st):
        return any(l is r.outer for l in enclosing_loops(cfg, st, fi.node))

    def innermost(st):
        ls = enclosing_loops(cfg, st, fi.node)
        return ls[0] if ls else None

    r.cur_writes = [w for w in writes_to_name(fi.node, r.cursor) if in_outer(w)]
    r.szx_writes = [w for w in writes_to_name(fi.node, r.szx) if in_outer(w)]
    r.adv = [w for w in r.cur_writes if innermost(w) is r.outer]
    r.red_loops = []
    for l in ast.walk(r.outer):
        if isinstance(l, (ast.While, ast.For)) and l is not r.outer:
            if any(innermost(w) is l for w in r.cur_writes + r.szx_writes):
                r.red_loops.append(l)
    r.innermost = innermost
    b1n = "%s.opt.block1" % r.resp
    x1n = "%s.opt.block1" % r.blk
    r.match = ("eq", norm._signnorm(Poly.atom(b1n + ".block_number") - Poly.atom(x1n + ".block_number")))
    r.mismatch = ("ne", r.match[1])
    r.final = ("nottruth", x1n + ".more")
    r.resp_more = b1n + ".more"
    r.resp_szx = b1n + ".size_exponent"
    return r


def _infeasible(r, s):
    """Branch outcomes of tests over the exponent variable alone that are false when it equals s."""
    out = set()
    for p in pseudo_nodes(r.cfg):
        if names_in(p.ast) == {r.szx}:
            try:
                v = bool(norm.consteval(p.ast, {r.szx: s}))
            except (NormError, TypeError):
                continue
            if v != (p.kind == "T"):
                out.add(p.id)
    return out


def _delta(name, w):
    v = Expander._def_value(name, w)
    if v is None:
        return None
    try:
        return Normalizer(penv={name: Poly.atom("CUR")}).poly(v) - Poly.atom("CUR")
    except NormError:
        return None


def _truth(N, test):
    alts = [simplify(set(c)) for c in _dnf(N, test, True)]
    if any(a is not None and not a for a in alts):
        return True
    if all(a is None for a in alts):
        return False
    return None


def _interp(ctx, stmts, env, what):
    """Effect of a loop body on the tracked variables (polynomial transformer);
    if-statements must be decided by the tracked values."""
    for st in stmts:
        if isinstance(st, ast.Pass) or (isinstance(st, ast.Expr) and isinstance(st.value, ast.Call) and is_log_call(st.value)):
            continue
        if isinstance(st, (ast.Assign, ast.AugAssign, ast.AnnAssign)):
            tgt = st.targets[0] if isinstance(st, ast.Assign) and len(st.targets) == 1 else getattr(st, "target", None)
            if isinstance(tgt, ast.Name) and tgt.id in env:
                v = Expander._def_value(tgt.id, st)
                ctx.need(v is not None, "%s: unsupported assignment %s" % (what, stmt_text(st)))
                try:
                    env[tgt.id] = Normalizer(penv=dict(env)).poly(v)
                except NormError as e:
                    raise AnalysisError("%s: %s" % (what, e))
                continue
        if isinstance(st, ast.If):
            t = _truth(Normalizer(penv=dict(env)), st.test)
            ctx.need(t is not None, "%s: branch %s is not decided by the cursor/exponent values" % (what, stmt_text(st.test)))
            _interp(ctx, st.body if t else st.orelse, env, what)
            continue
        for n in ast.walk(st):
            if isinstance(n, ast.Name) and isinstance(n.ctx, (ast.Store, ast.Del)) and n.id in env:
                raise AnalysisError("%s: statement outside the rule's vocabulary writes %s: %s" % (what, n.id, stmt_text(st)))
            if isinstance(n, (ast.Break, ast.Continue, ast.Return, ast.Raise)):
                raise AnalysisError("%s: control transfer inside the size-reduction loop" % what)
    return env


@R.clause("C05.c", "Block1 loop: the acknowledged block number is compared before the cursor moves and a mismatch raises; cursor +1 (BERT +len//1024) once per block; size reduction keeps cursor*2^(szx+4) and only lowers szx; the final block refuses more/2.31")
def c(ctx):
    r = _block1_roles(ctx)
    fi, cfg, X, N = r.fi, r.cfg, r.X, r.N
    ctx.ob("each block is cut from the application request at (cursor, szx, <request>.remote.maximum_payload_size)",
           chain(r.maxarg) == r.req + ".remote.maximum_payload_size", fi, r.call)
    ctx.floor("cursor updates in the Block1 loop", len(r.cur_writes), 2)
    ctx.floor("cursor advance sites", len(r.adv), 1)
    # c2: the comparison dominates every cursor update
    for w in r.cur_writes:
        ctx.ob("cursor update happens only after the acknowledged Block1 number was found equal to the number sent", holds_at(X, N, fi, w, r.match), fi, w)
    # c3: mismatch raises
    mism = pseudo_asserting(X, N, cfg, lambda a: entails(a, r.mismatch))
    ctx.floor("branches taken on a Block1 number mismatch", len(mism), 1)
    for pid_ in sorted(mism):
        region = cfg.reach({pid_}, skip_labels=("exc",))
        raises = [cfg.nodes[n] for n in region if cfg.nodes[n].kind == "raise"]
        classes = [exc_class(ctx.prog, fi, n.ast) for n in raises]
        ok = cfg.exit not in region and r.send_nid not in region and bool(raises) and all(
            c is not None and ctx.prog.is_subclass(c, "aiocoap.error.UnexpectedBlock1Option") for c in classes)
        ctx.ob("a Block1 number mismatch ends the request with UnexpectedBlock1Option (no further block is sent, nothing is returned)", ok, fi, cfg.nodes[pid_].ast,
               detail="raises %s; reaches exit=%s, next request=%s" % (classes, cfg.exit in region, r.send_nid in region))
    # c4: advance exactly once per acknowledged block, by the right amount
    matchp = pseudo_asserting(X, N, cfg, lambda a: entails(a, r.match))
    ctx.floor("branches taken on a Block1 number match", len(matchp), 1)
    adv_nodes = {cfg.loc1(w): w for w in r.adv}
    szx_nodes = {cfg.loc1(w) for w in r.szx_writes}
    between = cfg.reach({r.send_nid}, avoid=set(adv_nodes))
    ctx.ob("the size exponent is not modified between cutting a block and advancing the cursor", not (szx_nodes & between), fi, r.call)
    bert_ref = P("len(%s.payload) // 1024" % r.blk)
    fails = {"regular": [], "BERT": []}
    for s in range(8):
        W = "BERT" if s == 7 else "regular"
        inf = _infeasible(r, s)
        app = {n: w for n, w in adv_nodes.items() if not any(cfg.dominates(p, n) for p in inf)}
        for mp in matchp:
            if mp in inf:
                continue
            if r.send_nid in cfg.reach({mp}, avoid=inf | set(app), skip_labels=("exc",)):
                fails[W].append("szx=%d: the next block can be requested without advancing the cursor" % s)
        for n, w in app.items():
            if cfg.reach({n}, avoid=inf | {r.send_nid}, skip_labels=("exc",)) & set(app):
                fails[W].append("szx=%d: cursor advanced twice for one block" % s)
            d = _delta(r.cursor, w)
            want = bert_ref if s == 7 else Poly.const(1)
            if d != want:
                fails[W].append("szx=%d: cursor advanced by %r" % (s, d))
    anchor = r.adv[0]
    ctx.ob("regular exponents: after each acknowledged block the cursor advances exactly once, by one block", not fails["regular"], fi, anchor,
           detail="; ".join(fails["regular"][:4]) or None, construct="cursor advance (szx 0..6) in BlockwiseRequest._run")
    ctx.ob("BERT: after each acknowledged block the cursor advances exactly once, by len(block payload)//1024", not fails["BERT"], fi, anchor,
           detail="; ".join(fails["BERT"][:4]) or None, construct="cursor advance (szx 7) in BlockwiseRequest._run")
    # c5: size reduction
    ctx.floor("size-reduction loops", len(r.red_loops), 1)
    ctx.need(len(r.red_loops) == 1, "_run: several nested loops modify the cursor / exponent")
    loop = r.red_loops[0]
    ctx.need(isinstance(loop, ast.While) and not loop.orelse, "_run: size reduction is not a plain while loop")
    stray = [w for w in r.szx_writes if r.innermost(w) is not loop]
    for w in stray:
        ctx.ob("the size exponent changes only inside the size-reduction loop", False, fi, w)
    if not stray:
        ctx.ob("the size exponent changes only inside the size-reduction loop", True, fi, loop, construct="size-reduction loop of BlockwiseRequest._run")
    tn = test_nid(cfg, loop.test)
    ct = canon(X, loop.test, tn)
    want_test = frozenset({frozenset({("lt", Poly.atom(r.resp_szx) - Poly.atom(r.szx))})})
    try:
        got_test = N.dnf(ct) if ct is not None else None
    except NormError:
        got_test = None
    ctx.ob("size reduction runs exactly while the server's Block1 exponent is below the current one", got_test == want_test, fi, loop.test,
           detail="normal form %s" % (sorted(map(_show, got_test)) if got_test else None))
    ctx.ob("size reduction happens after the cursor advance and before the next block is cut",
           not (set(adv_nodes) & cfg.reach({tn}, avoid={r.send_nid})) and tn not in cfg.reach(matchp, avoid=set(adv_nodes)), fi, loop.test,
           construct="position of the size-reduction loop in BlockwiseRequest._run")
    f_dec, f_inv = [], []
    for s in range(1, 7):
        env = _interp(ctx, loop.body, {r.cursor: Poly.atom("CUR"), r.szx: Poly.const(s)}, "size-reduction loop")
        c2, s2 = env[r.cursor], env[r.szx].const_value()
        if s2 is None or s2.denominator != 1 or not (0 <= s2 < s):
            f_dec.append("szx=%d -> %r" % (s, env[r.szx]))
            continue
        if c2 * Poly.const(2 ** (int(s2) + 4)) != Poly.atom("CUR") * Poly.const(2 ** (s + 4)):
            f_inv.append("szx=%d: (cursor, szx) -> (%r, %d)" % (s, c2, s2))
    ctx.ob("every pass of the size-reduction loop lowers the exponent (it never grows; the loop terminates)", not f_dec, fi, loop, detail="; ".join(f_dec[:4]) or None,
           construct="exponent step of the size-reduction loop in BlockwiseRequest._run")
    ctx.ob("every pass of the size-reduction loop keeps the byte offset cursor * 2^(szx+4) (regular exponents)", not f_inv and not f_dec, fi, loop, detail="; ".join(f_inv[:4]) or None,
           construct="cursor step of the size-reduction loop in BlockwiseRequest._run")
    # c6: final block
    finals = pseudo_asserting(X, N, cfg, lambda a: r.final in a)
    ctx.floor("branches for 'the block just sent was the last one'", len(finals), 1)
    nomore = pseudo_asserting(X, N, cfg, lambda a: ("nottruth", r.resp_more) in a or ("is", r.resp_more, "False") in a)
    cont = None
    for n in ast.walk(r.outer):
        if isinstance(n, (ast.Name, ast.Attribute)) and (chain(n) or "").split(".")[-1] == "CONTINUE":
            q = ctx.prog.resolve_in_module(fi.module, chain(n))
            if q.startswith("aiocoap.numbers"):
                cont = chain(n)
    notcont = set()
    if cont is not None:
        lit = ("ne", norm._signnorm(Poly.atom(r.resp + ".code") - Poly.atom(cont)))
        notcont = pseudo_asserting(X, N, cfg, lambda a: lit in a)
    for fp in sorted(finals):
        ctx.ob("after the final block the transfer only completes if the response's Block1 has no more-flag", cfg.must_pass(fp, nomore), fi, cfg.nodes[fp].ast,
               construct="final-block arm of the Block1 loop [more]")
        ctx.ob("after the final block the transfer only completes if the response code is not 2.31 Continue", bool(notcont) and cfg.must_pass(fp, notcont), fi, cfg.nodes[fp].ast,
               construct="final-block arm of the Block1 loop [code]")


@R.clause("C05.f", "size reduction away from the BERT exponent keeps the byte offset (block numbers count 1024-byte units for szx 7 and for szx 6)")
def f(ctx):
    r = _block1_roles(ctx)
    fi = r.fi
    ctx.need(len(r.red_loops) == 1 and isinstance(r.red_loops[0], ast.While), "_run: size-reduction loop not found")
    loop = r.red_loops[0]
    env = _interp(ctx, loop.body, {r.cursor: Poly.atom("CUR"), r.szx: Poly.const(7)}, "size-reduction loop")
    c2, s2 = env[r.cursor], env[r.szx].const_value()
    valid = s2 is not None and s2.denominator == 1 and 0 <= s2 <= 7
    after = c2 * Poly.const(2 ** unit_exp(int(s2))) if valid else None
    ctx.ob("a pass of the size-reduction loop starting at szx 7 keeps the byte offset cursor * 1024", valid and after == Poly.atom("CUR") * Poly.const(1024), fi, loop,
           detail="(cursor, szx) = (CUR, 7) -> (%r, %r): byte offset %r instead of 1024*CUR" % (c2, env[r.szx], after),
           construct="BERT step of the size-reduction loop in BlockwiseRequest._run")


# ===========================================================================
# C05.d  Block2 assembly
# ===========================================================================


def _text(e):
    return " ".join(ast.unparse(e).split())


@R.clause("C05.d", "_append_response_block: payload-size validity, start == len(payload) and equal ETag are raising guards before the append; the next Block2 request asks for len(payload)//size")
def d(ctx):
    prog = ctx.prog
    fi = prog.func(MSG + "_append_response_block")
    p = params(fi)
    ctx.need(len(p) == 1 and not writes_to_name(fi.node, p[0]), "_append_response_block signature changed")
    nb = p[0]
    cfg = cfg_of(fi)
    X, N = Expander(fi), Normalizer()
    appends = [st for k, st in stores_to(fi.node, "self.payload") if k == "assign"]
    ctx.floor("stores to self.payload in _append_response_block", len(appends), 1)
    valid = ("truth", _text(ast.parse("%s.opt.block2.is_valid_for_payload_size(len(%s.payload))" % (nb, nb), mode="eval").body))
    start = ("eq", norm._signnorm(P("%s.opt.block2.start - len(self.payload)" % nb)))
    etag = ("eq", norm._signnorm(P("%s.opt.etag - self.opt.etag" % nb)))
    guards = (("the block's payload size is valid for its Block2 descriptor", valid, None),
              ("the block's offset equals the number of bytes assembled so far", start, None),
              ("the block's ETag equals the ETag of the first block", etag, "aiocoap.error.ResourceChanged"))
    for st in appends:
        if isinstance(st, ast.AugAssign):
            ok = isinstance(st.op, ast.Add) and chain(st.value) == nb + ".payload"
        else:
            ok = isinstance(st, ast.Assign) and match("self.payload + %s.payload" % nb, st.value) is not None
        ctx.ob("the assembled body grows by exactly the next block's payload", ok, fi, st)
        for text, lit, _cls in guards:
            ctx.ob("append happens only when " + text, holds_at(X, N, fi, st, lit), fi, st, construct="%s  [guard: %s]" % (stmt_text(st), text))
    app_nodes = {cfg.loc1(st) for st in appends}
    for text, lit, cls in guards:
        neg = _neg(lit)
        ps = pseudo_asserting(X, N, cfg, lambda a: neg in a)
        ctx.floor("branches for the negation of '%s'" % text, len(ps), 1)
        for pid_ in sorted(ps):
            region = cfg.reach({pid_}, skip_labels=("exc",))
            raises = [cfg.nodes[n] for n in region if cfg.nodes[n].kind == "raise"]
            classes = [exc_class(prog, fi, n.ast) for n in raises]
            ok = cfg.exit not in region and not (region & app_nodes) and bool(raises)
            if cls is not None:
                ok = ok and all(c is not None and prog.is_subclass(c, cls) for c in classes)
            else:
                ok = ok and all(c is not None and prog.is_subclass(c, "Exception") for c in classes)
            ctx.ob("unless %s the assembly raises%s" % (text, (" " + cls.split(".")[-1]) if cls else ""), ok, fi, cfg.nodes[pid_].ast,
                   detail="raises %s" % classes)

    # next request
    gi = prog.func(MSG + "_generate_next_block2_request")
    gp = params(gi)
    ctx.need(len(gp) == 1 and not writes_to_name(gi.node, gp[0]), "_generate_next_block2_request signature changed")
    resp = gp[0]
    gcfg = cfg_of(gi)

    def pure(call):
        c = chain(call.func) or ""
        return _default_pure(call) or c.split(".")[-1] in ("BlockwiseTuple", "reduced_to") or (isinstance(call.func, ast.Attribute) and call.func.attr == "reduced_to")

    GX = Expander(gi, pure=pure, minmax=False)
    rets = [n for n in walk_no_nested(gi.node) if isinstance(n, ast.Return)]
    ctx.floor("returns of _generate_next_block2_request", len(rets), 1)
    want_num = P("len(%s.payload) // %s.opt.block2.size" % (resp, resp))
    for rt in rets:
        ctx.need(rt.value is not None, "_generate_next_block2_request returns nothing on some path")
        for v, _c in GX.expand(rt.value, gcfg.loc1(rt)):
            b2 = _kw(v, "block2") if isinstance(v, ast.Call) else None
            ctx.need(b2 is not None, "_generate_next_block2_request: returned message has no block2= argument")
            reduced = False
            m = match("$t.reduced_to($x)", b2)
            if m is not None:
                reduced, b2 = True, m["t"]
            elts = b2.elts if isinstance(b2, ast.Tuple) else (b2.args if isinstance(b2, ast.Call) and not b2.keywords else None)
            ctx.need(elts is not None and len(elts) == 3, "_generate_next_block2_request: Block2 value is not a (num, more, szx) triple")
            try:
                got = Normalizer().poly(elts[0])
            except NormError:
                got = None
            ctx.ob("the next Block2 request asks for block len(assembled payload) // size of the last block", got == want_num, gi, rt, detail="asks for %r" % got,
                   construct="%s  [number]" % stmt_text(rt))
            ctx.ob("the next Block2 request uses the size exponent of the last received block (at most reduced by reduced_to)",
                   chain(elts[2]) == "%s.opt.block2.size_exponent" % resp, gi, rt, detail="exponent %s%s" % (_text(elts[2]), " reduced" if reduced else ""),
                   construct="%s  [exponent]" % stmt_text(rt))


# ===========================================================================
# C05.e  error propagation
# ===========================================================================


def _exc_succ(cfg, nid):
    return {d for d, lab in cfg.succ[nid] if lab == "exc"}


def _handler_types(prog, fi, h):
    if h.type is None:
        return ["BaseException"]
    ts = h.type.elts if isinstance(h.type, ast.Tuple) else [h.type]
    out = []
    for t in ts:
        c = chain(t)
        out.append(prog.resolve_in_module(fi.module, c) if c else "?")
    return out


def _catches_exceptions(prog, types):
    """Does a handler with these types catch some subclass of Exception?"""
    for t in types:
        if t in ("BaseException", "Exception") or prog.is_subclass(t, "Exception"):
            return True
        if t == "?":
            return True
    return False


@R.clause("C05.e", "_complete_by_requesting_block2: a first block with number != 0 raises; a body is returned only when no more blocks are announced; assembly errors are re-raised; _run lets them escape and _run_outer hands every Exception to response.set_exception")
def e(ctx):
    prog = ctx.prog
    fi = prog.func(BR + "_complete_by_requesting_block2")
    p = params(fi)
    ctx.need(len(p) == 4, "_complete_by_requesting_block2 signature changed")
    init = p[2]
    ctx.need(not writes_to_name(fi.node, init), "_complete_by_requesting_block2 rebinds the initial response")
    cfg = cfg_of(fi)
    X, N = Expander(fi), Normalizer()
    gens = [n for n, _ in find("$r._generate_next_block2_request($a)", fi.node)]
    ctx.floor("next-block requests in _complete_by_requesting_block2", len(gens), 1)
    zero = ("eq", Poly.atom("%s.opt.block2.block_number" % init))
    for g in gens:
        ctx.ob("further blocks are requested only when the first response carried block number 0", holds_at(X, N, fi, g, zero), fi, g)
    nz = pseudo_asserting(X, N, cfg, lambda a: _neg(zero) in a)
    ctx.floor("branches for a non-zero first block number", len(nz), 1)
    for pid_ in sorted(nz):
        region = cfg.reach({pid_}, skip_labels=("exc",))
        raises = [cfg.nodes[n] for n in region if cfg.nodes[n].kind == "raise"]
        classes = [exc_class(prog, fi, n.ast) for n in raises]
        ctx.ob("a first block with a non-zero number raises UnexpectedBlock2", cfg.exit not in region and bool(raises)
               and all(c is not None and prog.is_subclass(c, "aiocoap.error.UnexpectedBlock2") for c in classes), fi, cfg.nodes[pid_].ast, detail="raises %s" % classes)

    # returns: only when the latest response announces no further block
    def done(a):
        for l in a:
            if l[0] == "is" and l[1].endswith(".opt.block2") and l[2] == "None":
                return True
            if l[0] == "is" and l[1].endswith(".opt.block2.more") and l[2] == "False":
                return True
            if l[0] == "nottruth" and l[1].endswith(".opt.block2.more"):
                return True
        return False

    last = pseudo_asserting(X, N, cfg, done)
    rets = [n for n in walk_no_nested(fi.node) if isinstance(n, ast.Return)]
    ctx.floor("returns of _complete_by_requesting_block2", len(rets), 2)
    for rt in rets:
        rn = cfg.loc1(rt)
        ok = rn not in cfg.reach({cfg.entry}, avoid=last)
        ctx.ob("a response is returned only on a path where a Block2-less response or a cleared more-flag was seen", ok, fi, rt)
    ctx.ob("the function cannot end without an explicit return", cfg.must_pass(cfg.entry, [cfg.loc1(rt) for rt in rets]) and all(rt.value is not None for rt in rets), fi, fi.node,
           construct="_complete_by_requesting_block2")

    # the handler around _append_response_block re-raises
    apps = [n for n, _ in find("$r._append_response_block($a)", fi.node)]
    ctx.floor("_append_response_block call sites", len(apps), 1)
    for ap in apps:
        an = cfg.loc1(ap)
        hs = [h for h in _exc_succ(cfg, an) if cfg.nodes[h].kind == "handler"]
        bad = []
        for h in hs:
            inside = cfg.reach({h}, include_src=True)
            raises = {n for n in inside if cfg.nodes[n].kind == "raise"}
            if not cfg.must_pass(h, raises, to=cfg.exit) or any(g2 in cfg.reach({h}, avoid=raises, skip_labels=("exc",)) for g2 in [cfg.loc1(g) for g in gens]):
                bad.append(h)
        ctx.ob("an error raised while appending a block is not swallowed: every handler around the append re-raises on all paths", not bad, fi, ap,
               detail="%d handler(s), %d swallow" % (len(hs), len(bad)))
        fresh = False
        if len(ap.args) == 1 and isinstance(ap.args[0], ast.Name):
            defs, entry = X.reaching(ap.args[0].id, an)
            fresh = bool(defs) and not entry and all(
                isinstance(st, ast.Assign) and isinstance(st.value, ast.Await) and enclosing_loops(cfg, st, fi.node)[:1] == enclosing_loops(cfg, ap, fi.node)[:1]
                for _wn, st, _v, _b in defs)
        ctx.ob("the block appended is the response awaited in the same round of the loop", fresh, fi, ap, construct="%s  [argument]" % stmt_text(ap))

    # _run: block-wise errors escape
    ri = prog.func(BR + "_run")
    rcfg = cfg_of(ri)
    sites = [n for n in walk_no_nested(ri.node) if isinstance(n, ast.Raise)]
    sites = [n for n in sites if (exc_class(prog, ri, n) or "").startswith("aiocoap.error.")]
    calls = [n for n, _ in find("$c._complete_by_requesting_block2($*a)", ri.node)]
    ctx.floor("protocol-error raise sites in _run", len(sites), 2)
    ctx.floor("_complete_by_requesting_block2 call sites in _run", len(calls), 1)
    for n in sites + calls:
        nid = rcfg.loc1(n)
        srcs = {nid} if rcfg.nodes[nid].kind == "raise" else _exc_succ(rcfg, nid)
        r2 = rcfg.reach(srcs, include_src=True) - ({nid} if rcfg.nodes[nid].kind != "raise" else set())
        ctx.ob("an error raised at this point of _run leaves _run (no handler turns it into a normal completion)", rcfg.exit not in r2 and rcfg.rexit in r2, ri, n)
    sets = [n for n, bb in find("$f.set_result($v)", ri.node) if chain(bb["f"]) in params(ri)]
    ctx.floor("set_result sites in _run", len(sets), 1)
    for srt in sets:
        v = resolve_local(ri.node, srt.args[0])
        ok = isinstance(v, ast.Await) and any(v.value is c for c in calls)
        ctx.ob("the result handed to the caller is the body assembled by _complete_by_requesting_block2", ok, ri, srt)

    # _run_outer
    oi = prog.func(BR + "_run_outer")
    op = params(oi)
    ocfg = cfg_of(oi)
    runs = [n for n, _ in find("$c._run($*a)", oi.node)]
    ctx.floor("calls of _run in _run_outer", len(runs), 1)
    for rc in runs:
        rn = ocfg.loc1(rc)
        ctx.need(len(rc.args) >= 2 and isinstance(rc.args[1], ast.Name) and rc.args[1].id in op, "_run_outer: the response future is not passed through to _run")
        fut = rc.args[1].id
        tries = [t for t in walk_no_nested(oi.node) if isinstance(t, ast.Try) and any(contains(s, rc) for s in t.body)]
        ctx.ob("_run is awaited inside a try statement", bool(tries), oi, rc, construct="%s  [try]" % stmt_text(rc))
        seen_exc = False
        for t in tries:
            for h in t.handlers:
                types = _handler_types(prog, oi, h)
                if not _catches_exceptions(prog, types):
                    continue
                covers_all = any(x in ("Exception", "BaseException") for x in types)
                hn = [i for i in ocfg.locate(h) if ocfg.nodes[i].kind == "handler"]
                ctx.need(hn, "_run_outer: handler has no CFG node")
                setx = {ocfg.loc1(n) for n, _ in find("%s.set_exception(%s)" % (fut, h.name), h)} if h.name else set()
                donep = set()
                for pz in pseudo_nodes(ocfg):
                    if match("%s.done()" % fut, pz.ast) is not None and pz.kind == "T" and any(contains(s, pz.ast) for s in h.body):
                        donep.add(pz.id)
                ok = bool(setx) and ocfg.must_pass(hn[0], setx | donep)
                ctx.ob("an exception caught from _run is stored in the response future unless the future is already done", ok, oi, h,
                       construct="except %s" % ", ".join(types))
                for sx in setx:
                    ctx.ob("set_exception is attempted only on a future that is not done",
                           holds_at(Expander(oi), Normalizer(), oi, ocfg.nodes[sx].ast, ("nottruth", "%s.done()" % fut)), oi, ocfg.nodes[sx].ast)
                if covers_all:
                    seen_exc = True
                    break
            ctx.ob("every Exception escaping _run is caught in _run_outer", seen_exc, oi, t, construct="try around %s" % stmt_text(rc))


# ---------------------------------------------------------------------------
# seeded faults (sensitivity self-test)
F_MSG = "aiocoap/message.py"
F_OPT = "aiocoap/optiontypes.py"
# every Max-Message-Size up to 3300, then the neighbourhood (+-1, +-28, +-100, +-128) of every multiple of 1024 up to 70000 and the 32-bit extremes
MMS_DOMAIN = sorted(set(range(1, 3301)) | {k * 1024 + d for k in range(3, 69) for d in (-129, -128, -127, -101, -100, -99, -29, -28, -27, -1, 0, 1, 27, 28, 29, 99, 100, 101, 127, 128, 129)} | {2 ** 31 - 1, 2 ** 32 - 1})


def _run_settings_property(fi, mms, blockwise, csm_seen=True):
    """Evaluate a property of RFC8323Remote whose body consists of assignments, ifs and returns over
    (self._remote_settings or {}).get(<key>, <default>) in the checker's own evaluator."""
    env = {}

    def ev(e):
        g = match("(self._remote_settings or {}).get($k, $d)", e) or match("self._remote_settings.get($k, $d)", e)
        if g is not None and isinstance(g["k"], ast.Constant):
            if not csm_seen:
                return norm.consteval(g["d"], env)
            return {"max-message-size": mms, "block-wise-transfer": blockwise}.get(g["k"].value, norm.consteval(g["d"], env))
        if match("self._remote_settings is None", e) is not None:
            return not csm_seen
        if match("self._remote_settings is not None", e) is not None:
            return csm_seen
        if isinstance(e, ast.BoolOp):
            vals = [ev(v) for v in e.values]
            return all(vals) if isinstance(e.op, ast.And) else any(vals)
        if isinstance(e, ast.UnaryOp) and isinstance(e.op, ast.Not):
            return not ev(e.operand)
        return norm.consteval(e, env)

    def run(stmts):
        for st in stmts:
            if isinstance(st, ast.Expr) and isinstance(st.value, ast.Constant):
                continue
            if isinstance(st, ast.Assign) and len(st.targets) == 1 and isinstance(st.targets[0], ast.Name):
                env[st.targets[0].id] = ev(st.value)
            elif isinstance(st, ast.If):
                r = run(st.body if ev(st.test) else st.orelse)
                if r is not None:
                    return r
            elif isinstance(st, ast.Return):
                return ("ret", ev(st.value))
            else:
                raise AnalysisError("%s: statement outside the evaluator's vocabulary: %s" % (fi.short, stmt_text(st, 60)))
        return None

    r = run(fi.node.body)
    if r is None:
        raise AnalysisError("%s does not return" % fi.short)
    return r[1]


@R.clause("C05.g", "BERT on reliable transports: whenever the peer's settings allow size exponent 7, the announced payload size holds at least one 1024-byte unit and the resulting message fits the peer's Max-Message-Size")
def g_bert_sizes(ctx):
    """Added after an independently written breaking change rewrote RFC8323Remote.maximum_payload_size so that for
    a Max-Message-Size between 1153 and 2047 it fell below 1024 while maximum_block_size_exp stayed 7: _extract_block's
    BERT size 1024*(max//1024) became 0 and the client sent empty non-final blocks for ever.  Both properties are
    evaluated by the checker's own evaluator for every Max-Message-Size in MMS_DOMAIN (all values to 3300, the
    neighbourhood of every multiple of 1024 to 70000; block-wise announced or not, CSM seen or not)."""
    try:
        ex = ctx.prog.cls("transports.rfc8323common.RFC8323Remote").methods["maximum_block_size_exp"]
        pl = ctx.prog.cls("transports.rfc8323common.RFC8323Remote").methods["maximum_payload_size"]
    except KeyError:
        raise AnalysisError("RFC8323Remote.maximum_block_size_exp / maximum_payload_size missing")
    bad_unit = bad_fit = None
    n = 0
    for csm in (False, True):
        for bw in (False, True):
            for mms in (MMS_DOMAIN if csm else [1152]):
                try:
                    e = _run_settings_property(ex, mms, bw, csm)
                    p = _run_settings_property(pl, mms, bw, csm)
                except NormError as x:
                    raise AnalysisError("RFC8323Remote size properties outside the evaluator's vocabulary: %s" % x)
                n += 1
                if e == 7 and p // 1024 < 1 and bad_unit is None:
                    bad_unit = (mms, bw, csm, e, p)
                if csm and bw and e == 7 and 1024 * (p // 1024) + 128 > mms and bad_fit is None and mms > 1152:
                    bad_fit = (mms, bw, csm, e, p)
                if e not in (6, 7) and bad_unit is None:
                    bad_unit = (mms, bw, csm, e, p)
    ctx.extra["bert_size_evaluations"] = n
    ctx.ob("with size exponent 7 the payload size holds at least one 1024-byte BERT unit", bad_unit is None, pl, pl.node, construct="RFC8323Remote.maximum_payload_size: BERT unit",
           detail="Max-Message-Size %s (block-wise %s, CSM seen %s): exponent %s but payload size %s" % bad_unit if bad_unit else "%d settings evaluated" % n)
    ctx.ob("a full BERT block plus 128 bytes of header/options fits the peer's Max-Message-Size", bad_fit is None, pl, pl.node, construct="RFC8323Remote.maximum_payload_size: fit",
           detail="Max-Message-Size %s: BERT block of %s bytes" % (bad_fit[0], 1024 * (bad_fit[4] // 1024)) if bad_fit else None)


F_PRO = "aiocoap/protocol.py"

R.seed("C05.a", F_MSG, "more = True if end < len(self.payload) else False", "more = True if end <= len(self.payload) else False", "more flag on the final block")
R.seed("C05.a", F_MSG, "size = 2 ** (size_exp + 4)", "size = 2 ** (size_exp + 3)", "half-size blocks")
R.seed("C05.a", F_MSG, "            start = number * size\n", "            start = (number + 1) * size\n", "offset off by one block")
R.seed("C05.a", F_MSG, "if start >= len(self.payload):", "if start > len(self.payload):", "empty block past the end instead of an error")
R.seed("C05.a", F_MSG, "end = start + size if start + size < len(self.payload) else len(self.payload)", "end = start + size if start + size > len(self.payload) else len(self.payload)", "max instead of min")
R.seed("C05.a", F_MSG, "blockopt = (number, more, size_exp)", "blockopt = (number, more, 6)", "descriptor does not carry the exponent used")
R.seed("C05.a", F_MSG, "            start = number * 1024\n", "            start = number * size_exp\n", "BERT offset unit")
R.seed("C05.a", F_MSG, "return self.copy(payload=payload, mid=None, block1=blockopt)", "return self.copy(payload=payload, mid=None, block2=blockopt)", "request block described in Block2")
R.seed("C05.b", F_OPT, "return 2 ** (min(self.size_exponent, 6) + 4)", "return 2 ** (self.size_exponent + 4)", "BERT size 2048")
R.seed("C05.b", F_OPT, "return payloadsize == self.size", "return payloadsize <= self.size", "short non-final block accepted")
R.seed("C05.b", F_OPT, "return payloadsize <= self.size", "return payloadsize < self.size", "full final block rejected")
R.seed("C05.b", F_OPT, "min(self.size_exponent, 6) - maximum_exponent", "self.size_exponent - maximum_exponent", "reduction from BERT doubles the offset")
R.seed("C05.b", F_OPT, "return type(self)(increasednumber, self.more, maximum_exponent)", "return type(self)(increasednumber, self.more, self.size_exponent)", "exponent not reduced")
R.seed("C05.b", F_OPT, "if maximum_exponent >= self.size_exponent:", "if maximum_exponent >= 0:", "never reduces")
R.seed("C05.b", F_OPT, "return self.block_number * self.size", "return (self.block_number + 1) * self.size")
R.seed("C05.c", F_PRO, "                block_cursor *= 2\n", "                pass\n", "cursor not rescaled on size reduction")
R.seed("C05.c", F_PRO, "                size_exp -= 1\n", "                size_exp += 1\n", "exponent grows")
R.seed("C05.c", F_PRO, "                block_cursor += 1\n", "                block_cursor += 2\n", "skips a block")
R.seed("C05.c", F_PRO, '                raise error.UnexpectedBlock1Option("Block number mismatch")', '                log.warning("Block number mismatch")', "mismatch tolerated")
R.seed("C05.c", F_PRO, "if block1.block_number != current_block1.opt.block1.block_number:", "if block1.block_number > current_block1.opt.block1.block_number:", "only larger numbers rejected")
R.seed("C05.c", F_PRO, "                if block1.more or blockresponse.code == CONTINUE:", "                if blockresponse.code == CONTINUE:", "more flag on the final acknowledgement accepted")
R.seed("C05.c", F_PRO, "                if block1.more or blockresponse.code == CONTINUE:", "                if block1.more:", "2.31 on the final block accepted")
R.seed("C05.c", F_PRO, "while block1.size_exponent < size_exp:", "while block1.size_exponent <= size_exp:", "reduces below what the server asked for")
R.seed("C05.c", F_PRO, "block_cursor += len(current_block1.payload) // 1024", "block_cursor += 1", "BERT message of several KiB counted as one block")
R.seed("C05.d", F_MSG, "        if next_block.opt.etag != self.opt.etag:\n            raise error.ResourceChanged()\n", "", "ETag guard deleted: mixed body")
R.seed("C05.d", F_MSG, "if block2.start != len(self.payload):", "if block2.start > len(self.payload):", "overlapping block appended twice")
R.seed("C05.d", F_MSG, "        if not block2.is_valid_for_payload_size(len(next_block.payload)):\n            raise error.UnexpectedBlock2(\"Payload size does not match Block2\")\n", "", "short block accepted")
R.seed("C05.d", F_MSG, "            raise error.ResourceChanged()", "            return", "changed representation silently skipped")
R.seed("C05.d", F_MSG, "next_after_received = len(response.payload) // response.opt.block2.size", "next_after_received = len(response.payload) // response.opt.block2.size + 1", "asks for the block after next")
R.seed("C05.d", F_MSG, "next_after_received, False, response.opt.block2.size_exponent", "next_after_received, False, 6", "exponent grows back to 6")
R.seed("C05.e", F_PRO, "                log.error(\"Error assembling blockwise response, passing on error %r\", e)\n                raise\n", "                log.error(\"Error assembling blockwise response, passing on error %r\", e)\n", "assembly error swallowed")
R.seed("C05.e", F_PRO, "            raise error.UnexpectedBlock2()\n", "            pass\n", "transfer starting in the middle accepted")
R.seed("C05.e", F_PRO, "            if block2.more is False:\n                return assembled_response", "            if block2.more is not False:\n                return assembled_response", "truncated body returned")
R.seed("C05.e", F_PRO, "                logged = True\n                response.set_exception(e)\n", "                logged = True\n", "error never reaches the caller")
R.seed("C05.e", F_PRO, "        except Exception as e:\n            logged = False", "        except error.Error as e:\n            logged = False", "non-aiocoap exceptions lost")
R.seed("C05.f", F_PRO, "                block_cursor *= 2\n", "                block_cursor *= 4\n", "masked while the BERT step is refuted on the analysed tree")

R.seed("C05.g", "aiocoap/transports/rfc8323common.py", "            return ((max_message_size - 128) // 1024) * 1024 + slack", "            return (max_message_size // 1024) * 1024 - 128 + slack", "payload size below 1024 for Max-Message-Size 1153..2047 while the exponent stays 7: empty BERT blocks for ever")
