"""C03 Confirmable messages: bounded exponential back-off that always terminates."""

import ast
from fractions import Fraction

from ..rulekit import *
from ..norm import Normalizer, Poly

R = Rules(
    "C03",
    explanation=(
        "Structural clauses of the retransmission machinery decided on the syntax trees of "
        "messagemanager.py, numbers/constants.py and error.py: which expression feeds the initial "
        "timer (normal form equal to uniform(ACK_TIMEOUT, ACK_TIMEOUT*ACK_RANDOM_FACTOR)), that the "
        "only transmission in _retransmit is guarded by counter < MAX_RETRANSMIT and is followed by a "
        "re-arm with (same message, 2*timeout, counter+1), that the give-up arm re-arms nothing and "
        "reports a timeout-class NetworkError for the message's remote, that the exchange key is "
        "(remote, mid) at all three sites, that ACK/RST cancel the stored timer and only RST fires the "
        "error monitor, that the message object is not modified between copies, and that the derived "
        "TransportTuning spans equal the RFC 7252 section 4.8.2 formulas.  Paper step: with these "
        "premises at most 1+MAX_RETRANSMIT transmissions occur with gaps t0*2^i and the give-up fires "
        "t0*(2^(N+1)-1) <= MAX_TRANSMIT_WAIT after the first copy.  Wall-clock behaviour is not decided."
    ),
    rule_text="dominance/guard rules on per-function CFGs, polynomial normal forms compared with reference expressions, class-hierarchy facts",
)

MM = "messagemanager.MessageManager."
TUNING = {"ACK_TIMEOUT", "ACK_RANDOM_FACTOR", "MAX_RETRANSMIT", "MAX_TRANSMIT_SPAN", "MAX_TRANSMIT_WAIT",
          "MAX_LATENCY", "PROCESSING_DELAY", "MAX_RTT", "EXCHANGE_LIFETIME", "EMPTY_ACK_DELAY", "NSTART",
          "OBSERVATION_RESET_TIME", "DEFAULT_LEISURE", "REQUEST_TIMEOUT"}
WIRE_ATTRS = {"mtype", "mid", "code", "token", "payload", "version", "remote", "opt", "_mtype", "_mid", "_token"}


def _msgparam(fi):
    p = params(fi)
    if not p:
        raise AnalysisError("%s has no message parameter" % fi.short)
    return p[0]


def _is_param_unmodified(fi, name):
    return not writes_to_name(fi.node, name)


@R.clause("C03.a", "initial timeout is uniform(ACK_TIMEOUT, ACK_TIMEOUT*ACK_RANDOM_FACTOR) of the message's tuning; first schedule uses counter 0")
def a(ctx):
    fi = ctx.prog.func(MM + "_add_exchange")
    m = _msgparam(fi)
    calls = list(find("self._schedule_retransmit($*args)", fi.node))
    ctx.floor("calls of _schedule_retransmit in _add_exchange", len(calls), 1)
    for call, b in calls:
        args = b["args"]
        ok_shape = len(args) == 3 and not call.keywords
        ctx.need(ok_shape, "_schedule_retransmit call with unexpected arity")
        ctx.ob("scheduled message is the message being added", isinstance(args[0], ast.Name) and args[0].id == m and _is_param_unmodified(fi, m), fi, call)
        N = Normalizer()
        ctx.ob("first retransmission counter is 0", N.poly(args[2]) == Poly.const(0), fi, call, detail="counter argument: %s" % ast.unparse(args[2]))
        t = resolve_local(fi.node, args[1])
        mb = match("random.uniform($lo, $hi)", t)
        if mb is None:
            ctx.ob("initial timeout is drawn by random.uniform(lo, hi)", False, fi, call, detail="timeout argument resolves to %s" % stmt_text(t))
            continue
        T = Poly.atom("%s.transport_tuning.ACK_TIMEOUT" % m)
        F = Poly.atom("%s.transport_tuning.ACK_RANDOM_FACTOR" % m)
        env = norm.local_env(fi.node)
        N = Normalizer(env=env)
        lo, hi = N.poly(mb["lo"]), N.poly(mb["hi"])
        ctx.ob("lower bound of the initial timeout is ACK_TIMEOUT of the message's transport tuning", lo == T, fi, t, detail="lo = %r" % lo)
        ctx.ob("upper bound of the initial timeout is ACK_TIMEOUT*ACK_RANDOM_FACTOR of the message's transport tuning", hi == T * F, fi, t, detail="hi = %r" % hi)

    # _schedule_retransmit arms call_later(timeout, cb) where cb calls _retransmit(message, timeout, counter)
    sf = ctx.prog.func(MM + "_schedule_retransmit")
    sp = params(sf)
    ctx.need(len(sp) == 3, "_schedule_retransmit signature changed")
    cl = list(find("self.loop.call_later($d, $cb, $*rest)", sf.node))
    ctx.floor("call_later in _schedule_retransmit", len(cl), 1)
    for call, b in cl:
        N = Normalizer(env=norm.local_env(sf.node))
        ctx.ob("timer delay is exactly the timeout parameter", N.poly(b["d"]) == Poly.atom(sp[1]) and _is_param_unmodified(sf, sp[1]), sf, call, detail="delay = %s" % ast.unparse(b["d"]))
        ok, why = _callback_calls_retransmit(ctx, sf, b["cb"], b["rest"], sp)
        ctx.ob("timer callback invokes _retransmit(message, timeout, counter) with the scheduled values", ok, sf, call, detail=why)
        # the handle must be returned
        ret = [n for n in walk_no_nested(sf.node) if isinstance(n, ast.Return)]
        returned = any(r.value is not None and (r.value is call or (isinstance(r.value, ast.Name) and resolve_local(sf.node, r.value) is call)) for r in ret)
        ctx.ob("_schedule_retransmit returns the timer handle", returned, sf, call)


def _callback_calls_retransmit(ctx, sf, cb, rest, sp):
    """cb is a nested def / lambda / functools.partial(self._retransmit, ...)"""
    def binds_to_outer(fnode, name, outer):
        # default-argument capture `x=x` or closure use
        a = fnode.args
        allargs = a.posonlyargs + a.args
        defaults = [None] * (len(allargs) - len(a.defaults)) + list(a.defaults)
        for arg, d in zip(allargs, defaults):
            if arg.arg == name:
                return d is not None and isinstance(d, ast.Name) and d.id == outer
        for arg, d in zip(a.kwonlyargs, a.kw_defaults):
            if arg.arg == name:
                return d is not None and isinstance(d, ast.Name) and d.id == outer
        # closure
        return name == outer and not writes_to_name(fnode, name)

    pb = match("functools.partial(self._retransmit, $*a)", cb)
    if pb is not None:
        a = list(pb["a"]) + list(rest)
        ok = len(a) == 3 and all(isinstance(x, ast.Name) and x.id == p for x, p in zip(a, sp))
        return ok, "partial args %s" % [ast.unparse(x) for x in a]
    if match("self._retransmit", cb) is not None:
        a = list(rest)
        ok = len(a) == 3 and all(isinstance(x, ast.Name) and x.id == p for x, p in zip(a, sp))
        return ok, "call_later args %s" % [ast.unparse(x) for x in a]
    fnode = None
    if isinstance(cb, ast.Lambda):
        fnode = cb
    elif isinstance(cb, ast.Name):
        for n in walk_no_nested(sf.node):
            if isinstance(n, ast.FunctionDef) and n.name == cb.id:
                fnode = n
    if fnode is None:
        return False, "callback %s is not a nested def, lambda or partial" % ast.unparse(cb)
    calls = [c for c in ast.walk(fnode) if isinstance(c, ast.Call) and isinstance(c.func, ast.Attribute) and c.func.attr == "_retransmit"]
    if len(calls) != 1:
        return False, "%d _retransmit calls in callback" % len(calls)
    c = calls[0]
    if len(c.args) != 3 or c.keywords:
        return False, "arity"
    for x, p in zip(c.args, sp):
        if not (isinstance(x, ast.Name) and binds_to_outer(fnode, x.id, p)):
            return False, "argument %s is not the scheduled %s" % (ast.unparse(x), p)
    return True, "callback passes (%s)" % ", ".join(sp)


def _retransmit_parts(ctx):
    fi = ctx.prog.func(MM + "_retransmit")
    p = params(fi)
    ctx.need(len(p) == 3, "_retransmit signature changed")
    cfg = cfg_of(fi)
    return fi, p, cfg


def _guard_is_counter_lt_max(cfg, nid, p):
    """Is nid dominated by (counter - MAX_RETRANSMIT < 0) being true?"""
    m, t, c = p
    N = Normalizer()
    want = ("lt", Poly.atom(c) - Poly.atom("%s.transport_tuning.MAX_RETRANSMIT" % m))
    facts = cmp_guard_nf(cfg, nid, N)
    return want in facts, facts


@R.clause("C03.b", "_retransmit: one guarded transmission of the unmodified message, re-arm with (message, 2*timeout, counter+1), nothing re-armed on give-up")
def b(ctx):
    fi, p, cfg = _retransmit_parts(ctx)
    m, t, c = p
    sends = list(find("self._send_via_transport($*a)", fi.node))
    ctx.floor("transmissions in _retransmit", len(sends), 1)
    ctx.ob("exactly one transmission site in _retransmit", len(sends) == 1, fi, sends[-1][0], detail="%d sites" % len(sends))
    for call, bnd in sends:
        nid = cfg.loc1(call)
        ok, facts = _guard_is_counter_lt_max(cfg, nid, p)
        # the counter tested must be the incoming one: no write to it may precede the test
        cval = value_at(fi, c, nid)
        ctx.ob("transmission is guarded by retransmission_counter < MAX_RETRANSMIT of the message's tuning", ok and cval == Poly.atom(c), fi, call,
               detail="guards: %s; counter value at send: %r" % (sorted(map(repr, facts)), cval))
        a = bnd["a"]
        ctx.ob("the retransmitted object is the message parameter itself (byte-identical copy)", len(a) == 1 and isinstance(a[0], ast.Name) and a[0].id == m and _is_param_unmodified(fi, m), fi, call)
        ctx.ob("the transmission is not inside a loop", nid not in cfg.reach({nid}), fi, call)
    rearms = list(find("self._schedule_retransmit($*a)", fi.node)) + list(find("self.loop.call_later($*a)", fi.node))
    ctx.floor("re-arm sites in _retransmit", len(rearms), 1)
    ctx.ob("exactly one re-arm site", len(rearms) == 1, fi, rearms[-1][0], detail="%d sites" % len(rearms))
    for call, bnd in rearms:
        nid = cfg.loc1(call)
        ok, facts = _guard_is_counter_lt_max(cfg, nid, p)
        ctx.ob("re-arm happens only while counter < MAX_RETRANSMIT (the give-up arm re-arms nothing)", ok, fi, call, detail="guards: %s" % sorted(map(repr, facts)))
        a = bnd["a"]
        if call_name(call) != "self._schedule_retransmit" or len(a) != 3:
            ctx.ob("re-arm goes through _schedule_retransmit(message, timeout, counter)", False, fi, call)
            continue
        ctx.ob("re-armed message is the same object", isinstance(a[0], ast.Name) and a[0].id == m and _is_param_unmodified(fi, m), fi, call)
        tv = _arg_value(fi, a[1], nid)
        cv = _arg_value(fi, a[2], nid)
        ctx.ob("next timeout is exactly twice the previous one", tv == Poly.const(2) * Poly.atom(t), fi, call, detail="timeout passed = %r" % tv)
        ctx.ob("retransmission counter advances by exactly one", cv == Poly.atom(c) + Poly.const(1), fi, call, detail="counter passed = %r" % cv)
        # a send must precede every re-arm
        send_nodes = {cfg.loc1(s) for s, _ in sends}
        ctx.ob("every re-arm is preceded by a transmission", any(cfg.dominates(s, nid) for s in send_nodes), fi, call)
        # the handle is stored back under the same key
        stored = False
        for kind, st in stores_to(fi.node, "self._active_exchanges"):
            if kind == "setitem" and isinstance(st, ast.Assign) and isinstance(st.value, ast.Tuple) and len(st.value.elts) == 2:
                h = st.value.elts[1]
                if (h is call) or (isinstance(h, ast.Name) and resolve_local_at(fi, h, call)):
                    stored = True
        ctx.ob("the new timer handle is stored in _active_exchanges", stored, fi, call)


def resolve_local_at(fi, name_node, call):
    for w in writes_to_name(fi.node, name_node.id):
        if isinstance(w, ast.Assign) and w.value is call:
            return True
    return False


def _arg_value(fi, arg, nid):
    """Polynomial value of a call argument, composing dominating writes of the
    locals it mentions."""
    penv = {}
    for nm in names_in(arg):
        v = value_at(fi, nm, nid)
        if v is None:
            return None
        penv[nm] = v
    try:
        return Normalizer(penv=penv).poly(arg)
    except norm.NormError:
        return None


@R.clause("C03.c", "no wire-relevant attribute of the message is written in the retransmission functions")
def c(ctx):
    n = 0
    for name in ("_add_exchange", "_schedule_retransmit", "_retransmit", "_send_via_transport"):
        fi = ctx.prog.func(MM + name)
        m = _msgparam(fi)
        bad = []
        for node in ast.walk(fi.node):
            tgts = []
            if isinstance(node, ast.Assign):
                tgts = node.targets
            elif isinstance(node, (ast.AugAssign, ast.AnnAssign)):
                tgts = [node.target]
            elif isinstance(node, ast.Delete):
                tgts = node.targets
            for t in tgts:
                for tt in (t.elts if isinstance(t, (ast.Tuple, ast.List)) else [t]):
                    base = tt
                    while isinstance(base, ast.Subscript):
                        base = base.value
                    ch = chain(base)
                    if ch and ch.split(".")[0] == m and len(ch.split(".")) > 1 and ch.split(".")[1] in WIRE_ATTRS:
                        bad.append(node)
            if isinstance(node, ast.Call):
                cn = call_name(node) or ""
                parts = cn.split(".")
                if parts[0] == m and len(parts) >= 2 and parts[-1] in ("set_request_uri", "add_option", "delete_option", "clear", "append"):
                    bad.append(node)
        n += 1
        ctx.ob("%s does not modify the message's wire-relevant attributes" % name, not bad, fi, bad[0] if bad else fi.node,
               construct=stmt_text(bad[0]) if bad else name)
    ctx.floor("retransmission functions inspected", n, 4)


def _key_is_remote_mid(fi, e, m):
    e = resolve_local(fi.node, e)
    b = match("($a, $b)", e)
    return b is not None and chain(b["a"]) == m + ".remote" and chain(b["b"]) == m + ".mid"


def _exchange_key_uses(fi):
    """All key expressions used with self._active_exchanges in fi."""
    keys = []
    for n in ast.walk(fi.node):
        if isinstance(n, ast.Subscript) and chain(n.value) == "self._active_exchanges":
            keys.append((n, n.slice))
        elif isinstance(n, ast.Call) and isinstance(n.func, ast.Attribute) and chain(n.func.value) == "self._active_exchanges" and n.func.attr in ("pop", "get", "setdefault") and n.args:
            keys.append((n, n.args[0]))
        elif isinstance(n, ast.Compare) and len(n.ops) == 1 and isinstance(n.ops[0], (ast.In, ast.NotIn)) and chain(n.comparators[0]) == "self._active_exchanges":
            keys.append((n, n.left))
    return keys


def retransmit_removes_exchange(ctx):
    """In _retransmit every path first takes the exchange out of _active_exchanges (the retransmission arm puts
    the fresh handle back, the give-up arm leaves the remote without an exchange)."""
    fi = ctx.prog.func(MM + "_retransmit")
    cfg = cfg_of(fi)
    rem = [cfg.loc1(n) for k, n in stores_to(fi.node, "self._active_exchanges", nested=False) if k in ("pop", "delitem")]
    ctx.ob("when the retransmission timer fires the exchange is taken out of _active_exchanges on every path (a timed-out exchange does not stay 'active')",
           bool(rem) and cfg.must_pass(cfg.entry, rem), fi, fi.node, construct="_retransmit: removal of the fired exchange",
           detail="%d removal site(s)" % len(rem))


@R.clause("C03.d", "exchange key is (remote, mid) at insertion, retransmission and removal; ACK/RST cancel the stored timer; only RST fires the monitor")
def d(ctx):
    total = 0
    for name in ("_add_exchange", "_retransmit", "_remove_exchange"):
        fi = ctx.prog.func(MM + name)
        m = _msgparam(fi)
        uses = _exchange_key_uses(fi)
        ctx.floor("uses of _active_exchanges in %s" % name, len(uses), 1)
        for node, key in uses:
            total += 1
            ctx.ob("%s addresses _active_exchanges by (message.remote, message.mid)" % name, _key_is_remote_mid(fi, key, m), fi, node,
                   detail="key = %s" % stmt_text(resolve_local(fi.node, key)))
    ctx.floor("key uses over the three functions", total, 5)

    retransmit_removes_exchange(ctx)
    # _add_exchange stores (monitor parameter, handle from _schedule_retransmit)
    fi = ctx.prog.func(MM + "_add_exchange")
    p = params(fi)
    st = [s for k, s in stores_to(fi.node, "self._active_exchanges") if k == "setitem"]
    ctx.floor("insertions into _active_exchanges in _add_exchange", len(st), 1)
    for s in st:
        v = s.value if isinstance(s, ast.Assign) else None
        ok = isinstance(v, ast.Tuple) and len(v.elts) == 2 and isinstance(v.elts[0], ast.Name) and v.elts[0].id == p[1]
        h = resolve_local(fi.node, v.elts[1]) if ok else None
        ok = ok and match("self._schedule_retransmit($*a)", h) is not None
        ctx.ob("the stored exchange is (error monitor, handle of the scheduled retransmission)", ok, fi, s)

    # _remove_exchange
    fi = ctx.prog.func(MM + "_remove_exchange")
    m = _msgparam(fi)
    cfg = cfg_of(fi)
    pops = [(k, n) for k, n in stores_to(fi.node, "self._active_exchanges") if k in ("pop", "delitem")]
    ctx.floor("removals in _remove_exchange", len(pops), 1)
    for kind, pop in pops:
        nid = cfg.loc1(pop)
        key = pop.args[0] if kind == "pop" else None
        guarded = guarded_by(cfg, nid, "$k in self._active_exchanges", True)
        ctx.ob("an ACK/RST that matches no exchange changes nothing (removal is guarded by key membership)", guarded, fi, pop)
        # find the names bound from the pop
        stmt = cfg.nodes[nid].ast
        mon = han = None
        if isinstance(stmt, ast.Assign) and isinstance(stmt.targets[0], (ast.Tuple, ast.List)) and len(stmt.targets[0].elts) == 2:
            mon, han = [e.id if isinstance(e, ast.Name) else None for e in stmt.targets[0].elts]
        ctx.need(mon and han, "_remove_exchange: popped exchange is not unpacked into (monitor, handle)")
        cancels = [cfg.loc1(n) for n, _ in find("%s.cancel()" % han, fi.node)]
        ctx.ob("the stored retransmission timer is cancelled on every normal path after the removal", bool(cancels) and cfg.must_pass(nid, cancels), fi, pop,
               detail="%d cancel site(s)" % len(cancels))
        mcalls = [n for n, _ in find("%s()" % mon, fi.node)]
        ok_exists = bool(mcalls)
        ctx.ob("a Reset fires the error monitor of the exchange", ok_exists, fi, pop, detail="no call of the popped monitor" if not ok_exists else None)
        for mc in mcalls:
            mn = cfg.loc1(mc)
            alive, others = mtype_values(guard_exprs(cfg, mn), "%s.mtype" % m, ("CON", "NON", "ACK", "RST"))
            ctx.ob("the error monitor is fired only for a Reset", alive == {"RST"}, fi, mc, detail="fires for mtype in %s" % sorted(alive))
        # RST path must reach the monitor: from the pop, avoiding monitor calls, along edges where mtype is RST ... approximated:
        # every monitor call is guarded by exactly the RST test and the membership test, nothing else
        for mc in mcalls:
            mn = cfg.loc1(mc)
            alive, others = mtype_values(guard_exprs(cfg, mn), "%s.mtype" % m, ("CON", "NON", "ACK", "RST"))
            extra = [e for e, pol in others if match("$k in self._active_exchanges", e) is None and match("$k not in self._active_exchanges", e) is None]
            ctx.ob("no further condition suppresses the monitor on a matching Reset", not extra, fi, mc, detail="; ".join(stmt_text(e) for e in extra))


@R.clause("C03.e", "dispatch_message removes the exchange exactly for incoming ACK and RST")
def e(ctx):
    fi = ctx.prog.func(MM + "dispatch_message")
    m = _msgparam(fi)
    cfg = cfg_of(fi)
    calls = list(find("self._remove_exchange($x)", fi.node))
    ctx.floor("_remove_exchange call sites in dispatch_message", len(calls), 1)
    union = set()
    for call, b in calls:
        nid = cfg.loc1(call)
        alive, others = mtype_values(guard_exprs(cfg, nid), "%s.mtype" % m, ("CON", "NON", "ACK", "RST"))
        extra = [stmt_text(e) for e, pol in others if "_deduplicate_message" not in stmt_text(e) and "is_request" not in stmt_text(e)]
        ctx.ob("exchange removal is passed the incoming message", isinstance(b["x"], ast.Name) and b["x"].id == m, fi, call)
        ctx.ob("exchange removal is not restricted by conditions other than the message type", not extra, fi, call, detail="; ".join(extra))
        if not extra:
            union |= alive
    ctx.ob("exchange removal happens exactly for ACK and RST", union == {"ACK", "RST"}, fi, calls[0][0], detail="removal for mtype in %s" % sorted(union))
    # no earlier filter swallows the ACK/RST: evaluate dispatch_message for every (type, boundary code) with the
    # duplicate filter reporting a hit wherever it is consulted -- an ACK or RST must still reach _remove_exchange
    # unless it carries a request code (those are de-duplicated by design, C04)
    from . import c10
    from ..absdom import Interp, Sym, code_predicates, rfc_class
    preds = code_predicates(ctx.prog)
    swallowed = []
    for mtype in ("ACK", "RST"):
        for code in c10.CODES:
            if rfc_class(code) == "request":
                continue
            env = {m + ".mtype": Sym(mtype), m + ".code": code, m + ".remote.is_multicast_locally": False, m + ".remote.is_multicast": False}
            it = Interp(fi, env, [("self._deduplicate_message($x)", True), ("self._process_response($x)", False)], preds, c10.CONSTS, c10.dispatch_effect(fi, m))
            it.run()
            if "remove_exchange" not in it.trace:
                swallowed.append((mtype, code, list(it.trace)))
    ctx.ob("every incoming ACK/RST that is not a request reaches the exchange removal (no earlier filter drops it)", not swallowed, fi, calls[0][0],
           construct="dispatch_message: ACK/RST path to _remove_exchange", detail="e.g. %s" % (swallowed[:2],) if swallowed else None)


@R.clause("C03.f", "the give-up arm fails the remote's requests with a timeout-class NetworkError")
def f(ctx):
    fi, p, cfg = _retransmit_parts(ctx)
    m, t, c = p
    calls = list(find("self.token_manager.dispatch_error($e, $r)", fi.node))
    ctx.floor("dispatch_error sites in _retransmit", len(calls), 1)
    N = Normalizer()
    want = ("lt", Poly.atom(c) - Poly.atom("%s.transport_tuning.MAX_RETRANSMIT" % m))
    giveup_nodes = []
    for call, b in calls:
        nid = cfg.loc1(call)
        facts = cmp_guard_nf(cfg, nid, N)
        in_giveup = N.negate(want) in facts
        if in_giveup:
            giveup_nodes.append(nid)
        ctx.ob("the error is dispatched for the message's remote", chain(b["r"]) == m + ".remote", fi, call)
        e = b["e"]
        cls = None
        if isinstance(e, ast.Call):
            cls = ctx.prog.resolve_in_module(fi.module, chain(e.func) or "?")
        ok = cls is not None and ctx.prog.is_subclass(cls, "aiocoap.error.TimeoutError") and ctx.prog.is_subclass(cls, "aiocoap.error.NetworkError") and ctx.prog.is_subclass(cls, "aiocoap.error.Error")
        ctx.ob("the dispatched error is a timeout-class NetworkError derived from error.Error", ok, fi, call, detail="class %s, mro %s" % (cls, ctx.prog.mro(cls) if cls else None))
    # every path through the give-up arm reaches the dispatch: the give-up side
    # of the branch on (counter, MAX_RETRANSMIT) is the one from which no
    # transmission is reachable
    send_nodes = {cfg.loc1(s) for s, _ in find("self._send_via_transport($*a)", fi.node)}
    sides = []
    for n in cfg.nodes:
        if n.kind in ("T", "F") and isinstance(n.ast, ast.Compare):
            try:
                atoms = N.cmp(n.ast)[1].atoms() if N.cmp(n.ast)[0] in ("lt", "le", "eq", "ne") and isinstance(N.cmp(n.ast)[1], Poly) else set()
            except norm.NormError:
                atoms = set()
            if {c, "%s.transport_tuning.MAX_RETRANSMIT" % m} <= atoms and not (cfg.reach({n.id}) & send_nodes):
                sides.append(n)
    ctx.need(sides, "_retransmit has no give-up side of a branch on (counter, MAX_RETRANSMIT)")
    all_dispatch = [cfg.loc1(call) for call, _ in calls]
    for n in sides:
        ctx.ob("when retransmissions are exhausted every normal path reports the failure", cfg.must_pass(n.id, all_dispatch), fi, n.ast)
    # the error reaches every outstanding request of that remote (shared with C02.e: per-remote fan-out,
    # each stopper bound to its own request, NetworkError conversion)
    from . import c02
    c02.e(ctx)
    # hierarchy facts
    for cls, base in (("error.ConRetransmitsExceeded", "aiocoap.error.TimeoutError"), ("error.TimeoutError", "aiocoap.error.NetworkError"), ("error.NetworkError", "aiocoap.error.Error")):
        ci = ctx.prog.cls(cls)
        ctx.ob("%s derives from %s" % (cls, base), ctx.prog.is_subclass(ci.qn, base), None, None, construct="class %s" % cls)


REF = {
    "MAX_TRANSMIT_SPAN": "T * (2**N - 1) * F",
    "MAX_TRANSMIT_WAIT": "T * (2**(N+1) - 1) * F",
    "PROCESSING_DELAY": "T",
    "MAX_RTT": "2*L + T",
    "EXCHANGE_LIFETIME": "T * (2**N - 1) * F + 2*L + T",
}
DEFAULTS = {"ACK_TIMEOUT": 2, "ACK_RANDOM_FACTOR": Fraction(3, 2), "MAX_RETRANSMIT": 4, "MAX_LATENCY": 100, "NSTART": 1}


def tuning_chain_env(prog):
    """self.X -> return expression of property X of TransportTuning"""
    ci = prog.cls("numbers.constants.TransportTuning")
    env = {}
    for name, fi in ci.methods.items():
        decos = [ast.unparse(d) for d in fi.node.decorator_list]
        if "property" in decos:
            rets = [n for n in walk_no_nested(fi.node) if isinstance(n, ast.Return)]
            if len(rets) == 1 and rets[0].value is not None:
                env["self." + name] = rets[0].value
    return ci, env


@R.clause("C03.g", "derived TransportTuning spans equal the RFC 7252 section 4.8.2 formulas; defaults 2 / 1.5 / 4 / 100")
def g(ctx):
    ci, env = tuning_chain_env(ctx.prog)
    rename = {"self.ACK_TIMEOUT": "T", "self.ACK_RANDOM_FACTOR": "F", "self.MAX_RETRANSMIT": "N", "self.MAX_LATENCY": "L"}
    for name, ref in REF.items():
        ctx.need("self." + name in env, "TransportTuning.%s is not a single-return property" % name)
        fi = ci.methods[name]
        got = Normalizer(rename=rename, chain_env=env).poly(env["self." + name])
        want = Normalizer().poly(ast.parse(ref, mode="eval").body)
        ctx.ob("TransportTuning.%s == %s" % (name, ref), got == want, fi, fi.node, detail="normal form %r" % got, construct="TransportTuning.%s" % name)
    for name, val in DEFAULTS.items():
        ctx.need(name in ci.attrs, "TransportTuning.%s default missing" % name)
        try:
            v = norm.consteval(ci.attrs[name])
        except norm.NormError:
            v = None
        ctx.ob("default %s == %s" % (name, val), v is not None and Fraction(v) == Fraction(val), None, None, construct="TransportTuning.%s = %s" % (name, ast.unparse(ci.attrs[name])), detail="value %r" % v)


@R.clause("C03.h", "every tuning parameter read in messagemanager.py goes through <message>.transport_tuning")
def h(ctx):
    mod = ctx.prog.module("messagemanager")
    reads = 0
    for fi in ctx.prog.funcs.values():
        if fi.module is not mod:
            continue
        for n in walk_no_nested(fi.node):
            bad = None
            if isinstance(n, ast.Attribute) and n.attr in TUNING:
                ok = isinstance(n.value, ast.Attribute) and n.value.attr == "transport_tuning"
                reads += 1
                if not ok:
                    bad = n
            elif isinstance(n, ast.Name) and n.id in TUNING:
                reads += 1
                bad = n
            if bad is not None:
                ctx.ob("tuning parameter read through the message's transport_tuning", False, fi, bad)
    ctx.floor("tuning parameter reads in messagemanager.py", reads, 6)
    ctx.ob("all %d tuning parameter reads go through <message>.transport_tuning" % reads, True, None, None, construct="messagemanager.py")


# ---------------------------------------------------------------------------
F_MM = "aiocoap/messagemanager.py"
R.seed("C03.d", F_MM, "        messageerror_monitor, next_retransmission = self._active_exchanges.pop(key)\n        # this should be a no-op", "        messageerror_monitor, next_retransmission = self._active_exchanges[key]\n        # this should be a no-op", "timed-out exchange stays in the table: the remote looks busy forever")
R.seed("C03.e", F_MM, "        if message.code.is_request():\n            # Responses", "        if message.code.is_request() or message.code is EMPTY:\n            # Responses", "empty ACK/RST with a recently seen message ID dropped as duplicate: retransmissions continue")
R.seed("C03.f", "aiocoap/tokenmanager.py", "                    lambda request=request, exception=exception: request.add_exception(\n                        exception\n                    )", "                    lambda: request.add_exception(\n                        exception\n                    )", "only the last outstanding request receives the timeout")
R.seed("C03.b", F_MM, "if retransmission_counter < message.transport_tuning.MAX_RETRANSMIT:", "if retransmission_counter <= message.transport_tuning.MAX_RETRANSMIT:", "one transmission too many")
R.seed("C03.b", F_MM, "            timeout *= 2\n", "            timeout *= 3\n")
R.seed("C03.b", F_MM, "            timeout *= 2\n", "            timeout += 2\n")
R.seed("C03.b", F_MM, "            timeout *= 2\n", "            pass\n")
R.seed("C03.b", F_MM, "            retransmission_counter += 1\n", "            retransmission_counter += 2\n")
R.seed("C03.b", F_MM, "            del self._backlogs[message.remote]\n            self.token_manager.dispatch_error(", "            del self._backlogs[message.remote]\n            self._schedule_retransmit(message, timeout, retransmission_counter)\n            self.token_manager.dispatch_error(", "re-arm in the give-up arm")
R.seed("C03.b", F_MM, "            self._send_via_transport(message)\n            retransmission_counter += 1", "            self._send_via_transport(message.copy())\n            retransmission_counter += 1", "not the same object")
R.seed("C03.a", F_MM, "            message.transport_tuning.ACK_TIMEOUT\n            * message.transport_tuning.ACK_RANDOM_FACTOR,", "            message.transport_tuning.ACK_TIMEOUT\n            + message.transport_tuning.ACK_RANDOM_FACTOR,")
R.seed("C03.a", F_MM, "next_retransmission = self._schedule_retransmit(message, timeout, 0)", "next_retransmission = self._schedule_retransmit(message, timeout, 1)")
R.seed("C03.a", F_MM, "return self.loop.call_later(timeout, retr)", "return self.loop.call_later(timeout * 2, retr)")
R.seed("C03.c", F_MM, "            self.log.info(\"Retransmission, Message ID: %d.\", message.mid)\n", "            self.log.info(\"Retransmission, Message ID: %d.\", message.mid)\n            message.mid = self._next_message_id()\n")
R.seed("C03.d", F_MM, "        key = (message.remote, message.mid)\n\n        messageerror_monitor, next_retransmission = self._active_exchanges.pop(key)\n        # this should", "        key = (message.remote,)\n\n        messageerror_monitor, next_retransmission = self._active_exchanges.pop(key)\n        # this should")
R.seed("C03.d", F_MM, "        messageerror_monitor, next_retransmission = self._active_exchanges.pop(key)\n        next_retransmission.cancel()\n        if message.mtype is RST:", "        messageerror_monitor, next_retransmission = self._active_exchanges.pop(key)\n        if message.mtype is RST:", "timer not cancelled on ACK")
R.seed("C03.d", F_MM, "        if message.mtype is RST:\n            messageerror_monitor()", "        if True:\n            messageerror_monitor()", "monitor fired on ACK too")
R.seed("C03.d", F_MM, "        if message.mtype is RST:\n            messageerror_monitor()\n", "", "Reset no longer fails the request")
R.seed("C03.e", F_MM, "        if message.mtype in (ACK, RST):\n            self._remove_exchange(message)", "        if message.mtype in (ACK,):\n            self._remove_exchange(message)")
R.seed("C03.f", F_MM, "                error.ConRetransmitsExceeded(\"Retransmissions exceeded\"), message.remote", "                error.LibraryShutdown(\"Retransmissions exceeded\"), message.remote")
R.seed("C03.g", "aiocoap/numbers/constants.py", "            * (2 ** (self.MAX_RETRANSMIT + 1) - 1)", "            * (2 ** (self.MAX_RETRANSMIT) - 1)")
R.seed("C03.g", "aiocoap/numbers/constants.py", "    MAX_RETRANSMIT = 4\n", "    MAX_RETRANSMIT = 5\n")
R.seed("C03.h", F_MM, "message.transport_tuning.EXCHANGE_LIFETIME,", "TransportTuning().EXCHANGE_LIFETIME,")
